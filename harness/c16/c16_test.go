// C16 — parallel-request limits are never exceeded and never leak.
//
// Monitor: (a) every order of {arrive, cancel, finish} events (bounded) is driven against the
// real limiter, each event to quiescence; the observed in-flight set, returned-with-error
// set and per-endpoint (admitted, queued) pairs must equal what a reference FIFO limiter
// predicts; (b) stress with many goroutines and PRNG cancellations with an in-flight gauge
// checked inside the wrapped do function; the limiter must be idle at the end.
package c16

import (
	"context"
	"fmt"
	"math/rand"
	"sort"
	"strings"
	"sync"
	"sync/atomic"
	"testing"
	"time"

	"github.com/plgd-dev/go-coap/v3/message"
	"github.com/plgd-dev/go-coap/v3/message/codes"
	"github.com/plgd-dev/go-coap/v3/message/pool"
	limitparallelrequests "github.com/plgd-dev/go-coap/v3/net/client/limitParallelRequests"

	"verifharness/vr"
)

// ---------------------------------------------------------------- reference model

type rmodel struct {
	total, ep int // limits; <=0 means unlimited
	c         map[int]int
	q         map[int][]int
	avail     int
	sq        []int
	inflight  map[int]bool
	errored   map[int]bool
	finished  map[int]bool
	path      []int
	arrived   map[int]bool
}

func newModel(total, ep int, path []int) *rmodel {
	m := &rmodel{total: total, ep: ep, c: map[int]int{}, q: map[int][]int{}, inflight: map[int]bool{}, errored: map[int]bool{}, finished: map[int]bool{}, path: path, arrived: map[int]bool{}}
	m.avail = total
	if total <= 0 {
		m.avail = 1 << 30
	}
	if ep <= 0 {
		m.ep = 1 << 30
	}
	return m
}

func (m *rmodel) clone() *rmodel {
	n := &rmodel{total: m.total, ep: m.ep, avail: m.avail, path: m.path, c: map[int]int{}, q: map[int][]int{}, inflight: map[int]bool{}, errored: map[int]bool{}, finished: map[int]bool{}, arrived: map[int]bool{}}
	for k, v := range m.c {
		n.c[k] = v
	}
	for k, v := range m.q {
		n.q[k] = append([]int(nil), v...)
	}
	n.sq = append([]int(nil), m.sq...)
	for k := range m.inflight {
		n.inflight[k] = true
	}
	for k := range m.errored {
		n.errored[k] = true
	}
	for k := range m.finished {
		n.finished[k] = true
	}
	for k := range m.arrived {
		n.arrived[k] = true
	}
	return n
}

func (m *rmodel) semAcquire(r int) {
	if m.avail > 0 && len(m.sq) == 0 {
		m.avail--
		m.inflight[r] = true
		return
	}
	m.sq = append(m.sq, r)
}

func (m *rmodel) semGrant() {
	for len(m.sq) > 0 && m.avail > 0 {
		r := m.sq[0]
		m.sq = m.sq[1:]
		m.avail--
		m.inflight[r] = true
	}
}

func (m *rmodel) releaseEndpoint(p int) {
	if len(m.q[p]) > 0 {
		h := m.q[p][0]
		m.q[p] = m.q[p][1:]
		m.semAcquire(h)
		return
	}
	m.c[p]--
	if m.c[p] == 0 {
		delete(m.c, p)
	}
}

func (m *rmodel) arrive(r int) {
	p := m.path[r]
	m.arrived[r] = true
	if m.c[p] < m.ep {
		m.c[p]++
		m.semAcquire(r)
		return
	}
	m.q[p] = append(m.q[p], r)
}

func (m *rmodel) finish(r int) {
	delete(m.inflight, r)
	m.finished[r] = true
	m.avail++
	m.semGrant()
	m.releaseEndpoint(m.path[r])
}

func remove(s []int, r int) ([]int, bool) {
	for i, x := range s {
		if x == r {
			return append(append([]int(nil), s[:i]...), s[i+1:]...), true
		}
	}
	return s, false
}

// cancel: a waiter leaves with an error; a request already in flight is not affected.
func (m *rmodel) cancel(r int) {
	p := m.path[r]
	if q, ok := remove(m.q[p], r); ok {
		m.q[p] = q
		m.errored[r] = true
		return
	}
	if sq, ok := remove(m.sq, r); ok {
		m.sq = sq
		m.errored[r] = true
		m.semGrant()
		m.releaseEndpoint(p)
		return
	}
}

func (m *rmodel) waiting(r int) bool {
	return m.arrived[r] && !m.inflight[r] && !m.errored[r] && !m.finished[r]
}

func setStr(s map[int]bool) string {
	var k []int
	for x, v := range s {
		if v {
			k = append(k, x)
		}
	}
	sort.Ints(k)
	return fmt.Sprint(k)
}

func (m *rmodel) epPairs() string {
	var ps []string
	for p, c := range m.c {
		ps = append(ps, fmt.Sprintf("(%d,%d)", c, len(m.q[p])))
	}
	sort.Strings(ps)
	return strings.Join(ps, "")
}

// ---------------------------------------------------------------- nondeterministic reference

// nstate is the reference limiter without an order among the requests that passed the
// endpoint limiter and wait for a slot of the total limit (set w): the statement fixes the
// admission order per path only, and a request needs an unobservable moment to get from
// the endpoint limiter to the total semaphore. Everything else is deterministic.
type nstate struct {
	total, ep int
	path      []int
	c         map[int]int
	q         map[int][]int
	w         map[int]bool
	avail     int
	inflight  map[int]bool
	errored   map[int]bool
	finished  map[int]bool
	arrived   map[int]bool
}

func newNState(total, ep int, path []int) *nstate {
	n := &nstate{total: total, ep: ep, path: path, c: map[int]int{}, q: map[int][]int{}, w: map[int]bool{}, inflight: map[int]bool{}, errored: map[int]bool{}, finished: map[int]bool{}, arrived: map[int]bool{}}
	n.avail = total
	if total <= 0 {
		n.avail = 1 << 30
	}
	if ep <= 0 {
		n.ep = 1 << 30
	}
	return n
}

func cpSet(m map[int]bool) map[int]bool {
	o := map[int]bool{}
	for k, v := range m {
		if v {
			o[k] = true
		}
	}
	return o
}

func (s *nstate) clone() *nstate {
	n := &nstate{total: s.total, ep: s.ep, path: s.path, avail: s.avail, c: map[int]int{}, q: map[int][]int{}}
	for k, v := range s.c {
		n.c[k] = v
	}
	for k, v := range s.q {
		n.q[k] = append([]int(nil), v...)
	}
	n.w, n.inflight, n.errored, n.finished, n.arrived = cpSet(s.w), cpSet(s.inflight), cpSet(s.errored), cpSet(s.finished), cpSet(s.arrived)
	return n
}

func (s *nstate) releaseEndpoint(p int) {
	if len(s.q[p]) > 0 {
		h := s.q[p][0]
		s.q[p] = s.q[p][1:]
		s.w[h] = true
		return
	}
	s.c[p]--
	if s.c[p] == 0 {
		delete(s.c, p)
	}
}

// settle returns every state reachable by handing free total slots to waiting requests.
func (s *nstate) settle() []*nstate {
	if s.avail == 0 || len(s.w) == 0 {
		return []*nstate{s}
	}
	var out []*nstate
	for r := range s.w {
		n := s.clone()
		delete(n.w, r)
		n.avail--
		n.inflight[r] = true
		out = append(out, n.settle()...)
	}
	return out
}

func (s *nstate) enabled(e ev) bool {
	switch e.Kind {
	case "arrive":
		return !s.arrived[e.R]
	case "finish":
		return s.inflight[e.R]
	case "cancel":
		return s.arrived[e.R] && !s.finished[e.R] && !s.errored[e.R]
	}
	return false
}

func (s *nstate) apply(e ev) []*nstate {
	n := s.clone()
	p := n.path[e.R]
	switch e.Kind {
	case "arrive":
		n.arrived[e.R] = true
		if n.c[p] < n.ep {
			n.c[p]++
			n.w[e.R] = true
		} else {
			n.q[p] = append(n.q[p], e.R)
		}
	case "finish":
		delete(n.inflight, e.R)
		n.finished[e.R] = true
		n.avail++
		n.releaseEndpoint(p)
	case "cancel":
		if q, ok := remove(n.q[p], e.R); ok {
			n.q[p] = q
			n.errored[e.R] = true
		} else if n.w[e.R] {
			delete(n.w, e.R)
			n.errored[e.R] = true
			n.releaseEndpoint(p)
		}
	}
	return n.settle()
}

func (s *nstate) epPairs() string {
	var ps []string
	for p, c := range s.c {
		ps = append(ps, fmt.Sprintf("(%d,%d)", c, len(s.q[p])))
	}
	sort.Strings(ps)
	return strings.Join(ps, "")
}

// ---------------------------------------------------------------- real limiter driver

type ev struct {
	Kind string `json:"ev"` // arrive / cancel / finish
	R    int    `json:"req"`
}

type scenario struct {
	Total int   `json:"total_limit"`
	Ep    int   `json:"endpoint_limit"`
	Path  []int `json:"path_of_request"`
	Evs   []ev  `json:"events"`
}

type driver struct {
	lim      *limitparallelrequests.LimitParallelRequests
	mu       sync.Mutex
	inflight map[int]bool
	errored  map[int]bool
	returned map[int]bool
	entered  []int
	maxTotal int
	maxPath  map[int]int
	finishCh []chan struct{}
	cancels  []context.CancelFunc
	path     []int
	wg       sync.WaitGroup
}

type reqKey struct{}

func newDriver(total, ep int, path []int) *driver {
	d := &driver{inflight: map[int]bool{}, errored: map[int]bool{}, returned: map[int]bool{}, maxPath: map[int]int{}, path: path}
	d.finishCh = make([]chan struct{}, len(path))
	d.cancels = make([]context.CancelFunc, len(path))
	for i := range path {
		d.finishCh[i] = make(chan struct{})
	}
	d.lim = limitparallelrequests.New(int64(total), int64(ep), func(req *pool.Message) (*pool.Message, error) {
		r := req.Context().Value(reqKey{}).(int)
		d.mu.Lock()
		d.inflight[r] = true
		d.entered = append(d.entered, r)
		n, np := 0, 0
		for x := range d.inflight {
			n++
			if d.path[x] == d.path[r] {
				np++
			}
		}
		if n > d.maxTotal {
			d.maxTotal = n
		}
		if np > d.maxPath[d.path[r]] {
			d.maxPath[d.path[r]] = np
		}
		d.mu.Unlock()
		<-d.finishCh[r]
		d.mu.Lock()
		delete(d.inflight, r)
		d.mu.Unlock()
		return nil, nil
	}, nil)
	return d
}

func (d *driver) arrive(r int) {
	ctx, cancel := context.WithCancel(context.WithValue(context.Background(), reqKey{}, r))
	d.cancels[r] = cancel
	req := pool.NewMessage(ctx)
	req.SetCode(codes.GET)
	req.MustSetPath(fmt.Sprintf("/p%d", d.path[r]))
	decorate(req, r)
	d.wg.Add(1)
	go func() {
		defer d.wg.Done()
		_, err := d.lim.Do(req)
		d.mu.Lock()
		d.returned[r] = true
		if err != nil {
			d.errored[r] = true
		}
		d.mu.Unlock()
	}()
}

func (d *driver) observe() (inflight, errored, pairs string) {
	d.mu.Lock()
	inflight, errored = setStr(d.inflight), setStr(d.errored)
	d.mu.Unlock()
	var ps []string
	for _, v := range d.lim.VerifQueues() {
		ps = append(ps, fmt.Sprintf("(%d,%d)", v[0], v[1]))
	}
	sort.Strings(ps)
	return inflight, errored, strings.Join(ps, "")
}

// runScenario drives one event order; returns false when a violation was recorded.
func runScenario(rec *vr.Rec, sc scenario) bool {
	cands := []*nstate{newNState(sc.Total, sc.Ep, sc.Path)}
	d := newDriver(sc.Total, sc.Ep, sc.Path)
	ok := true
	defer func() {
		// release everything so that no goroutine leaks into the next scenario
		for r := range sc.Path {
			if d.cancels[r] != nil {
				d.cancels[r]()
			}
			select {
			case <-d.finishCh[r]:
			default:
				close(d.finishCh[r])
			}
		}
		d.wg.Wait()
	}()
	for i, e := range sc.Evs {
		if !cands[0].enabled(e) {
			// the real limiter resolved a cross-path race for the total limit differently from
			// the FIFO model the order was generated with; the rest of the order does not apply
			rec.Count("event_orders_cut_short_by_cross_path_race", 1)
			break
		}
		var next []*nstate
		for _, c := range cands {
			next = append(next, c.apply(e)...)
		}
		switch e.Kind {
		case "arrive":
			d.arrive(e.R)
		case "cancel":
			d.cancels[e.R]()
		case "finish":
			close(d.finishCh[e.R])
		}
		var gotIn, gotErr, gotPairs string
		var matched []*nstate
		match := func() bool {
			gotIn, gotErr, gotPairs = d.observe()
			matched = matched[:0]
			for _, c := range next {
				if gotIn == setStr(c.inflight) && gotErr == setStr(c.errored) && gotPairs == c.epPairs() {
					matched = append(matched, c)
				}
			}
			return len(matched) > 0
		}
		deadline := time.Now().Add(3 * time.Second)
		for n := 0; !match(); n++ {
			if time.Now().After(deadline) {
				break
			}
			if n < 50 {
				time.Sleep(20 * time.Microsecond)
			} else {
				time.Sleep(500 * time.Microsecond)
			}
		}
		if !match() {
			sig := "C16/events/state-differs-from-model"
			d.mu.Lock()
			over := (sc.Total > 0 && d.maxTotal > sc.Total)
			for _, n := range d.maxPath {
				if sc.Ep > 0 && n > sc.Ep {
					over = true
				}
			}
			d.mu.Unlock()
			switch {
			case over:
				sig = "C16/events/limit-exceeded"
			case e.Kind == "cancel":
				sig = "C16/events/cancel-changes-admission"
			}
			var want []string
			for _, c := range next {
				want = append(want, fmt.Sprintf("{in-flight %s errors %s endpoints %s}", setStr(c.inflight), setStr(c.errored), c.epPairs()))
			}
			rec.Violation(sig, fmt.Sprintf("after event %d (%s %d): in-flight %s, returned-with-error %s, endpoint (admitted,queued) %s; reference allows %v", i, e.Kind, e.R, gotIn, gotErr, gotPairs, want), sc)
			ok = false
			break
		}
		cands = append([]*nstate(nil), matched[:1]...)
	}
	if ok {
		// admission order per path must be the arrival order among requests that were admitted
		d.mu.Lock()
		lastIdx := map[int]int{}
		for _, r := range d.entered {
			p := sc.Path[r]
			if prev, seen := lastIdx[p]; seen && r < prev && sc.Ep == 1 {
				rec.Violation("C16/events/admission-order", fmt.Sprintf("path %d: request %d admitted after %d", p, r, prev), sc)
				ok = false
			}
			lastIdx[p] = r
		}
		d.mu.Unlock()
	}
	return ok
}

// enumerate all valid event orders for n requests
func enumerate(total, ep int, path []int, visit func([]ev)) {
	n := len(path)
	var rec func(m *rmodel, cancelled map[int]bool, evs []ev)
	rec = func(m *rmodel, cancelled map[int]bool, evs []ev) {
		progressed := false
		// arrive in index order
		next := -1
		for r := 0; r < n; r++ {
			if !m.arrived[r] {
				next = r
				break
			}
		}
		if next >= 0 {
			m2 := m.clone()
			m2.arrive(next)
			rec(m2, cancelled, append(evs, ev{"arrive", next}))
			progressed = true
		}
		for r := 0; r < n; r++ {
			if m.inflight[r] {
				m2 := m.clone()
				m2.finish(r)
				rec(m2, cancelled, append(evs, ev{"finish", r}))
				progressed = true
			}
			if m.arrived[r] && !cancelled[r] && !m.finished[r] && !m.errored[r] {
				// cancel while waiting (interesting) or while in flight (must be harmless)
				if m.waiting(r) || m.inflight[r] {
					m2 := m.clone()
					m2.cancel(r)
					c2 := map[int]bool{}
					for k, v := range cancelled {
						c2[k] = v
					}
					c2[r] = true
					rec(m2, c2, append(evs, ev{"cancel", r}))
					progressed = true
				}
			}
		}
		if !progressed {
			visit(append([]ev(nil), evs...))
		}
	}
	rec(newModel(total, ep, path), map[int]bool{}, nil)
}

func TestRun(t *testing.T) {
	rec := vr.New("C16", "(a) every valid order of {arrive_i (in index order), cancel_i (while waiting or in flight), finish_i (while in flight)} for 2..3 requests over all path assignments to 1-2 paths and limits total in {1,2,unlimited} x per-endpoint in {1,2}, plus PRNG-sampled orders for 4 (quick) / 4-5 (thorough) requests; each event is driven to quiescence and the observed in-flight set, error-return set and per-endpoint (admitted,queued) pairs are compared with a reference FIFO limiter; (b) stress: 64 goroutines, PRNG cancels, in-flight gauges checked inside the wrapped do, idle check at the end. Distinct = distinct (configuration, event order).")
	defer rec.Flush(true)
	seed := vr.Seed()

	type cfg struct {
		total, ep int
		path      []int
	}
	var cfgs []cfg
	for _, n := range []int{2, 3} {
		for mask := 0; mask < 1<<(n-1); mask++ {
			path := make([]int, n)
			for i := 1; i < n; i++ {
				path[i] = (mask >> (i - 1)) & 1
			}
			for _, total := range []int{1, 2, 0} {
				for _, ep := range []int{1, 2} {
					cfgs = append(cfgs, cfg{total, ep, path})
				}
			}
		}
	}
	var all []scenario
	for _, c := range cfgs {
		enumerate(c.total, c.ep, c.path, func(evs []ev) {
			all = append(all, scenario{c.total, c.ep, c.path, evs})
		})
	}
	rec.Count("enumerated_event_orders_2_3_requests", int64(len(all)))
	// larger request counts: sampled orders
	rnd := rand.New(rand.NewSource(seed))
	var big []scenario
	for _, n := range []int{4, 5} {
		if n == 5 && !vr.Thorough() {
			continue
		}
		for mask := 0; mask < 1<<(n-1); mask++ {
			path := make([]int, n)
			for i := 1; i < n; i++ {
				path[i] = (mask >> (i - 1)) & 1
			}
			for _, total := range []int{1, 2, 0} {
				for _, ep := range []int{1, 2} {
					var orders [][]ev
					enumerate(total, ep, path, func(evs []ev) { orders = append(orders, evs) })
					rec.Count(fmt.Sprintf("valid_event_orders_%d_requests", n), int64(len(orders)))
					k := vr.Scale(25, 400)
					for i := 0; i < k && len(orders) > 0; i++ {
						big = append(big, scenario{total, ep, path, orders[rnd.Intn(len(orders))]})
					}
				}
			}
		}
	}
	if !vr.Thorough() && len(all) > 6000 {
		// keep the quick tier bounded: all orders for 2 requests, PRNG subset of the 3-request orders
		var keep []scenario
		for _, s := range all {
			if len(s.Path) == 2 || rnd.Intn(len(all)) < 6000 {
				keep = append(keep, s)
			}
		}
		rec.Note(fmt.Sprintf("quick tier: %d of %d enumerated orders driven", len(keep), len(all)))
		all = keep
	} else {
		rec.SetExhaustive(false)
	}
	all = append(all, big...)
	// run scenarios on a few workers (each scenario owns its limiter)
	var wg sync.WaitGroup
	var idx atomic.Int64
	for w := 0; w < 8; w++ {
		wg.Add(1)
		go func() {
			defer wg.Done()
			for {
				i := int(idx.Add(1)) - 1
				if i >= len(all) {
					return
				}
				sc := all[i]
				if rec.NViolations() > 12 {
					// every order that does not reach the model's state costs its full settle time: enough witnesses
					rec.Count("event_orders_skipped_after_violations", 1)
					continue
				}
				runScenario(rec, sc)
				rec.Eval(fmt.Sprintf("%d|%d|%v|%v", sc.Total, sc.Ep, sc.Path, sc.Evs))
				rec.Count("event_orders_driven", 1)
				rec.Count("events_driven_to_quiescence", int64(len(sc.Evs)))
				for _, e := range sc.Evs {
					if e.Kind == "cancel" {
						rec.Count("cancel_events", 1)
					}
				}
				if i < 2 {
					rec.Sample(sc)
				}
			}
		}()
	}
	wg.Wait()

	if rec.NViolations() > 12 {
		return
	}
	stress(rec, seed)
	wiring(rec, vr.Scale(6, 200))
	serverSide(rec, vr.Scale(4, 40))
	rec.Assume("reference limiter: per-path counter + FIFO, total limit as a FIFO semaphore; release order on return = total slot first, then the endpoint slot (passes to the head waiter)")
}

func stress(rec *vr.Rec, seed int64) {
	rounds := vr.Scale(6, 120)
	for round := 0; round < rounds; round++ {
		r := rand.New(rand.NewSource(seed*53 + int64(round)))
		total := []int{1, 2, 3, 8, 0}[r.Intn(5)]
		ep := []int{1, 2, 3, 0}[r.Intn(4)]
		npaths := 1 + r.Intn(4)
		var mu sync.Mutex
		inflight := 0
		perPath := map[int]int{}
		var entered, errRan atomic.Int64
		type rk struct{ id, path int }
		ran := sync.Map{}
		lim := limitparallelrequests.New(int64(total), int64(ep), func(req *pool.Message) (*pool.Message, error) {
			k := req.Context().Value(reqKey{}).(rk)
			mu.Lock()
			inflight++
			perPath[k.path]++
			if total > 0 && inflight > total {
				rec.Violation("C16/stress/total-limit-exceeded", fmt.Sprintf("%d in flight, limit %d", inflight, total), map[string]int{"total": total, "ep": ep})
			}
			if ep > 0 && perPath[k.path] > ep {
				rec.Violation("C16/stress/endpoint-limit-exceeded", fmt.Sprintf("%d in flight on one path, limit %d", perPath[k.path], ep), map[string]int{"total": total, "ep": ep})
			}
			mu.Unlock()
			ran.Store(k.id, true)
			entered.Add(1)
			for i := 0; i < 50; i++ {
				_ = i * i
			}
			if k.id%3 == 0 {
				time.Sleep(time.Microsecond)
			}
			mu.Lock()
			inflight--
			perPath[k.path]--
			mu.Unlock()
			return nil, nil
		}, nil)
		var wg sync.WaitGroup
		per := vr.Scale(250, 2000)
		// bounded progress as a logical verdict instead of a process hang: when no call has returned for 5 s while
		// nothing is in flight inside the wrapped function, the waiters can only be waiting for slots nobody holds
		base, stopAll := context.WithCancel(context.Background())
		var returned atomic.Int64
		monDone := make(chan struct{})
		go func() {
			defer close(monDone)
			last, since := int64(-1), time.Now()
			for {
				select {
				case <-base.Done():
					return
				case <-time.After(50 * time.Millisecond):
				}
				mu.Lock()
				inf := inflight
				mu.Unlock()
				if n := returned.Load(); n != last || inf != 0 {
					last, since = n, time.Now()
					continue
				}
				if time.Since(since) > 5*time.Second {
					rec.Violation("C16/stress/slot-leaked-waiters-stalled", fmt.Sprintf("no call returned for 5 s with nothing in flight and callers still waiting (returned %d of %d); endpoint queues: %v", last, 64*per, lim.VerifQueues()), map[string]int{"total": total, "ep": ep, "paths": npaths})
					stopAll()
					return
				}
			}
		}()
		for g := 0; g < 64; g++ {
			wg.Add(1)
			go func(g int) {
				defer wg.Done()
				rr := rand.New(rand.NewSource(seed*59 + int64(round*100+g)))
				for i := 0; i < per; i++ {
					id := g*per + i
					k := rk{id, rr.Intn(npaths)}
					if base.Err() != nil {
						return
					}
					ctx, cancel := context.WithCancel(context.WithValue(base, reqKey{}, k))
					switch rr.Intn(4) {
					case 0:
						cancel() // cancelled before arrival
					case 1:
						go func() { cancel() }()
					case 2:
						d := time.Duration(rr.Intn(30)) * time.Microsecond
						time.AfterFunc(d, cancel)
					}
					req := pool.NewMessage(ctx)
					req.SetCode(codes.GET)
					req.MustSetPath(fmt.Sprintf("/s%d", k.path))
					decorate(req, int(id))
					_, err := lim.Do(req)
					returned.Add(1)
					if err != nil {
						if _, did := ran.Load(id); did {
							errRan.Add(1)
							rec.Violation("C16/stress/cancelled-waiter-ran", "Do returned an error although the wrapped do function ran", nil)
						}
						rec.Count("stress_requests_cancelled_while_waiting", 1)
					}
					cancel()
				}
			}(g)
		}
		wg.Wait()
		stalled := base.Err() != nil
		stopAll()
		<-monDone
		if stalled {
			return
		}
		// idle again
		if q := lim.VerifQueues(); len(q) != 0 {
			rec.Violation("C16/stress/limiter-not-idle", fmt.Sprintf("endpoint queues after all calls returned: %v", q), map[string]int{"total": total, "ep": ep})
		}
		done := make(chan error, 1)
		go func() {
			ctx, cancel := context.WithTimeout(context.WithValue(context.Background(), reqKey{}, rk{-1, 0}), 10*time.Second)
			defer cancel()
			req := pool.NewMessage(ctx)
			req.SetCode(codes.GET)
			req.MustSetPath("/s0")
			_, err := lim.Do(req)
			done <- err
		}()
		if err := <-done; err != nil {
			rec.Violation("C16/stress/fresh-request-not-admitted", err.Error(), map[string]int{"total": total, "ep": ep})
		}
		rec.EvalN(int64(64*per), fmt.Sprintf("stress-%d-%d-%d", total, ep, npaths))
		rec.Count("stress_requests", int64(64*per))
		rec.Count("stress_do_entries", entered.Load())
	}
}

// decorate: requests for one path are requests for one endpoint whatever else they carry - validators, a host name, an
// Observe value, a query. Every n-th request gets another combination of such options (numbered below and above Uri-Path).
func decorate(req *pool.Message, n int) {
	switch n % 7 {
	case 1:
		_ = req.SetETag([]byte{0xe7, byte(n), 0xa6})
	case 2:
		req.SetOptionBytes(message.IfMatch, []byte{byte(n), 1})
	case 3:
		req.SetOptionString(message.URIHost, fmt.Sprintf("host%d.example", n))
	case 4:
		req.SetObserve(1)
	case 5:
		req.AddQuery(fmt.Sprintf("q=%d", n))
	case 6:
		req.SetOptionUint32(message.URIPort, uint32(5000+n%100))
		_ = req.SetETag([]byte{byte(n)})
	}
}
