package c16

import (
	"context"
	"fmt"
	"net"
	"sync"
	"time"

	piondtls "github.com/pion/dtls/v3"
	"github.com/plgd-dev/go-coap/v3/mux"
	"github.com/plgd-dev/go-coap/v3/options"

	"github.com/plgd-dev/go-coap/v3/message/pool"
	tcpclient "github.com/plgd-dev/go-coap/v3/tcp/client"
	udpclient "github.com/plgd-dev/go-coap/v3/udp/client"

	"verifharness/netenv"
	"verifharness/ref"
	"verifharness/sim"
	"verifharness/vr"
)

// wiring: the limiter as the connections use it. A real connection (udp over the in-memory session, tcp over the scripted
// net.Conn) is configured with total limit 1 / per-path limit 1; the wire is watched. Whatever client API a request comes
// from - Get, Observe registration, the deregistration GET that Observation.Cancel sends - no second request may be on
// the wire while one is unanswered.
func wiring(rec *vr.Rec, reps int) {
	for rep := 0; rep < reps; rep++ {
		kind := []string{"udp", "tcp"}[rep%2]
		c := map[string]any{"scenario": "limit 1/1 on a real connection: Get outstanding, then Observation.Cancel", "transport": kind}
		var inject func(m ref.Msg)
		var sent func() []ref.Msg
		var get func(ctx context.Context, path string) error
		var observe func(ctx context.Context, path string) (func(context.Context) error, error)
		var closef func()
		if kind == "udp" {
			s := sim.NewMemSession()
			cc := sim.NewUDPConn(s, sim.UDPOpts{Mutate: func(cfg *udpclient.Config) {
				cfg.LimitClientParallelRequests = 1
				cfg.LimitClientEndpointParallelRequests = 1
			}})
			inject = func(m ref.Msg) { _ = cc.Process(nil, ref.EncodeUDP(m)) }
			sent = func() []ref.Msg {
				var out []ref.Msg
				for _, d := range s.Log() {
					if m, err := ref.ParseUDP(d.Data); err == nil {
						out = append(out, m)
					}
				}
				return out
			}
			get = func(ctx context.Context, path string) error {
				m, err := cc.Get(ctx, path)
				if err == nil {
					cc.ReleaseMessage(m)
				}
				return err
			}
			observe = func(ctx context.Context, path string) (func(context.Context) error, error) {
				o, err := cc.Observe(ctx, path, func(*pool.Message) {})
				if err != nil {
					return nil, err
				}
				return func(ctx context.Context) error { return o.Cancel(ctx) }, nil
			}
			closef = func() { _ = cc.Close() }
		} else {
			sc := sim.NewScriptConn()
			cc, err := sim.NewTCPConn(sc, sim.TCPOpts{Mutate: func(cfg *tcpclient.Config) {
				cfg.LimitClientParallelRequests = 1
				cfg.LimitClientEndpointParallelRequests = 1
			}})
			if err != nil {
				rec.Inconclusive("wiring: " + err.Error())
				continue
			}
			inject = func(m ref.Msg) { sc.Feed(ref.EncodeTCP(m)) }
			sent = func() []ref.Msg { ms, _ := ref.ParseTCPStream(sc.Written()); return ms }
			get = func(ctx context.Context, path string) error {
				m, err := cc.Get(ctx, path)
				if err == nil {
					cc.ReleaseMessage(m)
				}
				return err
			}
			observe = func(ctx context.Context, path string) (func(context.Context) error, error) {
				o, err := cc.Observe(ctx, path, func(*pool.Message) {})
				if err != nil {
					return nil, err
				}
				return func(ctx context.Context) error { return o.Cancel(ctx) }, nil
			}
			closef = func() { _ = cc.Close() }
		}
		reply := func(req ref.Msg, opts []ref.Opt) {
			if kind == "udp" {
				inject(ref.Msg{Type: 2, Code: 0x45, MID: req.MID, Token: req.Token, Opts: opts, Payload: []byte("ok")})
			} else {
				inject(ref.Msg{Code: 0x45, Token: req.Token, Opts: opts, Payload: []byte("ok")})
			}
		}
		// requests seen on the wire so far (GET/POST/PUT/DELETE), in order
		reqs := func() []ref.Msg {
			var out []ref.Msg
			for _, m := range sent() {
				if m.Code >= 1 && m.Code <= 4 {
					out = append(out, m)
				}
			}
			return out
		}
		waitReqs := func(n int, d time.Duration) bool { return sim.WaitFor(d, func() bool { return len(reqs()) >= n }) }
		ctx, cancel := context.WithTimeout(context.Background(), 20*time.Second)
		// 1. registration
		type obsRes struct {
			cancel func(context.Context) error
			err    error
		}
		oc := make(chan obsRes, 1)
		go func() { f, err := observe(ctx, "/obs"); oc <- obsRes{f, err} }()
		if !waitReqs(1, 5*time.Second) {
			rec.Inconclusive("wiring: registration not transmitted")
			cancel()
			closef()
			continue
		}
		reply(reqs()[0], []ref.Opt{{ID: 6, Val: ref.Uint(1)}})
		or := <-oc
		if or.err != nil {
			rec.Inconclusive("wiring: registration failed: " + or.err.Error())
			cancel()
			closef()
			continue
		}
		// 2. a request that stays unanswered
		gc := make(chan error, 1)
		go func() { gc <- get(ctx, "/slow") }()
		if !waitReqs(2, 5*time.Second) {
			// the live observation keeps the only slot: nothing to judge here
			rec.Count("wiring_get_not_admitted_while_observing", 1)
			cancel()
			closef()
			<-gc
			continue
		}
		// 3. Cancel: its deregistration GET must wait for the slot
		cc2 := make(chan error, 1)
		go func() { cc2 <- or.cancel(ctx) }()
		early := waitReqs(3, 30*time.Millisecond)
		rec.Eval(fmt.Sprintf("wiring|%s|%d", kind, rep))
		rec.Count("wiring_cases_"+kind, 1)
		if early {
			rec.Violation("C16/wiring/"+kind+"/limit-exceeded-on-the-wire", fmt.Sprintf("total limit 1: GET /slow is unanswered and the connection transmitted another request (%s, code %d, observe option present: %v)", ref.PathOf(reqs()[2]), reqs()[2].Code, func() bool { _, ok := reqs()[2].GetUint(6); return ok }()), c)
			cancel()
			closef()
			<-gc
			<-cc2
			continue
		}
		// 4. answer /slow; the deregistration follows and is answered
		reply(reqs()[1], nil)
		<-gc
		if waitReqs(3, 5*time.Second) {
			reply(reqs()[2], nil)
		}
		select {
		case <-cc2:
			rec.Count("wiring_cancel_completed_after_slot_was_free", 1)
		case <-time.After(5 * time.Second):
			rec.Violation("C16/wiring/"+kind+"/cancel-not-admitted-after-slot-was-free", "the outstanding request was answered, the deregistration GET was not transmitted/answered within 5 s", c)
		}
		cancel()
		closef()
	}
}

var _ = vr.Seed

// serverSide: requests a SERVER issues over a connection it accepted are limited too. A dtls (and a udp) server is
// configured with total limit 3 / per-path limit 1 and NSTART 16; as soon as a peer shows up it fires four GETs for one
// path and two for others over that connection. The peer is a raw socket that answers each request only after a while
// and counts what is outstanding: never more than one request per path, never more than three in total.
func serverSide(rec *vr.Rec, reps int) {
	for rep := 0; rep < reps; rep++ {
		kind := []string{"dtls", "udp"}[rep%2]
		c := map[string]any{"scenario": "server-initiated requests over an accepted connection, limits 3 / 1", "transport": kind}
		r := mux.NewRouter()
		_ = r.Handle("/hello", mux.HandlerFunc(func(w mux.ResponseWriter, m *mux.Message) {}))
		var fired sync.WaitGroup
		onNew := func(cc *udpclient.Conn) {
			for i, p := range []string{"/c16/a", "/c16/a", "/c16/b", "/c16/a", "/c16/c", "/c16/a"} {
				fired.Add(1)
				go func(i int, p string) {
					defer fired.Done()
					ctx, cancel := context.WithTimeout(context.Background(), 8*time.Second)
					defer cancel()
					if m, err := cc.Get(ctx, p); err == nil {
						cc.ReleaseMessage(m)
					}
				}(i, p)
			}
		}
		so := netenv.ServerOpts{Router: r}
		so.Dtls = append(so.Dtls, options.WithLimitClientParallelRequest(3), options.WithLimitClientEndpointParallelRequest(1), options.WithTransmission(16, 2*time.Second, 2), options.WithOnNewConn(onNew))
		so.Udp = append(so.Udp, options.WithLimitClientParallelRequest(3), options.WithLimitClientEndpointParallelRequest(1), options.WithTransmission(16, 2*time.Second, 2), options.WithOnNewConn(onNew))
		srv, err := netenv.Start(kind, so)
		if err != nil {
			rec.Inconclusive("server side limits: " + err.Error())
			return
		}
		var pc net.Conn
		if kind == "dtls" {
			ra, _ := net.ResolveUDPAddr("udp4", srv.Addr)
			dc, derr := piondtls.Dial("udp4", ra, netenv.PSK())
			if derr == nil {
				hctx, hc := context.WithTimeout(context.Background(), 10*time.Second)
				derr = dc.HandshakeContext(hctx)
				hc()
			}
			if derr != nil {
				rec.Inconclusive("server side limits: dtls peer: " + derr.Error())
				srv.Stop()
				continue
			}
			pc = dc
		} else {
			uc, uerr := net.Dial("udp4", srv.Addr)
			if uerr != nil {
				rec.Inconclusive("server side limits: " + uerr.Error())
				srv.Stop()
				continue
			}
			pc = uc
		}
		_, _ = pc.Write(ref.EncodeUDP(ref.Msg{Type: 1, Code: 1, MID: 9, Token: []byte{1}, Opts: []ref.Opt{{ID: 11, Val: []byte("hello")}}}))
		var mu sync.Mutex
		out := map[string]int{}
		maxPath, maxTotal, answered := 0, 0, 0
		var wwg sync.WaitGroup
		deadline := time.Now().Add(6 * time.Second)
		buf := make([]byte, 2048)
		seenMID := map[uint16]bool{}
		for time.Now().Before(deadline) {
			mu.Lock()
			done := answered >= 6
			mu.Unlock()
			if done {
				break
			}
			_ = pc.SetReadDeadline(time.Now().Add(200 * time.Millisecond))
			n, rerr := pc.Read(buf)
			if rerr != nil {
				continue
			}
			m, perr := ref.ParseUDP(buf[:n])
			if perr != nil || m.Code != 1 || seenMID[m.MID] {
				continue
			}
			seenMID[m.MID] = true
			p := ref.PathOf(m)
			mu.Lock()
			out[p]++
			tot := 0
			for _, v := range out {
				tot += v
			}
			if out[p] > maxPath {
				maxPath = out[p]
			}
			if tot > maxTotal {
				maxTotal = tot
			}
			mu.Unlock()
			wwg.Add(1)
			go func(m ref.Msg, p string) {
				defer wwg.Done()
				time.Sleep(60 * time.Millisecond)
				mu.Lock()
				out[p]--
				answered++
				mu.Unlock()
				_, _ = pc.Write(ref.EncodeUDP(ref.Msg{Type: 2, Code: 0x45, MID: m.MID, Token: m.Token, Payload: []byte("ok")}))
			}(m, p)
		}
		wwg.Wait()
		rec.Eval(fmt.Sprintf("server-side|%s|%d", kind, rep))
		rec.Count("server_side_limit_cases_"+kind, 1)
		mu.Lock()
		if answered == 0 {
			rec.Count("server_side_no_requests_seen_"+kind, 1)
		}
		if maxPath > 1 {
			rec.Violation("C16/wiring/"+kind+"-server/endpoint-limit-exceeded-on-the-wire", fmt.Sprintf("per-path limit 1: the peer had %d unanswered requests for one path at the same time (max total outstanding %d)", maxPath, maxTotal), c)
		} else if maxTotal > 3 {
			rec.Violation("C16/wiring/"+kind+"-server/total-limit-exceeded-on-the-wire", fmt.Sprintf("total limit 3: %d outstanding", maxTotal), c)
		} else {
			rec.Count("server_side_requests_answered", int64(answered))
		}
		mu.Unlock()
		_ = pc.Close()
		srv.Stop()
		fired.Wait()
		select {
		case <-srv.Served:
		case <-time.After(10 * time.Second):
		}
	}
}
