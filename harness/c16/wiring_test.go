package c16

import (
	"context"
	"fmt"
	"time"

	"github.com/plgd-dev/go-coap/v3/message/pool"
	tcpclient "github.com/plgd-dev/go-coap/v3/tcp/client"
	udpclient "github.com/plgd-dev/go-coap/v3/udp/client"

	"verifharness/ref"
	"verifharness/sim"
	"verifharness/vr"
)

// wiring: the limiter as the connections use it. A real connection (udp over the in-memory session, tcp over the scripted
// net.Conn) is configured with total limit 1 / per-path limit 1; the wire is watched. Whatever client API a request comes
// from - Get, Observe registration, the deregistration GET that Observation.Cancel sends - no second request may be on
// the wire while one is unanswered.
func wiring(rec *vr.Rec, reps int) {
	for rep := 0; rep < reps; rep++ {
		kind := []string{"udp", "tcp"}[rep%2]
		c := map[string]any{"scenario": "limit 1/1 on a real connection: Get outstanding, then Observation.Cancel", "transport": kind}
		var inject func(m ref.Msg)
		var sent func() []ref.Msg
		var get func(ctx context.Context, path string) error
		var observe func(ctx context.Context, path string) (func(context.Context) error, error)
		var closef func()
		if kind == "udp" {
			s := sim.NewMemSession()
			cc := sim.NewUDPConn(s, sim.UDPOpts{Mutate: func(cfg *udpclient.Config) {
				cfg.LimitClientParallelRequests = 1
				cfg.LimitClientEndpointParallelRequests = 1
			}})
			inject = func(m ref.Msg) { _ = cc.Process(nil, ref.EncodeUDP(m)) }
			sent = func() []ref.Msg {
				var out []ref.Msg
				for _, d := range s.Log() {
					if m, err := ref.ParseUDP(d.Data); err == nil {
						out = append(out, m)
					}
				}
				return out
			}
			get = func(ctx context.Context, path string) error {
				m, err := cc.Get(ctx, path)
				if err == nil {
					cc.ReleaseMessage(m)
				}
				return err
			}
			observe = func(ctx context.Context, path string) (func(context.Context) error, error) {
				o, err := cc.Observe(ctx, path, func(*pool.Message) {})
				if err != nil {
					return nil, err
				}
				return func(ctx context.Context) error { return o.Cancel(ctx) }, nil
			}
			closef = func() { _ = cc.Close() }
		} else {
			sc := sim.NewScriptConn()
			cc, err := sim.NewTCPConn(sc, sim.TCPOpts{Mutate: func(cfg *tcpclient.Config) {
				cfg.LimitClientParallelRequests = 1
				cfg.LimitClientEndpointParallelRequests = 1
			}})
			if err != nil {
				rec.Inconclusive("wiring: " + err.Error())
				continue
			}
			inject = func(m ref.Msg) { sc.Feed(ref.EncodeTCP(m)) }
			sent = func() []ref.Msg { ms, _ := ref.ParseTCPStream(sc.Written()); return ms }
			get = func(ctx context.Context, path string) error {
				m, err := cc.Get(ctx, path)
				if err == nil {
					cc.ReleaseMessage(m)
				}
				return err
			}
			observe = func(ctx context.Context, path string) (func(context.Context) error, error) {
				o, err := cc.Observe(ctx, path, func(*pool.Message) {})
				if err != nil {
					return nil, err
				}
				return func(ctx context.Context) error { return o.Cancel(ctx) }, nil
			}
			closef = func() { _ = cc.Close() }
		}
		reply := func(req ref.Msg, opts []ref.Opt) {
			if kind == "udp" {
				inject(ref.Msg{Type: 2, Code: 0x45, MID: req.MID, Token: req.Token, Opts: opts, Payload: []byte("ok")})
			} else {
				inject(ref.Msg{Code: 0x45, Token: req.Token, Opts: opts, Payload: []byte("ok")})
			}
		}
		// requests seen on the wire so far (GET/POST/PUT/DELETE), in order
		reqs := func() []ref.Msg {
			var out []ref.Msg
			for _, m := range sent() {
				if m.Code >= 1 && m.Code <= 4 {
					out = append(out, m)
				}
			}
			return out
		}
		waitReqs := func(n int, d time.Duration) bool { return sim.WaitFor(d, func() bool { return len(reqs()) >= n }) }
		ctx, cancel := context.WithTimeout(context.Background(), 20*time.Second)
		// 1. registration
		type obsRes struct {
			cancel func(context.Context) error
			err    error
		}
		oc := make(chan obsRes, 1)
		go func() { f, err := observe(ctx, "/obs"); oc <- obsRes{f, err} }()
		if !waitReqs(1, 5*time.Second) {
			rec.Inconclusive("wiring: registration not transmitted")
			cancel()
			closef()
			continue
		}
		reply(reqs()[0], []ref.Opt{{ID: 6, Val: ref.Uint(1)}})
		or := <-oc
		if or.err != nil {
			rec.Inconclusive("wiring: registration failed: " + or.err.Error())
			cancel()
			closef()
			continue
		}
		// 2. a request that stays unanswered
		gc := make(chan error, 1)
		go func() { gc <- get(ctx, "/slow") }()
		if !waitReqs(2, 5*time.Second) {
			// the live observation keeps the only slot: nothing to judge here
			rec.Count("wiring_get_not_admitted_while_observing", 1)
			cancel()
			closef()
			<-gc
			continue
		}
		// 3. Cancel: its deregistration GET must wait for the slot
		cc2 := make(chan error, 1)
		go func() { cc2 <- or.cancel(ctx) }()
		early := waitReqs(3, 30*time.Millisecond)
		rec.Eval(fmt.Sprintf("wiring|%s|%d", kind, rep))
		rec.Count("wiring_cases_"+kind, 1)
		if early {
			rec.Violation("C16/wiring/"+kind+"/limit-exceeded-on-the-wire", fmt.Sprintf("total limit 1: GET /slow is unanswered and the connection transmitted another request (%s, code %d, observe option present: %v)", ref.PathOf(reqs()[2]), reqs()[2].Code, func() bool { _, ok := reqs()[2].GetUint(6); return ok }()), c)
			cancel()
			closef()
			<-gc
			<-cc2
			continue
		}
		// 4. answer /slow; the deregistration follows and is answered
		reply(reqs()[1], nil)
		<-gc
		if waitReqs(3, 5*time.Second) {
			reply(reqs()[2], nil)
		}
		select {
		case <-cc2:
			rec.Count("wiring_cancel_completed_after_slot_was_free", 1)
		case <-time.After(5 * time.Second):
			rec.Violation("C16/wiring/"+kind+"/cancel-not-admitted-after-slot-was-free", "the outstanding request was answered, the deregistration GET was not transmitted/answered within 5 s", c)
		}
		cancel()
		closef()
	}
}

var _ = vr.Seed
