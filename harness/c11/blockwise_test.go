package c11

import (
	"bytes"
	"context"
	"fmt"
	"sync"
	"time"

	"github.com/plgd-dev/go-coap/v3/message"
	"github.com/plgd-dev/go-coap/v3/message/codes"
	"github.com/plgd-dev/go-coap/v3/message/pool"
	"github.com/plgd-dev/go-coap/v3/net/responsewriter"
	udpclient "github.com/plgd-dev/go-coap/v3/udp/client"

	"verifharness/ref"
	"verifharness/sim"
	"verifharness/vr"
)

// uploadsWhileNesting: the request whose handler calls back arrived in blocks (Block1), and the peer is a simple device:
// it uses one constant token and starts its next upload while the handler of the previous one is still waiting for the
// answer to its nested request - which the peer acknowledges with an empty ACK and answers as a separate message. Both
// uploads reach the handler once, with their own bodies, and both nested requests get their answers.
func uploadsWhileNesting(rec *vr.Rec, reps int) {
	for rep := 0; rep < reps; rep++ {
		nonSecond := rep%2 == 1
		queue := []int{1, 2, 16}[rep%3]
		c := map[string]any{"scenario": "second block-wise upload under the same token while the first one's handler waits in a nested request", "transport": "udp", "second_upload_non_confirmable": nonSecond, "queue": queue}
		var mu sync.Mutex
		var bodies []string
		var nestedErrs []string
		s := sim.NewMemSession()
		var cc *udpclient.Conn
		cc = sim.NewUDPConn(s, sim.UDPOpts{Blockwise: true, SZX: 0, BWTimeout: 3 * time.Second, Pool: pool.New(8, 2048),
			Mutate: func(cfg *udpclient.Config) {
				cfg.ReceivedMessageQueueSize = queue
				cfg.GetMID = func() int32 { return int32((30000 + 0xffff/2) & 0xffff) }
			},
			Handler: func(w *responsewriter.ResponseWriter[*udpclient.Conn], r *pool.Message) {
				if r.Code() != codes.POST {
					return
				}
				b, _ := r.ReadBody()
				mu.Lock()
				bodies = append(bodies, string(b))
				k := len(bodies)
				mu.Unlock()
				ctx, cancel := context.WithTimeout(context.Background(), 6*time.Second)
				m, err := w.Conn().Get(ctx, fmt.Sprintf("/nested/%d", k))
				cancel()
				if err != nil {
					mu.Lock()
					nestedErrs = append(nestedErrs, fmt.Sprintf("nested request %d: %v", k, err))
					mu.Unlock()
				} else {
					w.Conn().ReleaseMessage(m)
				}
				_ = w.SetResponse(codes.Changed, message.TextPlain, bytes.NewReader([]byte("done")))
			}})
		inject := func(m ref.Msg) { _ = cc.Process(nil, ref.EncodeUDP(m)) }
		sent := func() []ref.Msg {
			var out []ref.Msg
			for _, d := range s.Log() {
				if m, err := ref.ParseUDP(d.Data); err == nil {
					out = append(out, m)
				}
			}
			return out
		}
		waitFor := func(pred func(m ref.Msg) bool) (ref.Msg, bool) {
			var got ref.Msg
			ok := sim.WaitFor(6*time.Second, func() bool {
				for _, m := range sent() {
					if pred(m) {
						got = m
						return true
					}
				}
				return false
			})
			return got, ok
		}
		tok := []byte{0x42}
		body1 := bytes.Repeat([]byte{'1'}, 16+9)
		body2 := bytes.Repeat([]byte{'2'}, 16+5)
		mid := uint16(700)
		block := func(typ uint8, num int, more bool, pl []byte) ref.Msg {
			mid++
			bv := uint32(num << 4)
			if more {
				bv |= 8
			}
			return ref.Msg{Type: typ, Code: 2, MID: mid, Token: tok, Opts: []ref.Opt{{ID: 11, Val: []byte("up")}, {ID: 27, Val: ref.Uint(bv)}}, Payload: pl}
		}
		stalled := ""
		step := func(what string, ok bool) bool {
			if !ok && stalled == "" {
				stalled = what
			}
			return ok
		}
		// upload 1
		b := block(0, 0, true, body1[:16])
		inject(b)
		_, ok := waitFor(func(m ref.Msg) bool { return m.Type == 2 && m.MID == b.MID })
		if step("continue for block 0 of upload 1", ok) {
			inject(block(0, 1, false, body1[16:]))
			n1, ok := waitFor(func(m ref.Msg) bool { return m.Code == 1 && pathOf(m) == "/nested/1" })
			if step("nested request of upload 1", ok) {
				inject(ref.Msg{Type: 2, Code: 0, MID: n1.MID}) // empty ACK: the answer comes separately
				// the device starts its next upload under the same token
				typ2 := uint8(0)
				if nonSecond {
					typ2 = 1
				}
				b2 := block(typ2, 0, true, body2[:16])
				inject(b2)
				time.Sleep(300 * time.Microsecond)
				inject(ref.Msg{Type: 0, Code: 0x45, MID: 9001, Token: n1.Token, Payload: []byte("nested-1-ok")})
				// upload 1 is answered; upload 2 continues
				_, ok = waitFor(func(m ref.Msg) bool { return m.Code == 0x44 && bytes.Equal(m.Token, tok) })
				if step("response to upload 1 (its nested request was answered by a separate message)", ok) {
					// block-wise is lock-step: the device sends its next block when the previous one was answered (two receive
					// goroutines may be at work on the connection, so "injected earlier" is not "processed earlier")
					continues := func() int {
						k := 0
						for _, m := range sent() {
							if m.Code == 0x5f && (m.MID == b2.MID || bytes.Equal(m.Token, tok)) {
								k++
							}
						}
						return k
					}
					step("continue for block 0 of upload 2", sim.WaitFor(6*time.Second, func() bool { return continues() >= 2 }))
					inject(block(typ2, 1, false, body2[16:]))
					n2, ok := waitFor(func(m ref.Msg) bool { return m.Code == 1 && pathOf(m) == "/nested/2" })
					if step("nested request of upload 2", ok) {
						inject(ref.Msg{Type: 2, Code: 0, MID: n2.MID})
						inject(ref.Msg{Type: 0, Code: 0x45, MID: 9002, Token: n2.Token, Payload: []byte("nested-2-ok")})
						sim.WaitFor(6*time.Second, func() bool {
							k := 0
							for _, m := range sent() {
								if m.Code == 0x44 && bytes.Equal(m.Token, tok) {
									k++
								}
							}
							return k >= 2
						})
					}
				}
			}
		}
		time.Sleep(300 * time.Microsecond)
		rec.Eval(fmt.Sprintf("uploads-while-nesting|%v|%d|%d", nonSecond, queue, rep))
		rec.Count("uploads_while_nesting_cases", 1)
		mu.Lock()
		switch {
		case len(nestedErrs) > 0:
			rec.Violation("C11/udp/blockwise-upload/nested-request-failed", fmt.Sprintf("%v (handler saw %d bodies)", nestedErrs, len(bodies)), c)
		case stalled != "":
			var wire []string
			for _, m := range sent() {
				wire = append(wire, fmt.Sprintf("T%d %d.%02d mid=%d tok=%x b1=%v", m.Type, m.Code>>5, m.Code&31, m.MID, m.Token, func() any {
					v, ok := m.GetUint(27)
					if ok {
						return v
					}
					return "-"
				}()))
			}
			rec.Violation("C11/udp/blockwise-upload/stalled", fmt.Sprintf("never seen: %s (handler saw %d bodies; everything the connection sent: %v)", stalled, len(bodies), wire), c)
		case len(bodies) != 2 || bodies[0] != string(body1) || bodies[1] != string(body2):
			rec.Violation("C11/udp/blockwise-upload/handler-bodies", fmt.Sprintf("handler saw %q, the peer uploaded %q and %q", bodies, body1, body2), c)
		default:
			rec.Count("uploads_while_nesting_completed", 1)
		}
		mu.Unlock()
		_ = cc.Close()
	}
}

var _ = vr.Seed
