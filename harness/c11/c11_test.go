// C11 — each received message is processed once; handlers may call back.
//
// Monitors: (1) exactly-once over (injected ids, processing log) at quiescence, via the
// exported ProcessReceivedMessage option and handler logs; (2) arrival order == handler
// entry order in pure-server workloads; (3) completion of nested blocking requests issued
// from handlers (depth 1..4), also with duplicates of the handler's own request queued
// behind it and with message IDs equal to the endpoint's own; bounded-progress watchdog
// with a goroutine-dump second stage. Reader-loop hook points widen the interleavings.
package c11

import (
	"bytes"
	"context"
	"fmt"
	"math/rand"
	"runtime"
	"strings"
	"sync"
	"sync/atomic"
	"testing"
	"time"

	"github.com/plgd-dev/go-coap/v3/message"
	"github.com/plgd-dev/go-coap/v3/message/codes"
	"github.com/plgd-dev/go-coap/v3/message/pool"
	"github.com/plgd-dev/go-coap/v3/net/responsewriter"
	"github.com/plgd-dev/go-coap/v3/options/config"
	"github.com/plgd-dev/go-coap/v3/pkg/verifhook"
	tcpclient "github.com/plgd-dev/go-coap/v3/tcp/client"
	udpclient "github.com/plgd-dev/go-coap/v3/udp/client"

	"verifharness/ref"
	"verifharness/sim"
	"verifharness/vr"
)

// env is one connection under test plus its scripted peer side.
type env struct {
	kind   string
	inject func(m ref.Msg)
	sent   func() []ref.Msg
	get    func(ctx context.Context, path string) ([]byte, error)
	ping   func(ctx context.Context) error
	// observeOnce registers an observation and cancels it again; writeCon sends a confirmable one-way POST
	observeOnce func(ctx context.Context, path string) error
	writeCon    func(ctx context.Context, path string) error
	closef      func()

	mu        sync.Mutex
	processed map[uint64]int // sequence number -> times processed
	entered   []string       // request ids in handler-entry order
	runs      map[string]int
	nestErr   []string
	mid       atomic.Uint32
	// nonGets: the connection's own requests (nested ones included) are Non-confirmable on the datagram transport
	nonGets atomic.Bool
	peerMID atomic.Uint32
	// pingFirst: handlers ping the peer before anything else
	pingFirst atomic.Bool
	// firstOp: "" | "observe" | "write-con": the handler's first blocking operation
	firstOp atomic.Value
	// dropDeletes: the connection's request monitor refuses every DELETE (it never reaches the queue)
	dropDeletes atomic.Bool
	injectAll   func(ms []ref.Msg)
	// observe registers an observation whose callback is cb (it gets the payload) and returns its cancel function
	observe func(ctx context.Context, path string, cb func(body string)) (func(context.Context) error, error)
}

func newEnv(kind string, queue int, ownMIDStart ...int) *env {
	// the connection's own message IDs start right after ownStart (default 30000)
	ownStart := 30000
	if len(ownMIDStart) > 0 {
		ownStart = ownMIDStart[0]
	}
	e := &env{kind: kind, processed: map[uint64]int{}, runs: map[string]int{}}
	e.mid.Store(100)
	logic := func(code codes.Code, body []byte, get func(ctx context.Context, path string) ([]byte, error), respond func(code codes.Code, payload []byte)) {
		if code != codes.POST {
			return
		}
		id := string(body)
		e.mu.Lock()
		e.entered = append(e.entered, id)
		e.runs[id]++
		e.mu.Unlock()
		if e.pingFirst.Load() && (strings.HasPrefix(id, "nest:") || strings.HasPrefix(id, "plain")) {
			// the handler's first blocking operation is a ping of the peer (no nested request has replaced the reader yet)
			ctx, cancel := context.WithTimeout(context.Background(), 10*time.Second)
			err := e.ping(ctx)
			cancel()
			if err != nil {
				e.mu.Lock()
				e.nestErr = append(e.nestErr, fmt.Sprintf("%s: ping from inside the handler: %v", id, err))
				e.mu.Unlock()
			}
		}
		if op, _ := e.firstOp.Load().(string); op != "" && (strings.HasPrefix(id, "nest:") || strings.HasPrefix(id, "plain")) {
			ctx, cancel := context.WithTimeout(context.Background(), 10*time.Second)
			var err error
			switch op {
			case "observe":
				err = e.observeOnce(ctx, "/obsnest/"+strings.ReplaceAll(id, ":", "-"))
			case "write-con":
				err = e.writeCon(ctx, "/wcon/"+strings.ReplaceAll(id, ":", "-"))
			}
			cancel()
			if err != nil {
				e.mu.Lock()
				e.nestErr = append(e.nestErr, fmt.Sprintf("%s: %s from inside the handler: %v", id, op, err))
				e.mu.Unlock()
			}
		}
		if strings.HasPrefix(id, "nest:") {
			// block in a nested request on the same connection
			ctx, cancel := context.WithTimeout(context.Background(), 10*time.Second)
			b, err := get(ctx, "/"+strings.ReplaceAll(id, ":", "/"))
			cancel()
			if err != nil || string(b) != "ok:"+id {
				e.mu.Lock()
				e.nestErr = append(e.nestErr, fmt.Sprintf("%s: %q %v", id, b, err))
				e.mu.Unlock()
			}
		}
		respond(codes.Changed, []byte("done:"+id))
	}
	switch kind {
	case "udp":
		s := sim.NewMemSession()
		var cc *udpclient.Conn
		cc = sim.NewUDPConn(s, sim.UDPOpts{
			Mutate: func(cfg *udpclient.Config) {
				cfg.ReceivedMessageQueueSize = queue
				cfg.RequestMonitor = func(_ *udpclient.Conn, r *pool.Message) (bool, error) {
					return e.dropDeletes.Load() && r.Code() == codes.DELETE, nil
				}
				cfg.GetMID = func() int32 { return int32((ownStart + 0xffff/2) & 0xffff) }
				cfg.ProcessReceivedMessage = func(req *pool.Message, c *udpclient.Conn, h config.HandlerFunc[*udpclient.Conn]) {
					e.mu.Lock()
					e.processed[req.Sequence()]++
					e.mu.Unlock()
					c.ProcessReceivedMessageWithHandler(req, h)
				}
			},
			Handler: func(w *responsewriter.ResponseWriter[*udpclient.Conn], r *pool.Message) {
				body, _ := r.ReadBody()
				logic(r.Code(), body, e.get, func(code codes.Code, p []byte) { _ = w.SetResponse(code, message.TextPlain, bytes.NewReader(p)) })
			},
		})
		e.inject = func(m ref.Msg) { _ = cc.Process(nil, ref.EncodeUDP(m)) }
		e.injectAll = func(ms []ref.Msg) {
			for _, m := range ms {
				_ = cc.Process(nil, ref.EncodeUDP(m))
			}
		}
		e.sent = func() []ref.Msg {
			var out []ref.Msg
			for _, d := range s.Log() {
				if m, err := ref.ParseUDP(d.Data); err == nil {
					out = append(out, m)
				}
			}
			return out
		}
		e.get = func(ctx context.Context, path string) ([]byte, error) {
			if e.nonGets.Load() {
				req, err := cc.NewGetRequest(ctx, path)
				if err != nil {
					return nil, err
				}
				defer cc.ReleaseMessage(req)
				req.SetType(message.NonConfirmable)
				resp, err := cc.Do(req)
				if err != nil {
					return nil, err
				}
				defer cc.ReleaseMessage(resp)
				return resp.ReadBody()
			}
			resp, err := cc.Get(ctx, path)
			if err != nil {
				return nil, err
			}
			defer cc.ReleaseMessage(resp)
			return resp.ReadBody()
		}
		e.ping = func(ctx context.Context) error { return cc.Ping(ctx) }
		e.observeOnce = func(ctx context.Context, path string) error {
			o, err := cc.Observe(ctx, path, func(*pool.Message) {})
			if err != nil {
				return err
			}
			return o.Cancel(ctx)
		}
		e.observe = func(ctx context.Context, path string, cb func(body string)) (func(context.Context) error, error) {
			o, err := cc.Observe(ctx, path, func(m *pool.Message) { b, _ := m.ReadBody(); cb(string(b)) })
			if err != nil {
				return nil, err
			}
			return func(c context.Context) error { return o.Cancel(c) }, nil
		}
		e.writeCon = func(ctx context.Context, path string) error {
			req := cc.AcquireMessage(ctx)
			defer cc.ReleaseMessage(req)
			tok, _ := message.GetToken()
			if err := req.SetupPost(path, tok, message.TextPlain, bytes.NewReader([]byte("w"))); err != nil {
				return err
			}
			req.SetType(message.Confirmable)
			return cc.WriteMessage(req)
		}
		e.closef = func() { _ = cc.Close() }
	case "tcp":
		sc := sim.NewScriptConn()
		var cc *tcpclient.Conn
		cc, err := sim.NewTCPConn(sc, sim.TCPOpts{
			Mutate: func(cfg *tcpclient.Config) {
				cfg.ReceivedMessageQueueSize = queue
				cfg.RequestMonitor = func(_ *tcpclient.Conn, r *pool.Message) (bool, error) {
					return e.dropDeletes.Load() && r.Code() == codes.DELETE, nil
				}
				cfg.ProcessReceivedMessage = func(req *pool.Message, c *tcpclient.Conn, h config.HandlerFunc[*tcpclient.Conn]) {
					e.mu.Lock()
					e.processed[req.Sequence()]++
					e.mu.Unlock()
					c.ProcessReceivedMessageWithHandler(req, h)
				}
			},
			Handler: func(w *responsewriter.ResponseWriter[*tcpclient.Conn], r *pool.Message) {
				body, _ := r.ReadBody()
				logic(r.Code(), body, e.get, func(code codes.Code, p []byte) { _ = w.SetResponse(code, message.TextPlain, bytes.NewReader(p)) })
			},
		})
		if err != nil {
			panic(err)
		}
		e.inject = func(m ref.Msg) { sc.Feed(ref.EncodeTCP(m)) }
		e.injectAll = func(ms []ref.Msg) {
			var b []byte
			for _, m := range ms {
				b = append(b, ref.EncodeTCP(m)...)
			}
			sc.Feed(b) // one segment: everything arrives with one read
		}
		e.sent = func() []ref.Msg { ms, _ := ref.ParseTCPStream(sc.Written()); return ms }
		e.get = func(ctx context.Context, path string) ([]byte, error) {
			resp, err := cc.Get(ctx, path)
			if err != nil {
				return nil, err
			}
			defer cc.ReleaseMessage(resp)
			return resp.ReadBody()
		}
		e.ping = func(ctx context.Context) error { return cc.Ping(ctx) }
		e.observeOnce = func(ctx context.Context, path string) error {
			o, err := cc.Observe(ctx, path, func(*pool.Message) {})
			if err != nil {
				return err
			}
			return o.Cancel(ctx)
		}
		e.observe = func(ctx context.Context, path string, cb func(body string)) (func(context.Context) error, error) {
			o, err := cc.Observe(ctx, path, func(m *pool.Message) { b, _ := m.ReadBody(); cb(string(b)) })
			if err != nil {
				return nil, err
			}
			return func(c context.Context) error { return o.Cancel(c) }, nil
		}
		e.writeCon = func(ctx context.Context, path string) error {
			req := cc.AcquireMessage(ctx)
			defer cc.ReleaseMessage(req)
			tok, _ := message.GetToken()
			if err := req.SetupPost(path, tok, message.TextPlain, bytes.NewReader([]byte("w"))); err != nil {
				return err
			}
			return cc.WriteMessage(req)
		}
		e.closef = func() { _ = cc.Close() }
	}
	return e
}

func (e *env) nextMID() uint16 { return uint16(e.mid.Add(1)) }

// request builds a POST whose payload is the unique id.
func (e *env) request(id string, con bool) ref.Msg {
	typ := uint8(1)
	if con {
		typ = 0
	}
	mid := e.nextMID()
	return ref.Msg{Type: typ, Code: 2, MID: mid, Token: []byte{byte(mid >> 8), byte(mid), 0x11}, Opts: []ref.Opt{{ID: 11, Val: []byte("in")}}, Payload: []byte(id)}
}

func pathOf(m ref.Msg) string {
	p := ""
	for _, o := range m.Opts {
		if o.ID == 11 {
			p += "/" + string(o.Val)
		}
	}
	return p
}

// peer answers the connection's own GET requests: GET /nest/k for k>1 first sends the
// request "nest:k-1" to the connection and answers only when that one was answered; other
// GETs are answered at once. It returns when stop is closed.
type peer struct {
	e        *env
	seen     int
	pending  map[int]ref.Msg // k -> GET /nest/k waiting
	answered atomic.Int64
	dupOf    func(k int) int // number of duplicates of request nest:k to inject while its handler waits
	reqs     map[int]ref.Msg
	nonOuter bool
	separate bool
}

func (p *peer) step() bool {
	msgs := p.e.sent()
	progressed := false
	for ; p.seen < len(msgs); p.seen++ {
		progressed = true
		m := msgs[p.seen]
		switch {
		case p.e.kind == "tcp" && m.Code == 7<<5|2: // ping signal from the connection under test
			p.e.inject(ref.Msg{Code: 7<<5 | 3, Token: m.Token})
		case p.e.kind == "udp" && m.Type == 0 && m.Code == 0: // empty confirmable = ping, answered with a reset
			p.e.inject(ref.Msg{Type: 3, Code: 0, MID: m.MID})
		case m.Code == 1 && strings.HasPrefix(pathOf(m), "/obsnest/"):
			// observe registration (Observe=0: answered with an Observe option) / deregistration (Observe=1) of a handler
			var opts []ref.Opt
			if v, has := m.GetUint(6); has && v == 0 {
				opts = []ref.Opt{{ID: 6, Val: ref.Uint(2)}}
			}
			p.answered.Add(1)
			if p.e.kind == "udp" {
				p.e.inject(ref.Msg{Type: 2, Code: 0x45, MID: m.MID, Token: m.Token, Opts: opts, Payload: []byte("o")})
			} else {
				p.e.inject(ref.Msg{Code: 0x45, Token: m.Token, Opts: opts, Payload: []byte("o")})
			}
		case m.Code == 2 && strings.HasPrefix(pathOf(m), "/wcon/"):
			// one-way confirmable POST of a handler: acknowledged (datagram transport), nothing else
			if p.e.kind == "udp" && m.Type == 0 {
				p.e.inject(ref.Msg{Type: 2, Code: 0, MID: m.MID})
			}
		case m.Code == 1: // GET from the connection under test
			path := pathOf(m)
			var k int
			if n, _ := fmt.Sscanf(path, "/nest/%d", &k); n == 1 {
				if p.dupOf != nil {
					// duplicates of the request whose handler is now waiting (datagram retransmissions)
					if orig, ok := p.reqs[k]; ok {
						for i := 0; i < p.dupOf(k); i++ {
							p.e.inject(orig)
						}
					}
				}
				if k > 1 {
					p.pending[k] = m
					r := p.e.request(fmt.Sprintf("nest:%d", k-1), !p.nonOuter)
					p.reqs[k-1] = r
					p.e.inject(r)
					continue
				}
				p.respond(m, "ok:nest:1")
				continue
			}
			p.respond(m, "ok"+strings.ReplaceAll(path, "/", ":"))
		case m.Code>>5 == 2 && bytes.HasPrefix(m.Payload, []byte("done:nest:")):
			var k int
			fmt.Sscanf(string(m.Payload), "done:nest:%d", &k)
			if g, ok := p.pending[k+1]; ok {
				delete(p.pending, k+1)
				p.respond(g, fmt.Sprintf("ok:nest:%d", k+1))
			}
		}
	}
	return progressed
}

func (p *peer) respond(get ref.Msg, body string) {
	p.answered.Add(1)
	if p.e.kind == "udp" && get.Type == 1 {
		// a Non-confirmable request is answered with a Non-confirmable response under a message ID of the peer's own
		p.e.inject(ref.Msg{Type: 1, Code: 0x45, MID: uint16(50000 + p.e.peerMID.Add(1)), Token: get.Token, Payload: []byte(body)})
	} else if p.e.kind == "udp" && p.separate {
		p.e.inject(ref.Msg{Type: 2, Code: 0, MID: get.MID})
		p.e.inject(ref.Msg{Type: 0, Code: 0x45, MID: uint16(50000 + p.e.peerMID.Add(1)), Token: get.Token, Payload: []byte(body)})
	} else if p.e.kind == "udp" {
		p.e.inject(ref.Msg{Type: 2, Code: 0x45, MID: get.MID, Token: get.Token, Payload: []byte(body)})
	} else {
		p.e.inject(ref.Msg{Code: 0x45, Token: get.Token, Payload: []byte(body)})
	}
}

func (p *peer) run(stop chan struct{}) {
	for {
		select {
		case <-stop:
			return
		default:
		}
		if !p.step() {
			time.Sleep(30 * time.Microsecond)
		}
	}
}

type ccase struct {
	Workload  string `json:"workload"`
	Kind      string `json:"transport"`
	Queue     int    `json:"queue_size"`
	N         int    `json:"messages"`
	Depth     int    `json:"nesting_depth,omitempty"`
	Dups      int    `json:"duplicates_during_handler,omitempty"`
	Clients   int    `json:"external_callers,omitempty"`
	OwnMID    bool   `json:"request_mid_equals_own_mid,omitempty"`
	NonGets   bool   `json:"own_requests_non_confirmable,omitempty"`
	PingFirst bool   `json:"handlers_ping_the_peer_first,omitempty"`
	FirstOp   string `json:"handlers_first_blocking_operation,omitempty"`
	// MIDEdge: the peer's first request carries message ID 65535 while the connection's own next message ID is 0
	MIDEdge bool `json:"peer_mid_65535_own_mid_0,omitempty"`
	// NonOuter: the requests whose handlers nest are non-confirmable (and duplicated like confirmable ones: RFC 7252 4.3
	// allows copies of a NON message); Separate: the peer answers confirmable requests of the connection with an empty
	// acknowledgement first and the response as a message of its own - it travels through the receive queue
	NonOuter bool `json:"nesting_requests_non_confirmable,omitempty"`
	Separate bool `json:"peer_answers_separately,omitempty"`
}

// pureServer: handlers return at once, nothing else happens: exactly once, in arrival order.
func pureServer(rec *vr.Rec, c ccase, rnd *rand.Rand) {
	e := newEnv(c.Kind, c.Queue)
	defer e.closef()
	var ids []string
	queued := 0
	for i := 0; i < c.N; i++ {
		id := fmt.Sprintf("m%d", i)
		ids = append(ids, id)
		e.inject(e.request(id, rnd.Intn(2) == 0))
		queued++
		if c.Kind == "udp" && rnd.Intn(6) == 0 {
			e.inject(ref.Msg{Type: 0, Code: 0, MID: e.nextMID()}) // ping: answered inline
		}
		if c.Kind == "udp" && rnd.Intn(6) == 0 {
			e.inject(ref.Msg{Type: 2, Code: 0, MID: e.nextMID()}) // stray empty ACK: dropped inline
		}
		if c.Kind == "tcp" && rnd.Intn(6) == 0 {
			e.inject(ref.Msg{Code: 7<<5 | 2, Token: []byte{1}}) // ping signal: handled inline
		}
	}
	ok := sim.WaitFor(30*time.Second, func() bool { e.mu.Lock(); defer e.mu.Unlock(); return len(e.entered) >= c.N })
	time.Sleep(300 * time.Microsecond)
	e.mu.Lock()
	defer e.mu.Unlock()
	if !ok {
		rec.Violation("C11/pure-server/message-dropped", fmt.Sprintf("%d of %d requests reached the handler while the connection stayed open", len(e.entered), c.N), c)
		return
	}
	for id, n := range e.runs {
		if n != 1 {
			rec.Violation("C11/pure-server/processed-twice", fmt.Sprintf("request %s handled %d times", id, n), c)
			return
		}
	}
	for seq, n := range e.processed {
		if n != 1 {
			rec.Violation("C11/pure-server/processed-twice", fmt.Sprintf("sequence %d processed %d times", seq, n), c)
			return
		}
	}
	// the tcp connection ignores the ProcessReceivedMessage option (handler logs decide there)
	if c.Kind == "udp" && len(e.processed) != queued {
		rec.Violation("C11/pure-server/processing-count", fmt.Sprintf("%d messages queued, %d processed", queued, len(e.processed)), c)
		return
	}
	for i, id := range ids {
		if e.entered[i] != id {
			rec.Violation("C11/pure-server/out-of-order", fmt.Sprintf("position %d: handler saw %s, arrival order has %s", i, e.entered[i], id), c)
			return
		}
	}
	rec.Count("messages_processed_in_order", int64(c.N))
}

// callbackNested: an observe callback is application code like a handler: it may issue a blocking request on the same
// connection. While it waits, the peer - which cannot know - sends the next notification of that very observation and only
// then the awaited response. The nested request must get its response, and no notification reaches the callback twice.
func callbackNested(rec *vr.Rec, kind string, queue int, extra int) {
	e := newEnv(kind, queue)
	defer e.closef()
	c := map[string]any{"scenario": "observe callback issues a nested request; further notifications of the same observation arrive before its response", "transport": kind, "queue": queue, "notifications_before_the_response": extra}
	var mu sync.Mutex
	var seen []string
	var nestedErr error
	nestedDone := make(chan struct{})
	var once sync.Once
	regDone := make(chan error, 1)
	var cancelObs func(context.Context) error
	go func() {
		ctx, cancel := context.WithTimeout(context.Background(), 10*time.Second)
		defer cancel()
		co, err := e.observe(ctx, "/cbobs", func(body string) {
			mu.Lock()
			seen = append(seen, body)
			first := len(seen) == 1
			mu.Unlock()
			if first {
				nctx, nc := context.WithTimeout(context.Background(), 8*time.Second)
				_, err := e.get(nctx, "/cbnested")
				nc()
				mu.Lock()
				nestedErr = err
				mu.Unlock()
				once.Do(func() { close(nestedDone) })
			}
		})
		cancelObs = co
		regDone <- err
	}()
	find := func(pred func(m ref.Msg) bool) (ref.Msg, bool) {
		var out ref.Msg
		ok := sim.WaitFor(8*time.Second, func() bool {
			for _, m := range e.sent() {
				if pred(m) {
					out = m
					return true
				}
			}
			return false
		})
		return out, ok
	}
	reg, ok := find(func(m ref.Msg) bool { _, has := m.GetUint(6); return m.Code == 1 && has })
	if !ok {
		rec.Inconclusive("callback nested: registration request not seen")
		return
	}
	typ := uint8(2)
	e.inject(ref.Msg{Type: typ, Code: 0x45, MID: reg.MID, Token: reg.Token, Opts: []ref.Opt{{ID: 6, Val: ref.Uint(10)}}, Payload: []byte("n0")})
	nreq, ok := find(func(m ref.Msg) bool { return m.Code == 1 && pathOf(m) == "/cbnested" })
	if !ok {
		rec.Inconclusive("callback nested: nested request not seen")
		return
	}
	want := []string{"n0"}
	for k := 1; k <= extra; k++ {
		e.inject(ref.Msg{Type: 1, Code: 0x45, MID: e.nextMID(), Token: reg.Token, Opts: []ref.Opt{{ID: 6, Val: ref.Uint(uint32(10 + k))}}, Payload: []byte(fmt.Sprintf("n%d", k))})
		want = append(want, fmt.Sprintf("n%d", k))
	}
	e.inject(ref.Msg{Type: typ, Code: 0x45, MID: nreq.MID, Token: nreq.Token, Payload: []byte("nested-ok")})
	rec.Count("callback_nested_cases_"+kind, 1)
	select {
	case <-nestedDone:
	case <-time.After(9 * time.Second):
	}
	mu.Lock()
	nerr := nestedErr
	mu.Unlock()
	select {
	case <-nestedDone:
		if nerr != nil {
			rec.Violation("C11/"+kind+"/observe-callback/nested-request-failed", fmt.Sprintf("the request issued from the observe callback: %v (its response was delivered to the connection behind %d notification(s) of the same observation)", nerr, extra), c)
			return
		}
	default:
		rec.Violation("C11/"+kind+"/observe-callback/nested-request-stalled", "the request issued from the observe callback had not returned after 9 s", c)
		return
	}
	sim.WaitFor(3*time.Second, func() bool { mu.Lock(); defer mu.Unlock(); return len(seen) >= len(want) })
	time.Sleep(300 * time.Microsecond)
	mu.Lock()
	got := append([]string(nil), seen...)
	mu.Unlock()
	cnt := map[string]int{}
	for _, g := range got {
		cnt[g]++
	}
	// (while the callback waits, two receive goroutines may be at work, so the notifications behind it can be handled in
	// either order and the observation's freshness rule may then, correctly, suppress the overtaken one: what is demanded is
	// "never twice", not "each one")
	for _, w := range want {
		if cnt[w] > 1 {
			rec.Violation("C11/"+kind+"/observe-callback/notification-delivered-twice", fmt.Sprintf("notification %s reached the callback %d times (callback saw %v, peer sent %v)", w, cnt[w], got, want), c)
			return
		}
	}
	rec.Count("callback_nested_requests_answered", 1)
	select {
	case <-regDone:
	case <-time.After(3 * time.Second):
	}
	if cancelObs != nil {
		go func() {
			cctx, cc := context.WithTimeout(context.Background(), 200*time.Millisecond)
			_ = cancelObs(cctx)
			cc()
		}()
	}
}

// refusedThenPipelined: a message the request monitor refuses is the monitor's business; the messages that arrived with it
// - on a stream, in the same segment, behind it - were accepted from the network and must each reach the handler once,
// in order, without the peer having to send anything more.
func refusedThenPipelined(rec *vr.Rec, kind string, queue int, rnd *rand.Rand) {
	e := newEnv(kind, queue)
	defer e.closef()
	e.dropDeletes.Store(true)
	var ms []ref.Msg
	var ids []string
	n := 3 + rnd.Intn(10)
	refused := 0
	for i := 0; i < n; i++ {
		if rnd.Intn(3) == 0 || i == 1 {
			d := e.request(fmt.Sprintf("refused%d", i), rnd.Intn(2) == 0)
			d.Code = 4 // DELETE
			ms = append(ms, d)
			refused++
			continue
		}
		id := fmt.Sprintf("p%d", i)
		ids = append(ids, id)
		ms = append(ms, e.request(id, rnd.Intn(2) == 0))
	}
	c := map[string]any{"scenario": "request monitor refuses some messages of one burst", "transport": kind, "messages": n, "refused": refused, "queue": queue}
	e.injectAll(ms)
	ok := sim.WaitFor(8*time.Second, func() bool { e.mu.Lock(); defer e.mu.Unlock(); return len(e.entered) >= len(ids) })
	time.Sleep(300 * time.Microsecond)
	e.mu.Lock()
	defer e.mu.Unlock()
	rec.Count("bursts_with_refused_messages_"+kind, 1)
	if !ok {
		rec.Violation("C11/"+kind+"/refused-message/later-messages-not-dispatched", fmt.Sprintf("%d of the %d accepted requests of the burst reached the handler within 8 s; the peer sends nothing more (handler saw %v)", len(e.entered), len(ids), e.entered), c)
		return
	}
	for i, id := range ids {
		if i >= len(e.entered) || e.entered[i] != id {
			rec.Violation("C11/"+kind+"/refused-message/out-of-order", fmt.Sprintf("handler saw %v, accepted arrival order %v", e.entered, ids), c)
			return
		}
	}
	for id, k := range e.runs {
		if k != 1 || strings.HasPrefix(id, "refused") {
			rec.Violation("C11/"+kind+"/refused-message/processed-twice-or-refused-one-processed", fmt.Sprintf("request %s handled %d times", id, k), c)
			return
		}
	}
	rec.Count("messages_behind_a_refused_one_processed", int64(len(ids)))
}

// nested: requests whose handlers block in nested requests to depth d, external callers,
// duplicates queued behind a waiting handler.
func nested(rec *vr.Rec, c ccase, rnd *rand.Rand) {
	ownStart := 30000
	if c.MIDEdge {
		ownStart = 65535
	}
	e := newEnv(c.Kind, c.Queue, ownStart)
	defer e.closef()
	if c.MIDEdge {
		e.mid.Store(65534)
	}
	e.nonGets.Store(c.NonGets)
	e.pingFirst.Store(c.PingFirst)
	e.firstOp.Store(c.FirstOp)
	if c.OwnMID {
		e.mid.Store(30000) // the first injected request gets MID 30001 = the connection's first own MID
	}
	p := &peer{e: e, pending: map[int]ref.Msg{}, reqs: map[int]ref.Msg{}, nonOuter: c.NonOuter, separate: c.Separate}
	if c.Dups > 0 && c.Kind == "udp" {
		p.dupOf = func(int) int { return c.Dups }
	}
	stop := make(chan struct{})
	var pwg sync.WaitGroup
	pwg.Add(1)
	go func() { defer pwg.Done(); p.run(stop) }()
	defer func() { close(stop); pwg.Wait() }()

	// external callers on the same connection
	var cwg sync.WaitGroup
	var callErr atomic.Int64
	for g := 0; g < c.Clients; g++ {
		cwg.Add(1)
		go func(g int) {
			defer cwg.Done()
			for i := 0; i < 5; i++ {
				ctx, cancel := context.WithTimeout(context.Background(), 10*time.Second)
				b, err := e.get(ctx, fmt.Sprintf("/ext/%d/%d", g, i))
				cancel()
				if err != nil || string(b) != fmt.Sprintf("ok:ext:%d:%d", g, i) {
					callErr.Add(1)
				}
			}
		}(g)
	}
	total := 0
	// (a confirmable request whose message ID is close to the connection's own counter makes the connection move its counter
	// away; the coincidences under test need a non-confirmable outer request)
	first := e.request(fmt.Sprintf("nest:%d", c.Depth), c.Kind != "udp" || !(c.OwnMID || c.MIDEdge || c.NonOuter))
	p.reqs[c.Depth] = first
	e.inject(first)
	total++
	for i := 0; i < c.N; i++ {
		e.inject(e.request(fmt.Sprintf("plain%d", i), rnd.Intn(2) == 0))
		total++
	}
	want := c.Depth + c.N
	done := func() bool {
		e.mu.Lock()
		defer e.mu.Unlock()
		n := 0
		for _, m := range e.sent() {
			if m.Code>>5 == 2 && bytes.HasPrefix(m.Payload, []byte("done:")) {
				n++
			}
		}
		return n >= want+dupReplies(c) && len(e.runs) >= want
	}
	okDone := sim.WaitFor(15*time.Second, done)
	cw := make(chan struct{})
	go func() { cwg.Wait(); close(cw) }()
	if okDone {
		select {
		case <-cw:
		case <-time.After(15 * time.Second):
			okDone = false
		}
	}
	if !okDone {
		// second stage (logical, not wall-clock): stop the peer, let it answer whatever is still
		// unanswered, and look at what the blocked calls are waiting for. If every request the
		// connection emitted has been answered and nothing is pending at the peer, the calls
		// have all their inputs and still do not return.
		close(stop)
		peerStopped := make(chan struct{})
		go func() { pwg.Wait(); close(peerStopped) }()
		select {
		case <-peerStopped:
		case <-time.After(5 * time.Second):
			// the peer is blocked inside Conn.Process: nobody consumes the receive queue
			what := "receive-queue-not-consumed"
			if c.Dups > 0 {
				what = "nested-request-stalled-behind-duplicates"
			}
			e.mu.Lock()
			rec.Violation("C11/"+c.Kind+"/"+what, fmt.Sprintf("delivery of a message to the connection blocks: the receive queue is not being consumed while handlers wait in nested requests; handlers run: %v", e.runs), c)
			e.mu.Unlock()
			e.closef()
			<-peerStopped
			stop = make(chan struct{})
			return
		}
		stop = make(chan struct{})
		for i := 0; i < 50; i++ {
			p.step()
			time.Sleep(20 * time.Millisecond)
			if done() {
				break
			}
		}
		gets := 0
		for _, m := range e.sent() {
			if m.Code == 1 {
				gets++
			}
		}
		if !done() && int(p.answered.Load()) == gets && len(p.pending) == 0 {
			what := "nested-request-stalled"
			if c.Dups > 0 {
				what = "nested-request-stalled-behind-duplicates"
			}
			if c.OwnMID {
				what = "nested-request-stalled-own-mid"
			}
			e.mu.Lock()
			rec.Violation("C11/"+c.Kind+"/"+what, fmt.Sprintf("all %d requests emitted by the connection were answered and delivered, nothing is pending at the peer, but the blocking calls did not complete within the watchdog; handlers run: %v", gets, e.runs), c)
			e.mu.Unlock()
		} else if !done() {
			rec.Inconclusive("nested workload did not finish within the watchdog but inputs are still outstanding")
		}
		return
	}
	time.Sleep(300 * time.Microsecond)
	e.mu.Lock()
	defer e.mu.Unlock()
	if len(e.nestErr) > 0 || callErr.Load() > 0 {
		rec.Violation("C11/"+c.Kind+"/nested-request-failed", fmt.Sprintf("nested errors %v, external call errors %d", e.nestErr, callErr.Load()), c)
		return
	}
	for id, n := range e.runs {
		if n != 1 {
			rec.Violation("C11/"+c.Kind+"/processed-twice", fmt.Sprintf("request %s handled %d times", id, n), c)
			return
		}
	}
	for seq, n := range e.processed {
		if n != 1 {
			rec.Violation("C11/"+c.Kind+"/processed-twice", fmt.Sprintf("sequence %d processed %d times", seq, n), c)
			return
		}
	}
	rec.Count("nested_requests_completed", int64(c.Depth))
	rec.Count("external_calls_completed", int64(c.Clients*5))
}

func dupReplies(c ccase) int {
	if c.Kind != "udp" {
		return 0
	}
	return c.Dups * c.Depth
}

func TestRun(t *testing.T) {
	rec := vr.New("C11", "workloads on real udp (in-memory session) and tcp (scripted net.Conn) connections with receive-queue sizes 0, 1, 16: pure-server (50..300 uniquely tagged requests plus inline pings/stray ACKs, handlers return at once; exactly-once and arrival order), nested (handler chains blocking in nested GETs to depth 1..4, 0..20 plain requests, 0..4 external callers issuing 5 requests each; with 0..3 duplicates of the waiting handler's own request injected while it waits, and with request MID == the connection's own first MID, and with the connection's own (nested) requests Non-confirmable, and with handlers whose first blocking operation is a ping, an observe registration + cancellation, or a confirmable one-way write); reader-loop hook points inject PRNG yields. Distinct = distinct workload tuples.")
	defer rec.Flush(true)
	seed := vr.Seed()
	var hookHits atomic.Int64
	hrnd := rand.New(rand.NewSource(seed))
	var hmu sync.Mutex
	verifhook.Set(func(name string) {
		if !strings.HasPrefix(name, "reader.") {
			return
		}
		hookHits.Add(1)
		hmu.Lock()
		x := hrnd.Intn(8)
		hmu.Unlock()
		switch x {
		case 0:
			runtime.Gosched()
		case 1:
			time.Sleep(time.Duration(1+x) * 10 * time.Microsecond)
		}
	})
	defer verifhook.Set(nil)

	var cases []ccase
	rnd := rand.New(rand.NewSource(seed * 11))
	for _, kind := range []string{"udp", "tcp"} {
		for _, q := range []int{0, 1, 16} {
			for rep := 0; rep < vr.Scale(4, 100); rep++ {
				cases = append(cases, ccase{Workload: "pure-server", Kind: kind, Queue: q, N: 50 + rnd.Intn(251)})
			}
			for depth := 1; depth <= 4; depth++ {
				for rep := 0; rep < vr.Scale(3, 60); rep++ {
					cases = append(cases, ccase{Workload: "nested", Kind: kind, Queue: q, Depth: depth, N: rnd.Intn(21), Clients: rnd.Intn(5)})
				}
				for rep := 0; rep < vr.Scale(2, 30); rep++ {
					cases = append(cases, ccase{Workload: "nested", Kind: kind, Queue: q, Depth: depth, N: rnd.Intn(8), Clients: rnd.Intn(3), PingFirst: true})
				}
				for _, op := range []string{"observe", "write-con"} {
					for rep := 0; rep < vr.Scale(1, 20); rep++ {
						cases = append(cases, ccase{Workload: "nested", Kind: kind, Queue: q, Depth: depth, N: rnd.Intn(8), Clients: rnd.Intn(3), FirstOp: op})
					}
				}
				if kind == "udp" {
					for dups := 1; dups <= 3; dups++ {
						cases = append(cases, ccase{Workload: "nested", Kind: kind, Queue: q, Depth: depth, N: rnd.Intn(5), Dups: dups, Clients: rnd.Intn(2)})
						cases = append(cases, ccase{Workload: "nested", Kind: kind, Queue: q, Depth: depth, N: rnd.Intn(5), Dups: dups, NonOuter: dups != 2, Separate: true})
					}
					cases = append(cases, ccase{Workload: "nested", Kind: kind, Queue: q, Depth: depth, N: rnd.Intn(5), Dups: 2, NonOuter: true, NonGets: true})
					cases = append(cases, ccase{Workload: "nested", Kind: kind, Queue: q, Depth: depth, N: rnd.Intn(5), OwnMID: true})
					cases = append(cases, ccase{Workload: "nested", Kind: kind, Queue: q, Depth: depth, N: rnd.Intn(5), MIDEdge: true})
					cases = append(cases, ccase{Workload: "nested", Kind: kind, Queue: q, Depth: depth, N: rnd.Intn(5), MIDEdge: true, NonGets: true})
					for rep := 0; rep < vr.Scale(2, 30); rep++ {
						cases = append(cases, ccase{Workload: "nested", Kind: kind, Queue: q, Depth: depth, N: rnd.Intn(21), Clients: rnd.Intn(3), NonGets: true})
					}
				}
			}
		}
	}
	var wg sync.WaitGroup
	var next atomic.Int64
	for w := 0; w < 8; w++ {
		wg.Add(1)
		go func(w int) {
			defer wg.Done()
			r := rand.New(rand.NewSource(seed*13 + int64(w)))
			for {
				i := int(next.Add(1)) - 1
				if i >= len(cases) {
					return
				}
				// every stalled case costs its full watchdogs: a handful of witnesses is enough
				if rec.NViolations() > 3 {
					rec.Count("cases_skipped_after_violations", 1)
					continue
				}
				c := cases[i]
				tc := time.Now()
				if c.Workload == "pure-server" {
					pureServer(rec, c, r)
				} else {
					nested(rec, c, r)
				}
				if d := time.Since(tc); d > 5*time.Second {
					rec.Note(fmt.Sprintf("slow case %v: %+v", d.Round(time.Second), c))
				}
				rec.Eval(fmt.Sprintf("%+v", c))
				rec.Count("cases_"+c.Workload+"_"+c.Kind, 1)
				if i < 2 || i == len(cases)-1 {
					rec.Sample(c)
				}
			}
		}(w)
	}
	wg.Wait()
	rr := rand.New(rand.NewSource(seed*29 + 5))
	for i := 0; i < vr.Scale(40, 600) && rec.NViolations() <= 3; i++ {
		kind := []string{"tcp", "udp"}[i%2]
		refusedThenPipelined(rec, kind, []int{1, 2, 16}[i%3], rr)
		rec.Eval(fmt.Sprintf("refused-burst|%s|%d", kind, i))
	}
	for i := 0; i < vr.Scale(24, 300) && rec.NViolations() <= 3; i++ {
		kind := []string{"tcp", "udp"}[i%2]
		callbackNested(rec, kind, []int{1, 2, 16}[i%3], 1+i%4)
		rec.Eval(fmt.Sprintf("callback-nested|%s|%d", kind, i))
	}
	if rec.NViolations() <= 3 {
		uploadsWhileNesting(rec, vr.Scale(12, 240))
	}
	rec.Count("reader_hook_point_hits", hookHits.Load())
	rec.Assume("arrival order is asserted only in pure-server workloads (no client call runs on the connection, so the reader loop is never replaced)")
	rec.Assume("liveness is bounded progress: after the peer has delivered every awaited response, all blocking calls must return within a 15 s watchdog; a firing watchdog is a violation only if a goroutine is parked in doInternal/waitForAcknowledge, otherwise inconclusive")
}
