package c08

import (
	"context"
	"fmt"
	"sync"
	"time"

	"verifharness/ref"
	"verifharness/sim"
	"verifharness/vr"
)

// blockwiseRestart: a notification arrives block-wise; while the client fetches its remaining blocks a fresher, small
// notification overtakes it, and the representation changes under the transfer (ETag change, so the client starts the
// body over). Whatever the client makes of the restarted transfer, the callback sees the resource move forward only:
// every delivery carries the sequence number its notification was sent with, and no delivery is older than the last one.
func blockwiseRestart(rec *vr.Rec, reps int) {
	for rep := 0; rep < reps; rep++ {
		kind := "udp"
		c := map[string]any{"scenario": "block-wise notification overtaken by a fresher one, ETag changes mid-transfer", "transport": kind, "etag_changes": rep%2 == 0}
		e := newEnv(kind, true)
		type dl struct {
			seq    uint32
			hasSeq bool
			body   string
		}
		var mu sync.Mutex
		var log []dl
		done := make(chan error, 1)
		go func() {
			ctx, cancel := context.WithTimeout(context.Background(), 30*time.Second)
			defer cancel()
			_, err := e.observe(ctx, "/bw", func(tok []byte, seq uint32, hasSeq bool, body string) {
				mu.Lock()
				log = append(log, dl{seq, hasSeq, body})
				mu.Unlock()
			})
			done <- err
		}()
		reg, ok := e.waitRequest(0, 1)
		if !ok {
			rec.Inconclusive("blockwise-restart: registration not seen")
			e.closef()
			continue
		}
		obsTok := reg.Token
		e.reply(reg, 0x45, []ref.Opt{{ID: 6, Val: ref.Uint(1)}}, "v1")
		if err := <-done; err != nil {
			rec.Inconclusive("blockwise-restart: registration failed: " + err.Error())
			e.closef()
			continue
		}
		etagOld, etagNew := []byte("old1"), []byte("new2")
		if rep%2 == 1 {
			etagNew = etagOld // control: the representation does not change
		}
		oldBody := "0123456789abcdefOLD-TAIL"
		newBody := "ABCDEFGHIJKLMNOPQRST"
		if rep%2 == 1 {
			newBody = oldBody
		}
		blk := func(body string, num int) (string, bool) {
			lo := num * 16
			if lo > len(body) {
				lo = len(body)
			}
			hi := lo + 16
			if hi >= len(body) {
				return body[lo:], false
			}
			return body[lo:hi], true
		}
		bopt := func(num int, more bool) ref.Opt {
			v := uint32(num << 4) // szx 0 = 16 bytes
			if more {
				v |= 8
			}
			return ref.Opt{ID: 23, Val: ref.Uint(v)}
		}
		// block 0 of notification 10
		p0, _ := blk(oldBody, 0)
		e.inject(ref.Msg{Type: 1, Code: 0x45, MID: e.nextMID(), Token: obsTok, Opts: []ref.Opt{{ID: 4, Val: etagOld}, {ID: 6, Val: ref.Uint(10)}, bopt(0, true)}, Payload: []byte(p0)})
		// the client asks for block 1
		seen := 0
		nextBlockReq := func() (ref.Msg, bool) {
			var got ref.Msg
			ok := sim.WaitFor(5*time.Second, func() bool {
				ms := e.sent()
				for ; seen < len(ms); seen++ {
					m := ms[seen]
					if _, has := m.GetUint(23); m.Code == 1 && has {
						if _, obs := m.GetUint(6); !obs {
							got = m
							seen++
							return true
						}
					}
				}
				return false
			})
			return got, ok
		}
		r1, ok := nextBlockReq()
		if !ok {
			rec.Inconclusive("blockwise-restart: the client did not ask for the next block")
			e.closef()
			continue
		}
		// meanwhile a fresher small notification arrives and is delivered
		e.inject(ref.Msg{Type: 1, Code: 0x45, MID: e.nextMID(), Token: obsTok, Opts: []ref.Opt{{ID: 4, Val: etagNew}, {ID: 6, Val: ref.Uint(11)}}, Payload: []byte("v11")})
		if !e.sync() {
			rec.Inconclusive("blockwise-restart: sync")
			e.closef()
			continue
		}
		// the peer now serves every block request from the new representation until the client stops asking
		req := r1
		for steps := 0; steps < 20; steps++ {
			v, _ := req.GetUint(23)
			num := int(v >> 4)
			pl, more := blk(newBody, num)
			e.inject(ref.Msg{Type: 2, Code: 0x45, MID: req.MID, Token: req.Token, Opts: []ref.Opt{{ID: 4, Val: etagNew}, bopt(num, more)}, Payload: []byte(pl)})
			var okn bool
			sim.WaitFor(30*time.Millisecond, func() bool {
				ms := e.sent()
				for ; seen < len(ms); seen++ {
					m := ms[seen]
					if _, has := m.GetUint(23); m.Code == 1 && has {
						if _, obs := m.GetUint(6); !obs {
							req, okn = m, true
							seen++
							return true
						}
					}
				}
				return false
			})
			if !okn {
				break
			}
		}
		if !e.sync() {
			rec.Inconclusive("blockwise-restart: sync 2")
			e.closef()
			continue
		}
		e.inject(ref.Msg{Type: 1, Code: 0x45, MID: e.nextMID(), Token: obsTok, Opts: []ref.Opt{{ID: 4, Val: etagNew}, {ID: 6, Val: ref.Uint(12)}}, Payload: []byte("v12")})
		if !e.sync() {
			rec.Inconclusive("blockwise-restart: sync 3")
			e.closef()
			continue
		}
		rec.Eval(fmt.Sprintf("bw-restart|%d", rep))
		rec.Count("blockwise_notification_restart_cases", 1)
		mu.Lock()
		last := uint32(0)
		for i, d := range log {
			if !d.hasSeq {
				rec.Violation("C08/"+kind+"/blockwise/delivery-without-sequence-number", fmt.Sprintf("delivery %d (body %q) reached the callback without an Observe value although every notification was sent with one: its freshness was not judged; deliveries so far %v", i, d.body, log), c)
				break
			}
			if i > 0 && !fresher(last, d.seq, 0) {
				rec.Violation("C08/"+kind+"/blockwise/stale-notification-delivered", fmt.Sprintf("delivery %d has sequence number %d after %d: %v", i, d.seq, last, log), c)
				break
			}
			last = d.seq
		}
		if len(log) > 0 && log[len(log)-1].seq != 12 {
			rec.Violation("C08/"+kind+"/blockwise/fresh-notification-suppressed", fmt.Sprintf("the last notification (12) was not delivered: %v", log), c)
		}
		mu.Unlock()
		e.closef()
	}
}

var _ = vr.Seed
