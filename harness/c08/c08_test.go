// C08 — observers only ever see a resource move forward in time.
//
// Monitor: a reference RFC 7641 §3.4 freshness model is replayed over the injected
// notification stream and compared with the callback log (sequence number, payload tag,
// token) on real udp and tcp connections; registration codes, simultaneous observations
// and cancel at every position are covered; the exported predicate is compared with an
// independently written formula on the full boundary grid (the only place where the 128 s
// clause can be decided without a wall clock).
package c08

import (
	"context"
	"fmt"
	"math/rand"
	"strings"
	"sync"
	"sync/atomic"
	"testing"
	"time"

	"github.com/plgd-dev/go-coap/v3/message"
	"github.com/plgd-dev/go-coap/v3/message/pool"
	"github.com/plgd-dev/go-coap/v3/net/observation"
	"github.com/plgd-dev/go-coap/v3/net/responsewriter"
	tcpclient "github.com/plgd-dev/go-coap/v3/tcp/client"
	udpclient "github.com/plgd-dev/go-coap/v3/udp/client"

	"verifharness/ref"
	"verifharness/sim"
	"verifharness/vr"
)

// RFC 7641 §3.4 (V1 = last delivered, V2 = incoming, 24-bit serial arithmetic, 128 s)
func fresher(v1, v2 uint32, gap time.Duration) bool {
	return (v1 < v2 && v2-v1 < 1<<23) || (v1 > v2 && v1-v2 > 1<<23) || gap > 128*time.Second
}

type obsHandle interface {
	Cancel(ctx context.Context, opts ...message.Option) error
}

type env struct {
	kind    string
	inject  func(m ref.Msg)
	sent    func() []ref.Msg
	observe func(ctx context.Context, path string, cb func(tok []byte, seq uint32, hasSeq bool, body string)) (obsHandle, error)
	closef  func()
	get     func(ctx context.Context, path string) error
	mid     atomic.Uint32
	tokens  sync.Map // path -> caller-chosen token

	mu      sync.Mutex
	dflt    []string // payload tags that reached the default handler
	sentinl int
}

func newEnv(kind string, blockwise bool) *env {
	e := &env{kind: kind}
	e.mid.Store(200)
	onDefault := func(body []byte) {
		e.mu.Lock()
		if string(body) == "sentinel" {
			e.sentinl++
		} else {
			e.dflt = append(e.dflt, string(body))
		}
		e.mu.Unlock()
	}
	adapt := func(cb func(tok []byte, seq uint32, hasSeq bool, body string)) func(*pool.Message) {
		return func(n *pool.Message) {
			b, _ := n.ReadBody()
			seq, err := n.Observe()
			cb(n.Token(), seq, err == nil, string(b))
		}
	}
	switch kind {
	case "udp":
		s := sim.NewMemSession()
		cc := sim.NewUDPConn(s, sim.UDPOpts{Blockwise: blockwise, SZX: 6,
			Mutate: func(cfg *udpclient.Config) {
				cfg.GetMID = func() int32 { return int32((30000 + 0xffff/2) & 0xffff) }
			},
			Handler: func(w *responsewriter.ResponseWriter[*udpclient.Conn], r *pool.Message) {
				b, _ := r.ReadBody()
				onDefault(b)
			}})
		e.inject = func(m ref.Msg) { _ = cc.Process(nil, ref.EncodeUDP(m)) }
		e.sent = func() []ref.Msg {
			var out []ref.Msg
			for _, d := range s.Log() {
				if m, err := ref.ParseUDP(d.Data); err == nil {
					out = append(out, m)
				}
			}
			return out
		}
		e.observe = func(ctx context.Context, path string, cb func([]byte, uint32, bool, string)) (obsHandle, error) {
			if tok := e.chosenToken(path); tok != nil {
				// caller-chosen token: what Observe does, with the token replaced
				req, err := cc.NewObserveRequest(ctx, path)
				if err != nil {
					return nil, err
				}
				defer cc.ReleaseMessage(req)
				req.SetToken(tok)
				o, err := cc.DoObserve(req, adapt(cb))
				if err != nil {
					return nil, err
				}
				return o, nil
			}
			o, err := cc.Observe(ctx, path, adapt(cb))
			if err != nil {
				return nil, err
			}
			return o, nil
		}
		e.get = func(ctx context.Context, path string) error {
			m, err := cc.Get(ctx, path)
			if err == nil {
				cc.ReleaseMessage(m)
			}
			return err
		}
		e.closef = func() { _ = cc.Close() }
	case "tcp":
		sc := sim.NewScriptConn()
		cc, err := sim.NewTCPConn(sc, sim.TCPOpts{Handler: func(w *responsewriter.ResponseWriter[*tcpclient.Conn], r *pool.Message) {
			b, _ := r.ReadBody()
			onDefault(b)
		}})
		if err != nil {
			panic(err)
		}
		e.inject = func(m ref.Msg) { sc.Feed(ref.EncodeTCP(m)) }
		e.sent = func() []ref.Msg { ms, _ := ref.ParseTCPStream(sc.Written()); return ms }
		e.observe = func(ctx context.Context, path string, cb func([]byte, uint32, bool, string)) (obsHandle, error) {
			if tok := e.chosenToken(path); tok != nil {
				// caller-chosen token: what Observe does, with the token replaced
				req, err := cc.NewObserveRequest(ctx, path)
				if err != nil {
					return nil, err
				}
				defer cc.ReleaseMessage(req)
				req.SetToken(tok)
				o, err := cc.DoObserve(req, adapt(cb))
				if err != nil {
					return nil, err
				}
				return o, nil
			}
			o, err := cc.Observe(ctx, path, adapt(cb))
			if err != nil {
				return nil, err
			}
			return o, nil
		}
		e.get = func(ctx context.Context, path string) error {
			m, err := cc.Get(ctx, path)
			if err == nil {
				cc.ReleaseMessage(m)
			}
			return err
		}
		e.closef = func() { _ = cc.Close() }
	}
	return e
}

// chosenToken returns the caller-chosen token registered for path (nil: let the library generate one).
func (e *env) chosenToken(path string) []byte {
	if v, ok := e.tokens.Load(path); ok {
		return v.([]byte)
	}
	return nil
}

func (e *env) nextMID() uint16 { return uint16(e.mid.Add(1)) }

// sync: everything injected so far has been processed (FIFO receive queue, callbacks run in
// the reader loop) once a sentinel sent afterwards reached the default handler.
func (e *env) sync() bool {
	e.mu.Lock()
	want := e.sentinl + 1
	e.mu.Unlock()
	e.inject(ref.Msg{Type: 1, Code: 2, MID: e.nextMID(), Token: []byte{0x5e, 0x17}, Payload: []byte("sentinel")})
	return sim.WaitFor(20*time.Second, func() bool { e.mu.Lock(); defer e.mu.Unlock(); return e.sentinl >= want })
}

func (e *env) notification(tok []byte, seq uint32, hasSeq bool, tag string, con bool) ref.Msg {
	m := ref.Msg{Type: 1, Code: 0x45, MID: e.nextMID(), Token: tok, Payload: []byte(tag)}
	if con {
		m.Type = 0
	}
	if hasSeq {
		m.Opts = []ref.Opt{{ID: 6, Val: ref.Uint(seq)}}
	}
	return m
}

// waitRequest waits for the n-th GET with the given observe value emitted by the connection.
func (e *env) waitRequest(obsVal uint32, n int) (ref.Msg, bool) {
	var got ref.Msg
	ok := sim.WaitFor(20*time.Second, func() bool {
		k := 0
		for _, m := range e.sent() {
			if m.Code == 1 {
				if v, has := m.GetUint(6); has && v == obsVal {
					k++
					if k == n {
						got = m
						return true
					}
				}
			}
		}
		return false
	})
	return got, ok
}

func (e *env) reply(req ref.Msg, code uint8, opts []ref.Opt, body string) {
	m := ref.Msg{Type: 2, Code: code, MID: req.MID, Token: req.Token, Opts: opts, Payload: []byte(body)}
	e.inject(m)
}

type note struct {
	Seq    uint32 `json:"seq"`
	HasSeq bool   `json:"has_seq"`
}

type ocase struct {
	Kind      string `json:"transport"`
	Blockwise bool   `json:"blockwise"`
	First     note   `json:"first_response"`
	Stream    []note `json:"notifications"`
	CancelAt  int    `json:"cancel_after,omitempty"` // -1: never
	InCb      bool   `json:"cancel_inside_callback,omitempty"`
	NObs      int    `json:"observations"`
	// CancelReply: what the peer does with the deregistration GET: "" = 2.05, "refused" = 4.04, "silent" = nothing
	// (the Cancel call then ends with its context). Whatever Cancel returns, nothing is delivered after it returned.
	CancelReply string `json:"cancel_reply,omitempty"`
	// TokenFamily: caller-chosen tokens that differ only in their length (i zero bytes followed by 0x01), and the empty-ish
	// neighbours 0x00 / 0x00 0x00: each registration still gets notifications for its own token only
	TokenFamily bool `json:"tokens_differ_in_length_only,omitempty"`
}

type cbEvent struct {
	tok    string
	seq    uint32
	hasSeq bool
	tag    string
}

// runStream: NObs observations receive the same notification stream interleaved.
func runStream(rec *vr.Rec, c ocase) {
	e := newEnv(c.Kind, c.Blockwise)
	defer e.closef()
	type obsState struct {
		tok    []byte
		h      obsHandle
		log    []cbEvent
		cancel atomic.Bool // set when Cancel has returned
		late   int         // callbacks after cancel returned
		model  struct {
			have bool
			last uint32
		}
		want []cbEvent
	}
	var mu sync.Mutex
	obs := make([]*obsState, c.NObs)
	start := time.Now()
	for i := range obs {
		o := &obsState{}
		obs[i] = o
		done := make(chan error, 1)
		idx := i
		if c.TokenFamily {
			tok := make([]byte, 1+i/2)
			if i%2 == 0 {
				tok[len(tok)-1] = 1 // 01, 00 01, 00 00 01, ...
			} // odd: 00, 00 00, ... (all zero)
			e.tokens.Store(fmt.Sprintf("/obs/%d", idx), tok)
		}
		go func() {
			ctx, cancel := context.WithTimeout(context.Background(), 30*time.Second)
			defer cancel()
			h, err := e.observe(ctx, fmt.Sprintf("/obs/%d", idx), func(tok []byte, seq uint32, hasSeq bool, body string) {
				mu.Lock()
				o.log = append(o.log, cbEvent{string(tok), seq, hasSeq, body})
				if o.cancel.Load() {
					o.late++
				}
				cancelNow := c.InCb && c.CancelAt >= 0 && len(o.log) == c.CancelAt+1 && o.h != nil
				h := o.h
				mu.Unlock()
				if cancelNow {
					cctx, cc := context.WithTimeout(context.Background(), 20*time.Second)
					_ = h.Cancel(cctx)
					cc()
					o.cancel.Store(true)
				}
			})
			mu.Lock()
			o.h = h
			mu.Unlock()
			done <- err
		}()
		var req ref.Msg
		var early error
		returnedEarly := false
		ok := sim.WaitFor(20*time.Second, func() bool {
			select {
			case early = <-done:
				returnedEarly = true
				return true
			default:
			}
			k := 0
			for _, m := range e.sent() {
				if v, has := m.GetUint(6); m.Code == 1 && has && v == 0 {
					k++
					if k == i+1 {
						req = m
						return true
					}
				}
			}
			return false
		})
		if returnedEarly {
			// the call returned before its registration request was even transmitted: nothing can have refused it but the
			// connection itself (e.g. its token taken for another observation's)
			rec.Violation("C08/"+c.Kind+"/registration-refused-locally", fmt.Sprintf("observation %d (token %x): Observe returned %v before any request was sent, while the other registrations use different tokens", i, e.chosenToken(fmt.Sprintf("/obs/%d", idx)), early), c)
			return
		}
		if !ok {
			rec.Inconclusive("observe request not seen")
			return
		}
		o.tok = req.Token
		var opts []ref.Opt
		if c.First.HasSeq {
			opts = []ref.Opt{{ID: 6, Val: ref.Uint(c.First.Seq)}}
		}
		e.reply(req, 0x45, opts, fmt.Sprintf("o%d-first", i))
		if err := <-done; err != nil {
			rec.Violation("C08/"+c.Kind+"/registration-failed-on-2.05", err.Error(), c)
			return
		}
		// Observe returns as soon as the first response was RECOGNISED; its callback runs right after that on the
		// connection's receive goroutine - and the next call on the connection (the next registration, a request) starts
		// a second receive goroutine if the first is still busy. What is injected from here on must not overtake the
		// first response's callback, or the arrival order the connection sees is not the one the model assumes.
		if !firstCallbackMissed.Load() {
			if !sim.WaitFor(5*time.Second, func() bool { mu.Lock(); defer mu.Unlock(); return len(o.log) >= 1 }) {
				firstCallbackMissed.Store(true)
			}
		}
		// model: the first response is delivered
		o.want = append(o.want, cbEvent{string(o.tok), c.First.Seq, c.First.HasSeq, fmt.Sprintf("o%d-first", i)})
		if c.First.HasSeq {
			o.model.have, o.model.last = true, c.First.Seq
		}
	}
	// a peer that answers cancellation requests (GET with Observe=1)
	stop := make(chan struct{})
	var pwg sync.WaitGroup
	pwg.Add(1)
	go func() {
		defer pwg.Done()
		seen := 0
		for {
			select {
			case <-stop:
				return
			default:
			}
			msgs := e.sent()
			for ; seen < len(msgs); seen++ {
				m := msgs[seen]
				if v, has := m.GetUint(6); m.Code == 1 && has && v == 1 {
					switch c.CancelReply {
					case "refused":
						e.reply(m, 0x84, nil, "")
					case "silent":
					default:
						e.reply(m, 0x45, nil, "cancelled")
					}
				}
			}
			time.Sleep(50 * time.Microsecond)
		}
	}()
	defer func() { close(stop); pwg.Wait() }()

	notSupported := !c.First.HasSeq // registration answered without Observe: observation is removed
	for p, n := range c.Stream {
		if c.CancelAt == p && !c.InCb {
			if !e.sync() {
				rec.Inconclusive("sync before cancel")
				return
			}
			for _, o := range obs {
				cto := 20 * time.Second
				if c.CancelReply == "silent" {
					cto = 40 * time.Millisecond
				}
				ctx, cancel := context.WithTimeout(context.Background(), cto)
				err := o.h.Cancel(ctx)
				cancel()
				if err != nil && c.CancelReply == "" {
					rec.Violation("C08/"+c.Kind+"/cancel-failed", err.Error(), c)
					return
				}
				if c.CancelReply != "" {
					rec.Count("cancel_with_failing_deregistration_"+c.CancelReply, 1)
					if err != nil {
						rec.Count("cancel_returned_error", 1)
					}
				}
				o.cancel.Store(true)
			}
		}
		for i, o := range obs {
			tag := fmt.Sprintf("o%d-n%d", i, p)
			e.inject(e.notification(o.tok, n.Seq, n.HasSeq, tag, (p+i)%3 == 0))
			cancelled := c.CancelAt >= 0 && ((!c.InCb && p >= c.CancelAt) || (c.InCb && len(o.want) > c.CancelAt))
			if notSupported || cancelled {
				continue // must not reach the callback
			}
			switch {
			case !n.HasSeq:
				o.want = append(o.want, cbEvent{string(o.tok), 0, false, tag})
			case !o.model.have:
				o.want = append(o.want, cbEvent{string(o.tok), n.Seq, true, tag})
				o.model.have, o.model.last = true, n.Seq
			case fresher(o.model.last, n.Seq, 0):
				o.want = append(o.want, cbEvent{string(o.tok), n.Seq, true, tag})
				o.model.last = n.Seq
			}
		}
	}
	if c.TokenFamily {
		// notifications under tokens nobody registered, differing from registered ones in length only
		for k, tok := range [][]byte{{0, 0, 0, 0, 0, 1}, {0, 0, 0, 0, 0, 0, 0}, {0, 0, 0, 0, 0, 0, 0, 1}} {
			e.inject(e.notification(tok, uint32(100+k), true, fmt.Sprintf("unregistered-token-%d", k), k%2 == 0))
		}
	}
	if !e.sync() {
		rec.Inconclusive("final sync")
		return
	}
	elapsed := time.Since(start)
	mu.Lock()
	defer mu.Unlock()
	for i, o := range obs {
		rec.Count("notifications_injected", int64(len(c.Stream)))
		rec.Count("callbacks_observed", int64(len(o.log)))
		if o.late > 0 {
			rec.Violation("C08/"+c.Kind+"/callback-after-cancel", fmt.Sprintf("observation %d: %d callbacks after Cancel had returned", i, o.late), c)
			return
		}
		for _, ev := range o.log {
			if ev.tok != string(o.tok) || !strings.HasPrefix(ev.tag, fmt.Sprintf("o%d-", i)) {
				rec.Violation("C08/"+c.Kind+"/foreign-notification", fmt.Sprintf("observation %d (token %x) received %q with token %x", i, o.tok, ev.tag, ev.tok), c)
				return
			}
		}
		if elapsed > 100*time.Second {
			rec.Inconclusive("run took longer than 100 s: the 128 s clause could have fired")
			return
		}
		if len(o.log) != len(o.want) {
			kind := "stale-notification-delivered"
			if len(o.log) < len(o.want) {
				kind = "fresh-notification-suppressed"
			}
			rec.Violation("C08/"+c.Kind+"/"+kind, fmt.Sprintf("observation %d: callback saw %v, reference model accepts %v", i, seqs(o.log), seqs(o.want)), c)
			return
		}
		for k := range o.want {
			if o.log[k] != o.want[k] {
				rec.Violation("C08/"+c.Kind+"/wrong-notification-delivered", fmt.Sprintf("observation %d position %d: %+v, model %+v", i, k, o.log[k], o.want[k]), c)
				return
			}
		}
	}
}

var firstCallbackMissed atomic.Bool

// busyCallback: the callback of notification N is still busy - it has issued a request of its own on the connection and
// waits for the answer - when older or equal notifications arrive (a reordered predecessor, a duplicate of N itself).
// N was delivered, so it is "the last one delivered" from the moment its callback was invoked: none of them may reach
// the callback. (A newer one may, before or after N's callback returns: two receive goroutines are at work.)
func busyCallback(rec *vr.Rec, kind string, rep int) {
	e := newEnv(kind, false)
	defer e.closef()
	base := uint32(20 + rep*7)
	c := map[string]any{"scenario": "stale and duplicate notifications arrive while the callback of the newest one is still running (it waits for a request of its own)", "transport": kind, "first": base, "busy_at": base + 2}
	var mu sync.Mutex
	var log []uint32
	busyStarted := false
	var afterBusy []uint32
	nested := make(chan error, 1)
	regDone := make(chan error, 1)
	go func() {
		ctx, cancel := context.WithTimeout(context.Background(), 10*time.Second)
		defer cancel()
		_, err := e.observe(ctx, "/busy", func(tok []byte, seq uint32, hasSeq bool, body string) {
			mu.Lock()
			log = append(log, seq)
			if busyStarted {
				afterBusy = append(afterBusy, seq)
			}
			start := seq == base+2 && !busyStarted
			if start {
				busyStarted = true
			}
			mu.Unlock()
			if start {
				gctx, gc := context.WithTimeout(context.Background(), 8*time.Second)
				nested <- e.get(gctx, "/busy-nested")
				gc()
			}
		})
		regDone <- err
	}()
	req, ok := e.waitRequest(0, 1)
	if !ok {
		rec.Inconclusive("busy callback: registration request not seen")
		return
	}
	e.reply(req, 0x45, []ref.Opt{{ID: 6, Val: ref.Uint(base)}}, "first")
	if err := <-regDone; err != nil {
		rec.Inconclusive("busy callback: registration failed: " + err.Error())
		return
	}
	sim.WaitFor(5*time.Second, func() bool { mu.Lock(); defer mu.Unlock(); return len(log) >= 1 })
	e.inject(e.notification(req.Token, base+2, true, "n2", rep%2 == 0))
	var nreq ref.Msg
	if !sim.WaitFor(8*time.Second, func() bool {
		for _, m := range e.sent() {
			if m.Code == 1 && ref.PathOf(m) == "/busy-nested" {
				nreq = m
				return true
			}
		}
		return false
	}) {
		rec.Inconclusive("busy callback: nested request not seen")
		return
	}
	// while the callback of base+2 waits: its reordered predecessor, a duplicate of itself, an older one, then a newer one
	e.inject(e.notification(req.Token, base+1, true, "n1-late", false))
	e.inject(e.notification(req.Token, base+2, true, "n2-duplicate", rep%3 == 0))
	e.inject(e.notification(req.Token, base, true, "n0-again", false))
	e.inject(e.notification(req.Token, base+3, true, "n3", false))
	e.sync()
	e.reply(nreq, 0x45, nil, "nested-ok")
	select {
	case <-nested:
	case <-time.After(9 * time.Second):
	}
	e.sync()
	mu.Lock()
	defer mu.Unlock()
	rec.Count("busy_callback_cases_"+kind, 1)
	for _, sq := range afterBusy {
		if sq <= base+2 {
			rec.Violation("C08/"+kind+"/stale-notification-delivered-while-callback-busy", fmt.Sprintf("notification %d had been handed to the callback (which was still running, waiting for a request of its own) when notification %d arrived: it reached the callback too (callback saw %v)", base+2, sq, log), c)
			return
		}
	}
	rec.Count("notifications_refused_while_callback_busy", 3)
}

func seqs(l []cbEvent) string {
	var sb strings.Builder
	for _, e := range l {
		if e.hasSeq {
			fmt.Fprintf(&sb, "%d ", e.seq)
		} else {
			sb.WriteString("- ")
		}
	}
	return sb.String()
}

// registration: success only on 2.05 / 2.03; after a failed registration nothing reaches the callback.
func registration(rec *vr.Rec, kind string, code uint8) {
	if code == 0 || (kind == "tcp" && code >= 7<<5|1 && code <= 7<<5|5) {
		return
	}
	c := map[string]any{"transport": kind, "first_response_code": fmt.Sprintf("%d.%02d", code>>5, code&31)}
	e := newEnv(kind, false)
	defer e.closef()
	var calls atomic.Int32
	done := make(chan error, 1)
	go func() {
		ctx, cancel := context.WithTimeout(context.Background(), 30*time.Second)
		defer cancel()
		_, err := e.observe(ctx, "/reg", func([]byte, uint32, bool, string) { calls.Add(1) })
		done <- err
	}()
	req, ok := e.waitRequest(0, 1)
	if !ok {
		rec.Inconclusive("observe request not seen")
		return
	}
	e.reply(req, code, []ref.Opt{{ID: 6, Val: ref.Uint(5)}}, "first")
	err := <-done
	okCode := code == 0x45 || code == 0x43
	rec.Count("registration_codes_checked", 1)
	if okCode != (err == nil) {
		rec.Violation("C08/"+kind+"/registration-code", fmt.Sprintf("first response %d.%02d: Observe returned err=%v", code>>5, code&31, err), c)
		return
	}
	// the first response itself may be handed to the callback slightly after Observe returned
	if !e.sync() {
		rec.Inconclusive("sync")
		return
	}
	before := calls.Load()
	if err != nil {
		for i := 0; i < 3; i++ {
			e.inject(e.notification(req.Token, uint32(10+i), true, "late", false))
		}
		if !e.sync() {
			rec.Inconclusive("sync")
			return
		}
		if calls.Load() != before {
			rec.Violation("C08/"+kind+"/callback-after-failed-registration", fmt.Sprintf("%d callbacks", calls.Load()-before), c)
		}
	}
}

// failedRegistration: the registration fails for a reason other than the response code (the
// request context ends while the request waits for its acknowledgement, or after the empty ACK
// while waiting for the response); the peer answers late and keeps notifying: nothing may reach
// the callback.
func failedRegistration(rec *vr.Rec, kind, variant string) {
	c := map[string]any{"transport": kind, "registration_fails_by": variant}
	e := newEnv(kind, false)
	defer e.closef()
	var calls atomic.Int32
	done := make(chan error, 1)
	go func() {
		ctx, cancel := context.WithTimeout(context.Background(), 40*time.Millisecond)
		defer cancel()
		_, err := e.observe(ctx, "/late", func([]byte, uint32, bool, string) { calls.Add(1) })
		done <- err
	}()
	req, ok := e.waitRequest(0, 1)
	if !ok {
		rec.Inconclusive("observe request not seen")
		return
	}
	if variant == "deadline-after-empty-ack" && kind == "udp" {
		e.inject(ref.Msg{Type: 2, Code: 0, MID: req.MID})
	}
	err := <-done
	rec.Eval("failed-registration|" + kind + "|" + variant)
	rec.Count("failed_registration_cases", 1)
	if err == nil {
		rec.Violation("C08/"+kind+"/registration-succeeded-without-answer", "", c)
		return
	}
	// late answer and further notifications for the same token
	if kind == "udp" && variant == "deadline-before-ack" {
		e.reply(req, 0x45, []ref.Opt{{ID: 6, Val: ref.Uint(2)}}, "late-first")
	} else {
		e.inject(e.notification(req.Token, 2, true, "late-first", false))
	}
	for i := 0; i < 4; i++ {
		e.inject(e.notification(req.Token, uint32(3+i), true, "late", i%2 == 0))
	}
	if !e.sync() {
		rec.Inconclusive("sync")
		return
	}
	if n := calls.Load(); n != 0 {
		rec.Violation("C08/"+kind+"/callback-after-failed-registration", fmt.Sprintf("registration failed (%s: %v) but %d later messages with its token reached the callback", variant, err, n), c)
	}
}

func perms(a []uint32, visit func([]uint32)) {
	var rec func(k int)
	rec = func(k int) {
		if k == len(a) {
			visit(append([]uint32(nil), a...))
			return
		}
		for i := k; i < len(a); i++ {
			a[k], a[i] = a[i], a[k]
			rec(k + 1)
			a[k], a[i] = a[i], a[k]
		}
	}
	rec(0)
}

func TestRun(t *testing.T) {
	rec := vr.New("C08", "(1) exported freshness predicate vs an independently written RFC 7641 §3.4 formula on the grid v in {0,1,2^23-1,2^23,2^23+1,2^24-2,2^24-1} +/- 2 (pairs) x gaps {0, 127.999 s, 128 s, 128.001 s, 1 h}; (2) notification streams on real udp/tcp connections: all permutations of <= 5 (quick) / 7 (thorough) distinct sequence numbers with a duplicate inserted, windows around 0 / 2^23 / 2^24-1, notifications without Observe, PRNG streams of 200, 1..16 simultaneous observations, cancel after every position from outside and from inside the callback, block-wise on/off; (3) first-response codes 1..255. Distinct = distinct (transport, stream, cancel position, observations).")
	defer rec.Flush(true)
	seed := vr.Seed()

	// ---- (1) predicate grid
	base := []int64{0, 1, 1<<23 - 1, 1 << 23, 1<<23 + 1, 1<<24 - 2, 1<<24 - 1}
	var vals []uint32
	seen := map[uint32]bool{}
	for _, b := range base {
		for d := int64(-2); d <= 2; d++ {
			v := b + d
			if v >= 0 && v < 1<<24 && !seen[uint32(v)] {
				seen[uint32(v)] = true
				vals = append(vals, uint32(v))
			}
		}
	}
	gaps := []time.Duration{0, 127999 * time.Millisecond, 128 * time.Second, 128001 * time.Millisecond, time.Hour}
	now := time.Now()
	for _, v1 := range vals {
		for _, v2 := range vals {
			for _, g := range gaps {
				got := observation.ValidSequenceNumber(v1, v2, now.Add(-g), now)
				want := fresher(v1, v2, g)
				rec.Eval(fmt.Sprintf("pred|%d|%d|%v", v1, v2, g))
				if got != want {
					rec.Violation("C08/predicate", fmt.Sprintf("ValidSequenceNumber(last=%d, new=%d, gap=%v) = %v, RFC 7641 3.4 says %v", v1, v2, g, got, want), nil)
				}
			}
		}
	}
	rec.Count("predicate_grid_points", int64(len(vals)*len(vals)*len(gaps)))

	// ---- (2) streams
	var cases []ocase
	rnd := rand.New(rand.NewSource(seed))
	kinds := []string{"udp", "tcp"}
	windows := [][]uint32{{1, 2, 3, 4, 5, 6, 7}, {1<<24 - 3, 1<<24 - 2, 1<<24 - 1, 0, 1, 2, 3}, {1<<23 - 2, 1<<23 - 1, 1 << 23, 1<<23 + 1, 1<<23 + 2, 1<<23 + 3, 1<<23 + 4}, {5, 1<<23 + 4, 1<<23 + 5, 1<<23 + 6, 1<<24 - 1, 3, 4}}
	np := vr.Scale(4, 6)
	ci := 0
	for wi, w := range windows {
		perms(append([]uint32(nil), w[1:1+np]...), func(p []uint32) {
			ci++
			if !vr.Thorough() && wi > 0 && ci%3 != 0 {
				return // quick tier: every third permutation of the later windows
			}
			var st []note
			for _, v := range p {
				st = append(st, note{v, true})
			}
			// duplicate one element and add one notification without Observe
			d := ci % len(st)
			st = append(st[:d+1], append([]note{st[d]}, st[d+1:]...)...)
			if ci%5 == 0 {
				st = append(st, note{0, false})
			}
			cases = append(cases, ocase{Kind: kinds[ci%2], Blockwise: ci%4 < 2, First: note{w[0], true}, Stream: st, CancelAt: -1, NObs: 1})
		})
	}
	// cancel at every position, outside and inside the callback
	for _, kind := range kinds {
		st := []note{{2, true}, {3, true}, {3, true}, {5, true}, {4, true}, {9, true}, {10, true}}
		for pos := 0; pos <= len(st); pos++ {
			cases = append(cases, ocase{Kind: kind, First: note{1, true}, Stream: st, CancelAt: pos, NObs: 1 + pos%3})
		}
		for pos := 0; pos <= len(st); pos += 2 {
			for _, cr := range []string{"refused", "silent"} {
				cases = append(cases, ocase{Kind: kind, First: note{1, true}, Stream: st, CancelAt: pos, NObs: 1 + pos%2, CancelReply: cr})
			}
		}
		for pos := 1; pos <= 5; pos++ { // position 0 is the first response: the handle does not exist yet
			cases = append(cases, ocase{Kind: kind, First: note{1, true}, Stream: st, CancelAt: pos, InCb: true, NObs: 1})
		}
		// registration answered without Observe option: not an observation
		cases = append(cases, ocase{Kind: kind, First: note{0, false}, Stream: st, CancelAt: -1, NObs: 1})
	}
	// tokens that differ only in length
	for i, kind := range []string{"udp", "tcp", "udp", "tcp"} {
		st := []note{{2, true}, {3, true}, {5, true}, {4, true}, {9, true}}
		cases = append(cases, ocase{Kind: kind, First: note{1, true}, Stream: st, CancelAt: []int{-1, 3}[i/2], NObs: 4 + 2*(i/2), TokenFamily: true})
	}
	// PRNG streams, several observations
	for i := 0; i < vr.Scale(24, 600); i++ {
		n := 200
		st := make([]note, n)
		cur := uint32(rnd.Intn(1 << 24))
		for k := range st {
			switch rnd.Intn(10) {
			case 0:
				cur = uint32(rnd.Intn(1 << 24))
			case 1, 2:
				cur = (cur + 1<<24 - uint32(1+rnd.Intn(5))) % (1 << 24)
			case 3:
				// duplicate
			default:
				cur = (cur + uint32(1+rnd.Intn(3))) % (1 << 24)
			}
			st[k] = note{cur, rnd.Intn(40) != 0}
		}
		cases = append(cases, ocase{Kind: kinds[i%2], Blockwise: i%3 == 0, First: note{uint32(rnd.Intn(1 << 24)), true}, Stream: st, CancelAt: -1, NObs: []int{1, 2, 4, 16}[i%4]})
	}
	var wg sync.WaitGroup
	var next atomic.Int64
	for w := 0; w < 8; w++ {
		wg.Add(1)
		go func() {
			defer wg.Done()
			for {
				i := int(next.Add(1)) - 1
				if i >= len(cases) {
					return
				}
				if rec.NViolations() > 25 {
					continue
				}
				c := cases[i]
				runStream(rec, c)
				sig := fmt.Sprintf("%s|%v|%v|%d|%v|%d|%s|%v|", c.Kind, c.Blockwise, c.First, c.CancelAt, c.InCb, c.NObs, c.CancelReply, c.TokenFamily)
				for _, n := range c.Stream {
					sig += fmt.Sprintf("%d%v,", n.Seq, n.HasSeq)
				}
				rec.Eval(sig)
				rec.Count("stream_cases_"+c.Kind, 1)
				if i < 2 {
					rec.Sample(c)
				}
			}
		}()
	}
	wg.Wait()

	// ---- (3) registration codes
	var rwg sync.WaitGroup
	for _, kind := range kinds {
		rwg.Add(1)
		go func(kind string) {
			defer rwg.Done()
			for code := 1; code < 256; code++ {
				registration(rec, kind, uint8(code))
				rec.Eval(fmt.Sprintf("reg|%s|%d", kind, code))
			}
		}(kind)
	}
	rwg.Wait()
	for i := 0; i < vr.Scale(4, 60); i++ {
		failedRegistration(rec, "udp", "deadline-before-ack")
		failedRegistration(rec, "udp", "deadline-after-empty-ack")
		failedRegistration(rec, "tcp", "deadline-before-answer")
	}
	rec.Assume("runs are far shorter than 128 s (checked: a run above 100 s is inconclusive), so on live connections only the serial-number clauses decide; the 128 s clause is decided on the exported predicate")
	blockwiseRestart(rec, vr.Scale(6, 200))
	for i := 0; i < vr.Scale(12, 240); i++ {
		busyCallback(rec, []string{"udp", "tcp"}[i%2], i)
		rec.Eval(fmt.Sprintf("busy-callback|%d", i))
	}
	rec.Assume("a notification without an Observe option is always delivered (the library's documented behaviour for non-observe responses) and does not move the last sequence number")
}
