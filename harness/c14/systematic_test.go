package c14

import (
	"fmt"
	"math/rand"
	"strings"
	"sync/atomic"

	"github.com/anishathalye/porcupine"
	"github.com/plgd-dev/go-coap/v3/pkg/verifhook"

	"verifharness/vr"
)

// Cooperative scheduler: exactly one managed goroutine runs at a time; a goroutine parks
// at every operation boundary and at every verif hook point inside Range /
// CheckExpirations (no library lock is held there). A schedule is the sequence of
// choices among the runnable goroutines; all schedules of a program are enumerated by
// stateless depth-first search.

type parkMsg struct {
	id   int
	done bool
}

type coop struct {
	resume []chan struct{}
	parked chan parkMsg
	cur    atomic.Int64
}

type decision struct{ chosen, n int }

func (c *coop) yield() {
	id := int(c.cur.Load())
	c.parked <- parkMsg{id, false}
	<-c.resume[id]
}

// runOnce executes prog under the schedule prefix (then always the first runnable
// goroutine) and returns the history and the decision trace.
func runOnce(prog [][]input, subj subject, prefix []int, hookHits *int64) ([]porcupine.Operation, []decision) {
	g := len(prog)
	c := &coop{resume: make([]chan struct{}, g), parked: make(chan parkMsg)}
	var clock atomic.Int64
	results := make([][]porcupine.Operation, g)
	verifhook.Set(func(name string) {
		atomic.AddInt64(hookHits, 1)
		c.yield()
	})
	defer verifhook.Set(nil)
	for i := 0; i < g; i++ {
		c.resume[i] = make(chan struct{})
		go func(i int) {
			<-c.resume[i]
			for k, in := range prog[i] {
				results[i] = append(results[i], subj.exec(in, &clock, i, nil)...)
				if k < len(prog[i])-1 {
					c.parked <- parkMsg{i, false}
					<-c.resume[i]
				}
			}
			c.parked <- parkMsg{i, true}
		}(i)
	}
	finished := make([]bool, g)
	var trace []decision
	for {
		var enabled []int
		for i := 0; i < g; i++ {
			if !finished[i] {
				enabled = append(enabled, i)
			}
		}
		if len(enabled) == 0 {
			break
		}
		pick := 0
		if len(trace) < len(prefix) {
			pick = prefix[len(trace)]
			if pick >= len(enabled) {
				// Go randomises map iteration order, so a re-run may take fewer steps in
				// Range than the run the prefix was derived from; stay inside the tree.
				pick = len(enabled) - 1
			}
		}
		trace = append(trace, decision{pick, len(enabled)})
		id := enabled[pick]
		c.cur.Store(int64(id))
		c.resume[id] <- struct{}{}
		msg := <-c.parked
		if msg.done {
			finished[msg.id] = true
		}
	}
	var h []porcupine.Operation
	for i := 0; i < g; i++ {
		h = append(h, results[i]...)
	}
	h = append(h, subj.extra()...)
	for k := 0; k < nKeys; k++ {
		call := clock.Add(1)
		v := subj.finalLoad(k)
		ret := clock.Add(1)
		h = append(h, mkop(g, input{Kind: opLoad, Key: k}, output{Val: v, Ok: v != 0}, call, ret))
	}
	return h, trace
}

func progString(p [][]input) string {
	var sb strings.Builder
	for i, g := range p {
		fmt.Fprintf(&sb, "g%d:", i)
		for _, in := range g {
			name := ""
			switch in.Kind {
			case opRangeCall:
				name = "Range"
			case opSweepCall:
				name = "CheckExpirations"
			case opCacheStore:
				name = "Store(elem)"
			default:
				name = in.Kind.String()
			}
			fmt.Fprintf(&sb, " %s(k%d,%d)", name, in.Key, in.Arg)
		}
		sb.WriteString("; ")
	}
	return sb.String()
}

func systematic(rec *vr.Rec, seed int64) {
	r := rand.New(rand.NewSource(seed * 7))
	nprog := vr.Scale(120, 4000)
	maxSchedules := vr.Scale(600, 5000)
	var hookHits int64
	nextID := 0
	sysMap := []opKind{opStore, opLoadOrStore, opReplace, opDelete, opLoadAndDelete, opReplaceWithFuncDelete, opLoadAndDeleteAll, opRangeCall, opRangeCall, opCopyData, opLength}
	sysCache := []opKind{opCacheLoadOrStore, opCacheLoadOrStore, opCacheStore, opCacheLoad, opDelete, opSweepCall, opSweepCall, opRangeCall, opReplace}
	for pi := 0; pi < nprog; pi++ {
		g := 2 + r.Intn(2)
		maxOps := 2
		if g == 2 {
			maxOps = 3
		}
		isCache := pi%2 == 1
		kinds := sysMap
		name := "map"
		if isCache {
			kinds = sysCache
			name = "cache"
		}
		keys := 1 + r.Intn(nKeys)
		prog := genProgram(r, g, kinds, maxOps, keys, &nextID)
		// make the multi-step operations likely: first goroutine of every other program sweeps/ranges
		if pi%4 < 2 {
			k := opRangeCall
			if isCache {
				k = opSweepCall
			}
			prog[0][len(prog[0])-1].Kind = k
		}
		// initial content so that Range / sweep have something to visit
		var prefix []int
		schedules := 0
		for {
			var subj subject
			if isCache {
				cs := newCacheSubject()
				for k := 0; k < keys; k++ {
					cs.c.Store(k, cs.newElem(k, 1000001+2*k+2*(pi%2))) // expired class
				}
				if pi%3 == 0 {
					cs.c.Store(0, cs.newElem(0, 1000100)) // never expires
				}
				subj = cs
			} else {
				ms := newMapSubject()
				for k := 0; k < keys; k++ {
					ms.m.Store(k, 1000000+k)
				}
				subj = ms
			}
			// initial content enters the history as stores that completed before everything else
			h0 := initialOps(subj)
			h, trace := runOnce(prog, subj, prefix, &hookHits)
			for i := range h {
				h[i].Call += 10
				h[i].Return += 10
			}
			h = append(h0, h...)
			schedules++
			res := porcupine.CheckOperations(model, h)
			if !res {
				rec.Violation("C14/"+name+"/systematic/not-linearizable/"+kindsIn(h), "program "+progString(prog)+fmt.Sprintf(" schedule %v", trace), describeHistory(h))
			}
			rec.Eval(fmt.Sprintf("sys|%s|%v", progString(prog), trace))
			rec.Count("systematic_schedules_"+name, 1)
			if pi == 0 && schedules == 1 {
				rec.Sample(map[string]any{"program": progString(prog), "schedule": fmt.Sprint(trace), "history": describeHistory(h)})
			}
			// next schedule in DFS order
			i := len(trace) - 1
			for i >= 0 && trace[i].chosen+1 >= trace[i].n {
				i--
			}
			if i < 0 || schedules >= maxSchedules {
				if schedules >= maxSchedules {
					rec.Count("systematic_programs_truncated", 1)
				}
				break
			}
			prefix = prefix[:0]
			for _, d := range trace[:i] {
				prefix = append(prefix, d.chosen)
			}
			prefix = append(prefix, trace[i].chosen+1)
		}
		rec.Count("systematic_programs", 1)
	}
	rec.Count("systematic_hook_point_hits", hookHits)
}

func initialOps(subj subject) []porcupine.Operation {
	var out []porcupine.Operation
	for k := 0; k < nKeys; k++ {
		if v := subj.finalLoad(k); v != 0 {
			out = append(out, mkop(98, input{Kind: opStore, Key: k, Arg: v}, output{}, int64(1+2*k), int64(2+2*k)))
		}
	}
	return out
}
