package c14

import (
	"fmt"
	"math/rand"
	"runtime"
	"sort"
	"strings"
	"sync"
	"sync/atomic"
	"testing"
	"time"

	"github.com/anishathalye/porcupine"
	"github.com/plgd-dev/go-coap/v3/pkg/cache"
	coapSync "github.com/plgd-dev/go-coap/v3/pkg/sync"

	"verifharness/vr"
)

// program-level pseudo operations (expanded into sub-operations in the history)
const (
	opRangeCall opKind = nOpKinds + iota
	opSweepCall
	opCacheStore // Map.Store on the cache with a fresh element
)

type cdata struct{ key, id int }

// subject abstracts the two structures under test over value ids.
type subject interface {
	exec(in input, clock *atomic.Int64, client int, yield func()) []porcupine.Operation
	finalLoad(key int) int
	// extra returns sub-operations recorded asynchronously (onExpire callbacks)
	extra() []porcupine.Operation
}

func mkop(client int, in input, out output, call, ret int64) porcupine.Operation {
	return porcupine.Operation{ClientId: client, Input: in, Output: out, Call: call, Return: ret}
}

// ------------------------------------------------------------------ shared map

type mapSubject struct {
	m *coapSync.Map[int, int]
	// handed: maps returned by CopyData / LoadAndDeleteAll with what they held when they were returned. A returned map is
	// the caller's: the operation took effect at one instant, nothing that happens to the shared map afterwards may show
	// up in it (checked at the quiescent end of the history).
	hmu    sync.Mutex
	handed []handedMap
}

type handedMap struct {
	op   string
	m    map[int]int
	snap state
}

// handedChanged: operation -> number of returned maps that changed after they had been returned (and one witness)
var handedChanged sync.Map
var handedChecked atomic.Int64

func newMapSubject() *mapSubject { return &mapSubject{m: coapSync.NewMap[int, int]()} }

func (s *mapSubject) keep(op string, m map[int]int) state {
	sn := snapOf(m)
	s.hmu.Lock()
	s.handed = append(s.handed, handedMap{op, m, sn})
	s.hmu.Unlock()
	return sn
}

// unlockedCallbacks: operation name -> number of callbacks that found the map's lock free while they ran. A callback of a
// ...WithFunc operation is part of that operation's critical section ("callbacks run against the value actually in the
// map"): while it runs nobody can remove or replace the entry it was given. The probe is a TryLock on the map's own lock.
var unlockedCallbacks sync.Map

func (s *mapSubject) probe(op string) {
	if !s.m.VerifLocked() {
		v, _ := unlockedCallbacks.LoadOrStore(op, new(atomic.Int64))
		v.(*atomic.Int64).Add(1)
	}
	callbackProbes.Add(1)
}

var callbackProbes atomic.Int64

func snapOf(m map[int]int) state {
	var s state
	for k, v := range m {
		if k >= 0 && k < nKeys {
			s[k] = v
		}
	}
	return s
}

func (s *mapSubject) finalLoad(key int) int { v, _ := s.m.Load(key); return v }
func (s *mapSubject) extra() []porcupine.Operation {
	s.hmu.Lock()
	defer s.hmu.Unlock()
	for _, h := range s.handed {
		handedChecked.Add(1)
		if now := snapOf(h.m); now != h.snap {
			v, _ := handedChanged.LoadOrStore(h.op, new(atomic.Int64))
			if v.(*atomic.Int64).Add(1) == 1 {
				handedChanged.Store(h.op+"/witness", fmt.Sprintf("returned holding %v, holds %v after later operations on the shared map", h.snap, now))
			}
		}
	}
	s.handed = nil
	return nil
}

func (s *mapSubject) exec(in input, clock *atomic.Int64, client int, yield func()) []porcupine.Operation {
	var out output
	call := clock.Add(1)
	switch in.Kind {
	case opStore:
		s.m.Store(in.Key, in.Arg)
	case opLoad:
		out.Val, out.Ok = s.m.Load(in.Key)
	case opLoadOrStore:
		out.Val, out.Ok = s.m.LoadOrStore(in.Key, in.Arg)
	case opReplace:
		out.Val, out.Ok = s.m.Replace(in.Key, in.Arg)
	case opDelete:
		s.m.Delete(in.Key)
	case opLoadAndDelete:
		out.Val, out.Ok = s.m.LoadAndDelete(in.Key)
	case opLoadOrStoreWithFunc:
		out.Val, out.Ok = s.m.LoadOrStoreWithFunc(in.Key, func(v int) int { s.probe("LoadOrStoreWithFunc"); out.CbRan, out.CbVal = true, v; return v }, func() int { s.probe("LoadOrStoreWithFunc/create"); return in.Arg })
	case opReplaceWithFuncStore:
		out.Val, out.Ok = s.m.ReplaceWithFunc(in.Key, func(old int, loaded bool) (int, bool) {
			s.probe("ReplaceWithFunc")
			out.CbRan, out.CbVal, out.CbOk = true, old, loaded
			return in.Arg, false
		})
	case opReplaceWithFuncDelete:
		out.Val, out.Ok = s.m.ReplaceWithFunc(in.Key, func(old int, loaded bool) (int, bool) {
			s.probe("ReplaceWithFunc")
			out.CbRan, out.CbVal, out.CbOk = true, old, loaded
			return 0, true
		})
	case opLoadAndDeleteWithFunc:
		out.Val, out.Ok = s.m.LoadAndDeleteWithFunc(in.Key, func(v int) int { s.probe("LoadAndDeleteWithFunc"); out.CbRan, out.CbVal = true, v; return v })
	case opLoadWithFunc:
		out.Val, out.Ok = s.m.LoadWithFunc(in.Key, func(v int) int { s.probe("LoadWithFunc"); out.CbRan, out.CbVal = true, v; return v })
	case opDeleteWithFunc:
		s.m.DeleteWithFunc(in.Key, func(v int) { s.probe("DeleteWithFunc"); out.CbRan, out.CbVal = true, v })
	case opStoreWithFunc:
		s.m.StoreWithFunc(in.Key, func() int { s.probe("StoreWithFunc"); return in.Arg })
	case opCopyData:
		out.Snap = s.keep("CopyData", s.m.CopyData())
	case opLoadAndDeleteAll:
		out.Snap = s.keep("LoadAndDeleteAll", s.m.LoadAndDeleteAll())
	case opLength:
		out.N = s.m.Length()
	case opRange2:
		s.m.Range2(func(k, v int) bool { s.probe("Range2"); out.Snap[k] = v; return true })
	case opRangeCall:
		type kv struct{ k, v int }
		var seen []kv
		s.m.Range(func(k, v int) bool {
			seen = append(seen, kv{k, v})
			if yield != nil {
				yield()
			}
			return true
		})
		ret := clock.Add(1)
		ops := make([]porcupine.Operation, 0, len(seen))
		for _, p := range seen {
			ops = append(ops, mkop(client, input{Kind: opObserve, Key: p.k, Arg: p.v}, output{}, call, ret))
		}
		return ops
	default:
		panic(fmt.Sprintf("map subject: op %d", in.Kind))
	}
	ret := clock.Add(1)
	return []porcupine.Operation{mkop(client, in, out, call, ret)}
}

// ------------------------------------------------------------------ expiring cache

type cacheSubject struct {
	c    *cache.Cache[int, cdata]
	past time.Time

	mu      sync.Mutex
	clock   *atomic.Int64
	active  map[int]int64 // client -> call stamp of its running sweep
	expired []porcupine.Operation
}

func newCacheSubject() *cacheSubject {
	return &cacheSubject{c: cache.NewCache[int, cdata](), past: time.Now().Add(-time.Hour), active: map[int]int64{}}
}

func idOf(e *cache.Element[cdata]) int {
	if e == nil {
		return 0
	}
	return e.Data().id
}

func (s *cacheSubject) finalLoad(key int) int { e, _ := s.c.Map.Load(key); return idOf(e) }

func (s *cacheSubject) extra() []porcupine.Operation {
	s.mu.Lock()
	defer s.mu.Unlock()
	return append([]porcupine.Operation(nil), s.expired...)
}

// onExpire runs synchronously inside some client's CheckExpirations. It becomes the
// sub-operation "remove (key,id)" whose interval starts at the earliest call stamp of the
// sweeps running right now (a superset of the true interval, hence never a false alarm)
// and ends now.
func (s *cacheSubject) onExpire(d cdata) {
	s.mu.Lock()
	defer s.mu.Unlock()
	t := s.clock.Add(1)
	call := t
	for _, c := range s.active {
		if c < call {
			call = c
		}
	}
	s.expired = append(s.expired, mkop(99, input{Kind: opExpire, Key: d.key, Arg: d.id}, output{}, call, t))
}

func (s *cacheSubject) newElem(key, id int) *cache.Element[cdata] {
	var until time.Time // zero: never expires
	if expired(id) {
		until = s.past
	}
	return cache.NewElement(cdata{key, id}, until, s.onExpire)
}

func (s *cacheSubject) exec(in input, clock *atomic.Int64, client int, yield func()) []porcupine.Operation {
	var out output
	s.mu.Lock()
	s.clock = clock
	s.mu.Unlock()
	call := clock.Add(1)
	switch in.Kind {
	case opCacheLoadOrStore:
		e, loaded := s.c.LoadOrStore(in.Key, s.newElem(in.Key, in.Arg))
		out.Val, out.Ok = idOf(e), loaded
	case opCacheLoad:
		out.Val = idOf(s.c.Load(in.Key))
	case opCacheStore:
		s.c.Store(in.Key, s.newElem(in.Key, in.Arg))
		in.Kind = opStore
	case opLoad:
		e, ok := s.c.Map.Load(in.Key)
		out.Val, out.Ok = idOf(e), ok
	case opDelete:
		s.c.Delete(in.Key)
	case opLoadAndDelete:
		e, ok := s.c.LoadAndDelete(in.Key)
		out.Val, out.Ok = idOf(e), ok
	case opReplace:
		e, ok := s.c.Replace(in.Key, s.newElem(in.Key, in.Arg))
		out.Val, out.Ok = idOf(e), ok
	case opSweepCall:
		s.mu.Lock()
		s.active[client] = call
		s.mu.Unlock()
		s.c.CheckExpirations(time.Now())
		s.mu.Lock()
		delete(s.active, client)
		s.mu.Unlock()
		clock.Add(1)
		return nil
	case opRangeCall:
		type kv struct{ k, v int }
		var seen []kv
		s.c.Range(func(k int, e *cache.Element[cdata]) bool {
			seen = append(seen, kv{k, idOf(e)})
			return true
		})
		ret := clock.Add(1)
		ops := make([]porcupine.Operation, 0, len(seen))
		for _, p := range seen {
			ops = append(ops, mkop(client, input{Kind: opObserve, Key: p.k, Arg: p.v}, output{}, call, ret))
		}
		return ops
	default:
		panic(fmt.Sprintf("cache subject: op %d", in.Kind))
	}
	ret := clock.Add(1)
	return []porcupine.Operation{mkop(client, in, out, call, ret)}
}

// ------------------------------------------------------------------ stress arena

type arena struct {
	g       int
	gen     atomic.Int64
	done    atomic.Int64
	clock   atomic.Int64
	prog    [][]input
	subj    subject
	results [][]porcupine.Operation
	quit    atomic.Bool
}

func spinUntil(cond func() bool) {
	for i := 0; !cond(); i++ {
		if i > 2000 {
			runtime.Gosched()
		}
	}
}

func newArena(g int) *arena {
	a := &arena{g: g, prog: make([][]input, g), results: make([][]porcupine.Operation, g)}
	for w := 0; w < g; w++ {
		go func(w int) {
			seen := int64(0)
			for {
				spinUntil(func() bool { return a.gen.Load() != seen || a.quit.Load() })
				if a.quit.Load() {
					return
				}
				seen = a.gen.Load()
				res := a.results[w][:0]
				for _, in := range a.prog[w] {
					res = append(res, a.subj.exec(in, &a.clock, w, nil)...)
				}
				a.results[w] = res
				a.done.Add(1)
			}
		}(w)
	}
	return a
}

// run executes one trial and returns the complete history incl. the quiescent final loads.
func (a *arena) run(subj subject) []porcupine.Operation {
	a.subj = subj
	a.clock.Store(0)
	a.done.Store(0)
	a.gen.Add(1)
	spinUntil(func() bool { return a.done.Load() == int64(a.g) })
	var h []porcupine.Operation
	for w := 0; w < a.g; w++ {
		h = append(h, a.results[w]...)
	}
	h = append(h, subj.extra()...)
	for k := 0; k < nKeys; k++ {
		call := a.clock.Add(1)
		v := subj.finalLoad(k)
		ret := a.clock.Add(1)
		h = append(h, mkop(a.g, input{Kind: opLoad, Key: k}, output{Val: v, Ok: v != 0}, call, ret))
	}
	return h
}

func (a *arena) stop() { a.quit.Store(true) }

var mapKinds = []opKind{opStore, opLoad, opLoadOrStore, opLoadOrStore, opReplace, opDelete, opLoadAndDelete, opLoadOrStoreWithFunc, opReplaceWithFuncStore, opReplaceWithFuncDelete,
	opLoadAndDeleteWithFunc, opLoadWithFunc, opDeleteWithFunc, opStoreWithFunc, opCopyData, opLoadAndDeleteAll, opLength, opRange2, opRangeCall}
var cacheKinds = []opKind{opCacheLoadOrStore, opCacheLoadOrStore, opCacheLoadOrStore, opCacheLoad, opCacheStore, opLoad, opDelete, opLoadAndDelete, opReplace, opSweepCall, opSweepCall, opRangeCall}

func genProgram(r *rand.Rand, g int, kinds []opKind, maxOps, keys int, nextID *int) [][]input {
	p := make([][]input, g)
	for w := range p {
		n := 1 + r.Intn(maxOps)
		for i := 0; i < n; i++ {
			*nextID++
			id := *nextID*2 + r.Intn(2) // parity = expiry class for the cache model
			p[w] = append(p[w], input{Kind: kinds[r.Intn(len(kinds))], Key: r.Intn(keys), Arg: id})
		}
	}
	return p
}

func describeHistory(h []porcupine.Operation) []string {
	sort.Slice(h, func(i, j int) bool { return h[i].Call < h[j].Call })
	out := make([]string, 0, len(h))
	for _, o := range h {
		out = append(out, fmt.Sprintf("c%d [%d,%d] %s", o.ClientId, o.Call, o.Return, model.DescribeOperation(o.Input, o.Output)))
	}
	return out
}

// kindsIn classifies a failing history for the violation signature.
func kindsIn(h []porcupine.Operation) string {
	has := map[opKind]bool{}
	for _, o := range h {
		has[o.Input.(input).Kind] = true
	}
	switch {
	case has[opExpire]:
		return "with-sweep"
	case has[opCacheLoadOrStore]:
		return "with-Cache.LoadOrStore"
	case has[opLoadOrStore]:
		return "with-LoadOrStore"
	case has[opObserve]:
		return "with-Range"
	}
	return "other"
}

func checkHistory(rec *vr.Rec, name string, h []porcupine.Operation) {
	res := porcupine.CheckOperationsTimeout(model, h, 20*time.Second)
	switch res {
	case porcupine.Ok:
	case porcupine.Unknown:
		rec.Inconclusive("porcupine timeout on a " + name + " history")
	case porcupine.Illegal:
		rec.Violation("C14/"+name+"/not-linearizable/"+kindsIn(h), "history has no linearization against the sequential map", describeHistory(h))
	}
}

func TestRun(t *testing.T) {
	rec := vr.New("C14", "histories of pkg/sync.Map and pkg/cache.Cache recorded at the API boundary (call/return stamps from one atomic logical clock, unique value ids, final quiescent load of every key) and checked against a sequential map model with porcupine; Range and CheckExpirations are decomposed into per-item sub-operations. (a) systematic: cooperative scheduler at operation boundaries and at the verif hook points inside Range/CheckExpirations, all interleavings of 2-3 goroutines x 1-2 operations; (b) stress: persistent worker goroutines released by a spin barrier, 2-8 goroutines x 1-3 operations on 1-2 keys, plus dedicated store-if-absent races with a winner count. Distinct = distinct histories by (program, observed outputs) hash; non-trivial = at least two goroutines.")
	defer rec.Flush(true)
	seed := vr.Seed()

	t0 := time.Now()
	systematic(rec, seed)
	rec.Count("phase_ms_systematic", time.Since(t0).Milliseconds())
	t0 = time.Now()

	// ---- stress
	shapes := []int{2, 3, 4, 6}
	trials := vr.Scale(12000, 500000)
	var wg sync.WaitGroup
	for ai, g := range shapes {
		wg.Add(1)
		go func(ai, g int) {
			defer wg.Done()
			a := newArena(g)
			defer a.stop()
			r := rand.New(rand.NewSource(seed*101 + int64(ai)))
			nextID := 0
			for t := 0; t < trials; t++ {
				var subj subject
				name := "map"
				kinds := mapKinds
				if t%3 == 2 {
					subj = newCacheSubject()
					name = "cache"
					kinds = cacheKinds
				} else {
					subj = newMapSubject()
				}
				keys := 1 + r.Intn(nKeys)
				a.prog = genProgram(r, g, kinds, 3, keys, &nextID)
				h := a.run(subj)
				checkHistory(rec, name, h)
				var sb strings.Builder
				for _, o := range h {
					fmt.Fprintf(&sb, "%v%v|", o.Input, o.Output)
				}
				rec.Eval(sb.String())
				rec.Count("stress_histories_"+name, 1)
				rec.Count("stress_operations", int64(len(h)))
				if t == 0 && ai == 0 {
					rec.Sample(describeHistory(h))
				}
			}
		}(ai, g)
	}
	wg.Wait()

	rec.Count("phase_ms_stress", time.Since(t0).Milliseconds())
	t0 = time.Now()
	// ---- dedicated store-if-absent races (winner count)
	races := vr.Scale(40000, 800000)
	for ai, g := range []int{2, 4, 8} {
		wg.Add(1)
		go func(ai, g int) {
			defer wg.Done()
			a := newArena(g)
			defer a.stop()
			for t := 0; t < races; t++ {
				variant := t % 4
				var subj subject
				kind := opLoadOrStore
				name := "map/LoadOrStore"
				switch variant {
				case 0:
					subj = newMapSubject()
				case 1:
					subj = newMapSubject()
					kind, name = opLoadOrStoreWithFunc, "map/LoadOrStoreWithFunc"
				case 2:
					subj = newCacheSubject()
					kind, name = opCacheLoadOrStore, "cache/LoadOrStore(absent)"
				case 3:
					cs := newCacheSubject()
					cs.c.Store(0, cache.NewElement(cdata{0, 1}, cs.past, nil)) // expired entry present
					subj = cs
					kind, name = opCacheLoadOrStore, "cache/LoadOrStore(expired)"
				}
				for w := 0; w < g; w++ {
					a.prog[w] = []input{{Kind: kind, Key: 0, Arg: (w + 1) * 2}}
				}
				h := a.run(subj)
				winners, winner := 0, 0
				for _, o := range h[:len(h)-nKeys] {
					if !o.Output.(output).Ok {
						winners++
						winner = o.Output.(output).Val
					}
				}
				bad := winners != 1
				for _, o := range h[:len(h)-nKeys] {
					if o.Output.(output).Val != winner {
						bad = true
					}
				}
				if final := h[len(h)-nKeys].Output.(output).Val; final != winner {
					bad = true
				}
				if bad {
					rec.Violation("C14/"+name+"/winner-count", fmt.Sprintf("%d goroutines, %d reported having stored", g, winners), describeHistory(h))
				}
				rec.Count("store_if_absent_races", 1)
			}
			rec.EvalN(int64(races), fmt.Sprintf("race-%d", g))
		}(ai, g)
	}
	wg.Wait()
	rec.Count("phase_ms_races", time.Since(t0).Milliseconds())
	unlockedCallbacks.Range(func(k, v any) bool {
		rec.Violation("C14/map/callback-runs-outside-the-critical-section/"+k.(string), fmt.Sprintf("%d callback invocation(s) of %s found the map's lock free while they ran: a concurrent Delete/Replace/sweep of that key can complete between the look-up and the callback, which then works on a value that is no longer in the map", v.(*atomic.Int64).Load(), k), nil)
		return true
	})
	rec.Count("callback_lock_probes", callbackProbes.Load())
	handedChanged.Range(func(k, v any) bool {
		op, _ := k.(string)
		if n, ok := v.(*atomic.Int64); ok {
			w, _ := handedChanged.Load(op + "/witness")
			rec.Violation("C14/map/returned-map-changes-after-the-call/"+op, fmt.Sprintf("%d map(s) returned by %s changed after the call had returned - the result is not a copy / not the drained map but shares state with the live map (first: %v)", n.Load(), op, w), nil)
		}
		return true
	})
	rec.Count("returned_maps_rechecked_at_quiescence", handedChecked.Load())
	rec.Assume("sequential specification: a map from key to value id; Cache.Load hides expired entries, Cache.LoadOrStore replaces expired entries; expiry classes are 'one hour ago' and 'never', so no clock enters a verdict")
	rec.Assume("Range and CheckExpirations are not atomic by contract: each callback invocation / onExpire is a sub-operation that must linearize within the enclosing call")
}
