// C14 — concurrent map and expiring cache are linearizable.
package c14

import (
	"fmt"

	"github.com/anishathalye/porcupine"
)

const nKeys = 2

// state of the sequential model: value id per key, 0 = absent. For the cache model an
// odd id denotes an element whose expiry time lies one hour in the past ("expired"), an
// even id an element that never expires.
type state [nKeys]int

type opKind int

const (
	// shared map
	opStore opKind = iota
	opLoad
	opLoadOrStore
	opReplace
	opDelete
	opLoadAndDelete
	opLoadOrStoreWithFunc
	opReplaceWithFuncStore
	opReplaceWithFuncDelete
	opLoadAndDeleteWithFunc
	opLoadWithFunc
	opDeleteWithFunc
	opStoreWithFunc
	opCopyData
	opLoadAndDeleteAll
	opLength
	opRange2
	// sub-operation of Range: one (key,value) pair handed to the callback
	opObserve
	// cache
	opCacheLoadOrStore
	opCacheLoad
	// sub-operation of Cache.CheckExpirations: onExpire ran for element (key,id)
	opExpire
	nOpKinds
)

var kindNames = [...]string{"Store", "Load", "LoadOrStore", "Replace", "Delete", "LoadAndDelete", "LoadOrStoreWithFunc", "ReplaceWithFunc(store)", "ReplaceWithFunc(delete)", "LoadAndDeleteWithFunc", "LoadWithFunc", "DeleteWithFunc", "StoreWithFunc", "CopyData", "LoadAndDeleteAll", "Length", "Range2", "Range.observe", "Cache.LoadOrStore", "Cache.Load", "Cache.CheckExpirations.expire"}

func (k opKind) String() string { return kindNames[k] }

type input struct {
	Kind opKind
	Key  int
	Arg  int // value id to store
}

type output struct {
	Val  int   // returned value id (0 = none)
	Ok   bool  // loaded / found
	Snap state // CopyData / LoadAndDeleteAll / Range2
	N    int   // Length
	// callback observations (0/false when the callback did not run)
	CbRan bool
	CbVal int
	CbOk  bool
}

func expired(id int) bool { return id != 0 && id%2 == 1 }

func step(st state, in input, out output) (bool, state) {
	cur := st[in.Key]
	switch in.Kind {
	case opStore, opStoreWithFunc:
		st[in.Key] = in.Arg
		return true, st
	case opLoad:
		return out.Val == cur && out.Ok == (cur != 0), st
	case opLoadWithFunc:
		ok := out.Val == cur && out.Ok == (cur != 0)
		if cur != 0 {
			ok = ok && out.CbRan && out.CbVal == cur
		} else {
			ok = ok && !out.CbRan
		}
		return ok, st
	case opLoadOrStore:
		if cur != 0 {
			return out.Ok && out.Val == cur, st
		}
		st[in.Key] = in.Arg
		return !out.Ok && out.Val == in.Arg, st
	case opLoadOrStoreWithFunc:
		if cur != 0 {
			return out.Ok && out.Val == cur && out.CbRan && out.CbVal == cur, st
		}
		st[in.Key] = in.Arg
		return !out.Ok && out.Val == in.Arg && !out.CbRan, st
	case opReplace:
		st[in.Key] = in.Arg
		return out.Val == cur && out.Ok == (cur != 0), st
	case opReplaceWithFuncStore:
		st[in.Key] = in.Arg
		return out.Val == cur && out.Ok == (cur != 0) && out.CbRan && out.CbVal == cur && out.CbOk == (cur != 0), st
	case opReplaceWithFuncDelete:
		st[in.Key] = 0
		return out.Val == cur && out.Ok == (cur != 0) && out.CbRan && out.CbVal == cur && out.CbOk == (cur != 0), st
	case opDelete:
		st[in.Key] = 0
		return true, st
	case opLoadAndDelete:
		st[in.Key] = 0
		return out.Val == cur && out.Ok == (cur != 0), st
	case opLoadAndDeleteWithFunc:
		st[in.Key] = 0
		ok := out.Val == cur && out.Ok == (cur != 0)
		if cur != 0 {
			ok = ok && out.CbRan && out.CbVal == cur
		} else {
			ok = ok && !out.CbRan
		}
		return ok, st
	case opDeleteWithFunc:
		st[in.Key] = 0
		if cur != 0 {
			return out.CbRan && out.CbVal == cur, st
		}
		return !out.CbRan, st
	case opCopyData, opRange2:
		return out.Snap == st, st
	case opLoadAndDeleteAll:
		return out.Snap == st, state{}
	case opLength:
		n := 0
		for _, v := range st {
			if v != 0 {
				n++
			}
		}
		return out.N == n, st
	case opObserve:
		// Range handed (key, Arg) to its callback: that pair was in the map at that instant
		return cur == in.Arg && cur != 0, st
	case opCacheLoadOrStore:
		if cur != 0 && !expired(cur) {
			return out.Ok && out.Val == cur, st
		}
		st[in.Key] = in.Arg
		return !out.Ok && out.Val == in.Arg, st
	case opCacheLoad:
		if cur == 0 || expired(cur) {
			return out.Val == 0, st
		}
		return out.Val == cur, st
	case opExpire:
		// the sweep removed element Arg from key: only legal if that very element is the
		// current one and it has expired
		if cur == in.Arg && expired(cur) {
			st[in.Key] = 0
			return true, st
		}
		return false, st
	}
	panic("unknown op")
}

var model = porcupine.Model{
	Init: func() interface{} { return state{} },
	Step: func(st, in, out interface{}) (bool, interface{}) {
		ok, ns := step(st.(state), in.(input), out.(output))
		return ok, ns
	},
	Equal: func(a, b interface{}) bool { return a.(state) == b.(state) },
	DescribeOperation: func(in, out interface{}) string {
		i, o := in.(input), out.(output)
		return fmt.Sprintf("%v(k%d,%d) -> val=%d ok=%v snap=%v n=%d cb=%v/%d/%v", i.Kind, i.Key, i.Arg, o.Val, o.Ok, o.Snap, o.N, o.CbRan, o.CbVal, o.CbOk)
	},
}
