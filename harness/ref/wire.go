// Package ref holds reference code written from the RFC text (RFC 7252 §3, RFC 8323 §3,
// RFC 7959 §2.2, RFC 7967, RFC 7641 §3.4). It deliberately imports nothing from the
// library under test, so that it can serve as an independent oracle.
package ref

import (
	"encoding/binary"
	"errors"
	"fmt"
)

type Opt struct {
	ID  uint16 `json:"id"`
	Val []byte `json:"val"`
}

// Msg is a transport-neutral CoAP message. Type/MID are used by datagram framing only.
type Msg struct {
	Type    uint8  `json:"type"`
	Code    uint8  `json:"code"`
	MID     uint16 `json:"mid"`
	Token   []byte `json:"token"`
	Opts    []Opt  `json:"opts"`
	Payload []byte `json:"payload"`
}

func (m Msg) String() string {
	return fmt.Sprintf("{T%d C%d.%02d mid=%d tok=%x nopts=%d pl=%d}", m.Type, m.Code>>5, m.Code&31, m.MID, m.Token, len(m.Opts), len(m.Payload))
}

var (
	ErrTruncated = errors.New("ref: truncated")
	ErrVersion   = errors.New("ref: version")
	ErrTKL       = errors.New("ref: token length 9..15")
	ErrNibble15  = errors.New("ref: option delta/length nibble 15")
	ErrOptNumber = errors.New("ref: option number exceeds 65535")
	ErrShort     = errors.New("ref: short read")
	ErrTooLong   = errors.New("ref: frame length not representable")
)

// lenRange is the registry-legal value length of an option number (RFC 7252 §5.10,
// RFC 7641 §2, RFC 7959 §2.1/§4, RFC 7967 §2).
type lenRange struct{ min, max int }

var coapRegistry = map[uint16]lenRange{
	1:   {0, 8},    // If-Match
	3:   {1, 255},  // Uri-Host
	4:   {1, 8},    // ETag
	5:   {0, 0},    // If-None-Match
	6:   {0, 3},    // Observe
	7:   {0, 2},    // Uri-Port
	8:   {0, 255},  // Location-Path
	11:  {0, 255},  // Uri-Path
	12:  {0, 2},    // Content-Format
	14:  {0, 4},    // Max-Age
	15:  {0, 255},  // Uri-Query
	17:  {0, 2},    // Accept
	20:  {0, 255},  // Location-Query
	23:  {0, 3},    // Block2
	27:  {0, 3},    // Block1
	28:  {0, 4},    // Size2
	35:  {1, 1034}, // Proxy-Uri
	39:  {1, 255},  // Proxy-Scheme
	60:  {0, 4},    // Size1
	258: {0, 1},    // No-Response
}

// RFC 8323 §5: per-signalling-code option registries.
var (
	csmRegistry      = map[uint16]lenRange{2: {0, 4}, 4: {0, 0}}
	pingPongRegistry = map[uint16]lenRange{2: {0, 0}}
	releaseRegistry  = map[uint16]lenRange{2: {1, 255}, 4: {0, 3}}
	abortRegistry    = map[uint16]lenRange{2: {0, 2}}
)

// Registry returns the option registry that applies to a message with the given code on
// the given transport.
func Registry(stream bool, code uint8) map[uint16]lenRange {
	if stream {
		switch code {
		case 7<<5 | 1:
			return csmRegistry
		case 7<<5 | 2, 7<<5 | 3:
			return pingPongRegistry
		case 7<<5 | 4:
			return releaseRegistry
		case 7<<5 | 5:
			return abortRegistry
		}
	}
	return coapRegistry
}

// LegalLen reports whether an option of number id may carry n value bytes (unknown
// numbers: any length).
func LegalLen(stream bool, code uint8, id uint16, n int) bool {
	r, ok := Registry(stream, code)[id]
	if !ok {
		return true
	}
	return n >= r.min && n <= r.max
}

// LegalRange returns the legal value length range of option id for the registry that applies
// to (transport, code); ok=false for numbers unknown to that registry.
func LegalRange(stream bool, code uint8, id uint16) (int, int, bool) {
	r, ok := Registry(stream, code)[id]
	return r.min, r.max, ok
}

// RegistryIDs lists the known option numbers of the base registry.
func RegistryIDs() []uint16 {
	return []uint16{1, 3, 4, 5, 6, 7, 8, 11, 12, 14, 15, 17, 20, 23, 27, 28, 35, 39, 60, 258}
}

func RegistryRange(id uint16) (int, int, bool) {
	r, ok := coapRegistry[id]
	return r.min, r.max, ok
}

func nibble(v int) (nib int, ext []byte) {
	switch {
	case v < 13:
		return v, nil
	case v < 269:
		return 13, []byte{byte(v - 13)}
	default:
		e := make([]byte, 2)
		binary.BigEndian.PutUint16(e, uint16(v-269))
		return 14, e
	}
}

// encodeBody writes options (which must be sorted by number) and the payload.
func encodeBody(out []byte, opts []Opt, payload []byte) []byte {
	prev := 0
	for _, o := range opts {
		d, dx := nibble(int(o.ID) - prev)
		l, lx := nibble(len(o.Val))
		out = append(out, byte(d<<4|l))
		out = append(out, dx...)
		out = append(out, lx...)
		out = append(out, o.Val...)
		prev = int(o.ID)
	}
	if len(payload) > 0 {
		out = append(out, 0xff)
		out = append(out, payload...)
	}
	return out
}

// EncodeUDP is RFC 7252 §3.
func EncodeUDP(m Msg) []byte {
	out := make([]byte, 0, 64)
	out = append(out, 1<<6|(m.Type&3)<<4|byte(len(m.Token)&15), m.Code, byte(m.MID>>8), byte(m.MID))
	out = append(out, m.Token...)
	return encodeBody(out, m.Opts, m.Payload)
}

// EncodeTCP is RFC 8323 §3.2.
func EncodeTCP(m Msg) []byte {
	body := encodeBody(nil, m.Opts, m.Payload)
	n := len(body)
	var out []byte
	tkl := byte(len(m.Token) & 15)
	switch {
	case n < 13:
		out = append(out, byte(n)<<4|tkl)
	case n < 269:
		out = append(out, 13<<4|tkl, byte(n-13))
	case n < 65805:
		out = append(out, 14<<4|tkl, byte((n-269)>>8), byte(n-269))
	default:
		e := make([]byte, 4)
		binary.BigEndian.PutUint32(e, uint32(n-65805))
		out = append(out, 15<<4|tkl)
		out = append(out, e...)
	}
	out = append(out, m.Code)
	out = append(out, m.Token...)
	return append(out, body...)
}

// parseBody parses options and payload with the documented leniencies:
// an option whose value length is outside the registry bounds is dropped, an option with
// number 0 is dropped, a payload marker followed by nothing means "no payload".
func parseBody(b []byte, stream bool, code uint8) ([]Opt, []byte, error) {
	var opts []Opt
	prev := 0
	for len(b) > 0 {
		if b[0] == 0xff {
			return opts, b[1:], nil
		}
		d, l := int(b[0]>>4), int(b[0]&15)
		if d == 15 || l == 15 {
			return nil, nil, ErrNibble15
		}
		b = b[1:]
		ext := func(n int) (int, error) {
			switch n {
			case 13:
				if len(b) < 1 {
					return 0, ErrTruncated
				}
				v := int(b[0]) + 13
				b = b[1:]
				return v, nil
			case 14:
				if len(b) < 2 {
					return 0, ErrTruncated
				}
				v := int(binary.BigEndian.Uint16(b)) + 269
				b = b[2:]
				return v, nil
			}
			return n, nil
		}
		var err error
		if d, err = ext(d); err != nil {
			return nil, nil, err
		}
		if l, err = ext(l); err != nil {
			return nil, nil, err
		}
		if len(b) < l {
			return nil, nil, ErrTruncated
		}
		num := prev + d
		if num > 65535 {
			return nil, nil, ErrOptNumber
		}
		if num != 0 && LegalLen(stream, code, uint16(num), l) {
			opts = append(opts, Opt{uint16(num), append([]byte(nil), b[:l]...)})
		}
		b = b[l:]
		prev = num
	}
	return opts, nil, nil
}

// ParseUDP parses one datagram.
func ParseUDP(b []byte) (Msg, error) {
	var m Msg
	if len(b) < 4 {
		return m, ErrTruncated
	}
	if b[0]>>6 != 1 {
		return m, ErrVersion
	}
	m.Type = b[0] >> 4 & 3
	tkl := int(b[0] & 15)
	if tkl > 8 {
		return m, ErrTKL
	}
	m.Code = b[1]
	m.MID = binary.BigEndian.Uint16(b[2:4])
	b = b[4:]
	if len(b) < tkl {
		return m, ErrTruncated
	}
	m.Token = append([]byte(nil), b[:tkl]...)
	b = b[tkl:]
	opts, pl, err := parseBody(b, false, m.Code)
	if err != nil {
		return m, err
	}
	m.Opts = opts
	m.Payload = append([]byte(nil), pl...)
	return m, nil
}

// TCPHeader is the result of pre-parsing a stream frame header.
type TCPHeader struct {
	HeaderLen int    // bytes up to and including the token
	FrameLen  uint64 // total frame length (header + options + payload)
	Code      uint8
	Token     []byte
}

// ParseTCPHeader parses the frame header at the start of b. ErrShort means that more
// bytes are needed to decide; ErrTKL is reported as soon as the first byte is available.
func ParseTCPHeader(b []byte) (TCPHeader, error) {
	var h TCPHeader
	if len(b) == 0 {
		return h, ErrShort
	}
	ln, tkl := int(b[0]>>4), int(b[0]&15)
	if tkl > 8 {
		return h, ErrTKL
	}
	off := 1
	var body uint64
	switch ln {
	case 13:
		if len(b) < off+1 {
			return h, ErrShort
		}
		body = uint64(b[off]) + 13
		off++
	case 14:
		if len(b) < off+2 {
			return h, ErrShort
		}
		body = uint64(binary.BigEndian.Uint16(b[off:])) + 269
		off += 2
	case 15:
		if len(b) < off+4 {
			return h, ErrShort
		}
		body = uint64(binary.BigEndian.Uint32(b[off:])) + 65805
		off += 4
	default:
		body = uint64(ln)
	}
	h.FrameLen = uint64(off) + 1 + uint64(tkl) + body
	if h.FrameLen > 0xffffffff {
		// Representation limit of the API under test, not of the RFC: the frame length is
		// reported in 32 bits, so a frame of 4 GiB or more cannot be described and must be
		// refused (never wrapped).
		return h, ErrTooLong
	}
	if len(b) < off+1 {
		return h, ErrShort
	}
	h.Code = b[off]
	off++
	if len(b) < off+tkl {
		return h, ErrShort
	}
	h.Token = append([]byte(nil), b[off:off+tkl]...)
	off += tkl
	h.HeaderLen = off
	return h, nil
}

// ParseTCP parses the first frame in b; n is the frame length consumed.
func ParseTCP(b []byte) (Msg, int, error) {
	var m Msg
	h, err := ParseTCPHeader(b)
	if err != nil {
		return m, 0, err
	}
	if uint64(len(b)) < h.FrameLen {
		return m, 0, ErrShort
	}
	m.Code = h.Code
	m.Token = h.Token
	opts, pl, err := parseBody(b[h.HeaderLen:h.FrameLen], true, m.Code)
	if err != nil {
		return m, 0, err
	}
	m.Opts = opts
	m.Payload = append([]byte(nil), pl...)
	return m, int(h.FrameLen), nil
}

// ParseTCPStream splits a byte stream into frames.
func ParseTCPStream(b []byte) ([]Msg, error) {
	var out []Msg
	for len(b) > 0 {
		m, n, err := ParseTCP(b)
		if err != nil {
			return out, err
		}
		out = append(out, m)
		b = b[n:]
	}
	return out, nil
}

// GetOpt returns the first option with the given number.
func (m Msg) GetOpt(id uint16) ([]byte, bool) {
	for _, o := range m.Opts {
		if o.ID == id {
			return o.Val, true
		}
	}
	return nil, false
}

func (m Msg) GetUint(id uint16) (uint32, bool) {
	v, ok := m.GetOpt(id)
	if !ok || len(v) > 4 {
		return 0, false
	}
	var x uint32
	for _, b := range v {
		x = x<<8 | uint32(b)
	}
	return x, true
}

// Uint encodes an unsigned option value in the minimal number of bytes (RFC 7252 §3.2).
func Uint(v uint32) []byte {
	switch {
	case v == 0:
		return []byte{}
	case v < 1<<8:
		return []byte{byte(v)}
	case v < 1<<16:
		return []byte{byte(v >> 8), byte(v)}
	case v < 1<<24:
		return []byte{byte(v >> 16), byte(v >> 8), byte(v)}
	}
	return []byte{byte(v >> 24), byte(v >> 16), byte(v >> 8), byte(v)}
}

// SortOpts sorts options by number keeping the order of equal numbers (insertion sort; stable).
func SortOpts(o []Opt) {
	for i := 1; i < len(o); i++ {
		for j := i; j > 0 && o[j-1].ID > o[j].ID; j-- {
			o[j-1], o[j] = o[j], o[j-1]
		}
	}
}

// PathOpts splits a path into Uri-Path options.
func PathOpts(path string) []Opt {
	var out []Opt
	seg := ""
	flush := func() {
		if seg != "" {
			out = append(out, Opt{11, []byte(seg)})
		}
		seg = ""
	}
	for i := 0; i < len(path); i++ {
		if path[i] == '/' {
			flush()
		} else {
			seg += string(path[i])
		}
	}
	flush()
	return out
}

// PathOf joins the Uri-Path options of m.
func PathOf(m Msg) string {
	p := ""
	for _, o := range m.Opts {
		if o.ID == 11 {
			p += "/" + string(o.Val)
		}
	}
	return p
}
