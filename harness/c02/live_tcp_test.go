package c02

import (
	"bytes"
	"fmt"
	"math/rand"
	"sync"
	"time"

	"github.com/plgd-dev/go-coap/v3/message/pool"
	"github.com/plgd-dev/go-coap/v3/net/responsewriter"
	tcpclient "github.com/plgd-dev/go-coap/v3/tcp/client"

	"verifharness/gen"
	"verifharness/ref"
	"verifharness/sim"
	"verifharness/vr"
)

// liveStream: messages decoded by a live stream connection (the pooled-message API as the session uses it) are kept by the
// application (Hijack) while the connection goes on receiving. The connection's receive buffer is the "caller's receive
// buffer" of those decodes: whatever arrives later - and is written over the same buffer positions - must not change a
// message that was already handed out.
func liveStream(rec *vr.Rec, rounds int, seed int64) {
	rnd := rand.New(rand.NewSource(seed*4409 + 9))
	for round := 0; round < rounds; round++ {
		type held struct {
			m    *pool.Message
			code uint8
			tok  []byte
			opts string
			body []byte
		}
		var mu sync.Mutex
		var hs []held
		snap := func(r *pool.Message) (uint8, []byte, string, []byte) {
			var ob bytes.Buffer
			for _, o := range r.Options() {
				fmt.Fprintf(&ob, "%d:%x;", o.ID, o.Value)
			}
			b, _ := r.ReadBody()
			return uint8(r.Code()), append([]byte(nil), r.Token()...), ob.String(), append([]byte(nil), b...)
		}
		sc := sim.NewScriptConn()
		cache := []int{16, 64, 2048}[round%3]
		cc, err := sim.NewTCPConn(sc, sim.TCPOpts{
			Mutate: func(cfg *tcpclient.Config) { cfg.ConnectionCacheSize = uint16(cache); cfg.BlockwiseEnable = false },
			Handler: func(w *responsewriter.ResponseWriter[*tcpclient.Conn], r *pool.Message) {
				r.Hijack()
				c, t, o, b := snap(r)
				mu.Lock()
				hs = append(hs, held{r, c, t, o, b})
				mu.Unlock()
			}})
		if err != nil {
			rec.Inconclusive("live stream: " + err.Error())
			return
		}
		n := 6 + rnd.Intn(20)
		var msgs []ref.Msg
		for i := 0; i < n; i++ {
			m := gen.Msg(rnd, round*100+i, false)
			if len(m.Payload) > 120 {
				m.Payload = m.Payload[:120]
			}
			if m.Code>>5 == 7 || m.Code == 0 {
				m.Code = 0x45
			}
			m = gen.Legalize(true, m)
			msgs = append(msgs, m)
			// one frame per feed, so that every frame lands at the start of the receive buffer again
			sc.Feed(ref.EncodeTCP(m))
			sc.WaitConsumed(5 * time.Second)
		}
		sim.WaitFor(5*time.Second, func() bool { mu.Lock(); defer mu.Unlock(); return len(hs) >= n })
		time.Sleep(200 * time.Microsecond)
		mu.Lock()
		rec.Eval(fmt.Sprintf("live-stream|%d|%d", round, cache))
		rec.Count("live_stream_messages_held", int64(len(hs)))
		for i, h := range hs {
			c, t, o, b := snap(h.m)
			if c != h.code || !bytes.Equal(t, h.tok) || o != h.opts || !bytes.Equal(b, h.body) {
				what := "options-or-payload"
				if !bytes.Equal(t, h.tok) {
					what = "token"
				}
				rec.Violation("C02/tcp-session/held-message-changed-by-later-input/"+what, fmt.Sprintf("message %d of %d, handed to the handler with code %d token %x, reads code %d token %x after the following frames arrived (connection cache %d bytes): it still points into the connection's receive buffer", i, len(hs), h.code, h.tok, c, t, cache), map[string]any{"messages": n, "connection_cache_size": cache})
				break
			}
		}
		for _, h := range hs {
			cc.ReleaseMessage(h.m)
		}
		mu.Unlock()
		_ = cc.Close()
	}
}

var _ = vr.Seed
