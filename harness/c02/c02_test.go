// C02 — decoders are total, safe and canonicalising on arbitrary bytes.
//
// Monitor: every input is decoded by the real datagram and stream decoders (and the stream
// header pre-parser) and by an independent reference parser; accept/reject and all fields
// must agree; accepted messages are re-encoded and re-decoded (idempotence); the pooled
// API is driven on fresh and recycled messages and the caller buffer is overwritten
// afterwards (no aliasing). A per-worker stall monitor turns a decoder that does not
// return into a violation naming the input.
package c02

import (
	"bytes"
	"context"
	"encoding/hex"
	"errors"
	"fmt"
	"math/rand"
	"os"
	"runtime"
	"sync"
	"sync/atomic"
	"testing"
	"time"

	"github.com/plgd-dev/go-coap/v3/message"
	"github.com/plgd-dev/go-coap/v3/message/pool"
	tcpcoder "github.com/plgd-dev/go-coap/v3/tcp/coder"
	udpclient "github.com/plgd-dev/go-coap/v3/udp/client"
	udpcoder "github.com/plgd-dev/go-coap/v3/udp/coder"

	"verifharness/gen"
	"verifharness/ref"
	"verifharness/sim"
	"verifharness/vr"
)

type inCase struct {
	Coder string `json:"coder"`
	Hex   string `json:"input_hex"`
	Len   int    `json:"len"`
	Mode  string `json:"mode,omitempty"`
}

func mkCase(coder string, b []byte, mode string) inCase {
	h := b
	if len(h) > 96 {
		h = h[:96]
	}
	return inCase{coder, hex.EncodeToString(h), len(b), mode}
}

type worker struct {
	rec  *vr.Rec
	cur  atomic.Pointer[inCase] // input being decoded right now (stall monitor)
	tick atomic.Int64
	msgU *pool.Message // recycled pooled messages
	msgT *pool.Message
	n    int64
	acc  int64
}

func fieldsEqual(stream bool, lm message.Message, rm ref.Msg) string {
	if !stream {
		if int(lm.Type) != int(rm.Type) {
			return fmt.Sprintf("type %d != ref %d", lm.Type, rm.Type)
		}
		if lm.MessageID != int32(rm.MID) {
			return fmt.Sprintf("mid %d != ref %d", lm.MessageID, rm.MID)
		}
	}
	if uint8(lm.Code) != rm.Code {
		return fmt.Sprintf("code %d != ref %d", lm.Code, rm.Code)
	}
	if !bytes.Equal(lm.Token, rm.Token) {
		return fmt.Sprintf("token %x != ref %x", lm.Token, rm.Token)
	}
	if !bytes.Equal(lm.Payload, rm.Payload) {
		return fmt.Sprintf("payload (%d bytes) != ref (%d bytes)", len(lm.Payload), len(rm.Payload))
	}
	if len(lm.Options) != len(rm.Opts) {
		return fmt.Sprintf("%d options != ref %d", len(lm.Options), len(rm.Opts))
	}
	for i, o := range rm.Opts {
		if uint16(lm.Options[i].ID) != o.ID || !bytes.Equal(lm.Options[i].Value, o.Val) {
			return fmt.Sprintf("option %d: (%d,%x) != ref (%d,%x)", i, lm.Options[i].ID, lm.Options[i].Value, o.ID, o.Val)
		}
	}
	return ""
}

type rawDecoder interface {
	Decode(buf []byte, m *message.Message) (int, error)
	Encode(m message.Message, buf []byte) (int, error)
}

// decodeRaw decodes with the retry-on-ErrOptionsTooSmall discipline the pooled API uses.
func decodeRaw(d rawDecoder, data []byte) (message.Message, int, error) {
	capn := 4
	for {
		var m message.Message
		m.Options = make(message.Options, 0, capn)
		n, err := d.Decode(data, &m)
		if errors.Is(err, message.ErrOptionsTooSmall) && capn < 1<<20 {
			capn *= 4
			continue
		}
		return m, n, err
	}
}

func errClass(err error) string {
	switch {
	case err == nil:
		return "ok"
	case errors.Is(err, ref.ErrTooLong):
		return "frame-length-over-32-bits"
	case errors.Is(err, ref.ErrTKL):
		return "tkl"
	case errors.Is(err, ref.ErrShort):
		return "short"
	case errors.Is(err, ref.ErrVersion):
		return "version"
	case errors.Is(err, ref.ErrNibble15):
		return "nibble15"
	case errors.Is(err, ref.ErrOptNumber):
		return "optnumber"
	case errors.Is(err, ref.ErrTruncated):
		return "truncated"
	}
	return "other"
}

func (w *worker) viol(sig, detail string, c inCase) { w.rec.Violation(sig, detail, c) }

// checkUDP compares the datagram decoder with the reference on one input.
func (w *worker) checkUDP(data []byte, mode string) {
	c := mkCase("udp", data, mode)
	w.cur.Store(&c)
	w.tick.Add(1)
	defer func() {
		if e := recover(); e != nil {
			w.viol("C02/udp/panic", fmt.Sprint(e), c)
		}
		w.cur.Store(nil)
	}()
	w.n++
	rm, rerr := ref.ParseUDP(data)
	lm, n, lerr := decodeRaw(udpcoder.DefaultCoder, data)
	if (rerr == nil) != (lerr == nil) {
		dir := "accepts-what-reference-rejects"
		if lerr != nil {
			dir = "rejects-what-reference-accepts"
		}
		w.viol("C02/udp/"+dir+"/"+errClass(rerr), fmt.Sprintf("library: %v; reference: %v", lerr, rerr), c)
		return
	}
	if rerr != nil {
		return
	}
	w.acc++
	if n != len(data) {
		w.viol("C02/udp/consumed", fmt.Sprintf("consumed %d of %d", n, len(data)), c)
		return
	}
	if d := fieldsEqual(false, lm, rm); d != "" {
		w.viol("C02/udp/fields-differ", d, c)
		return
	}
	w.reencode("udp", udpcoder.DefaultCoder, false, lm, c)
	w.pooled("udp", udpcoder.DefaultCoder, false, data, rm, c)
}

func (w *worker) reencode(name string, d rawDecoder, stream bool, lm message.Message, c inCase) {
	buf := make([]byte, len(c.Hex)/2+16)
	n, err := d.Encode(lm, buf)
	if errors.Is(err, message.ErrTooSmall) {
		buf = make([]byte, n)
		n, err = d.Encode(lm, buf)
	}
	if err != nil {
		w.viol("C02/"+name+"/accepted-but-cannot-reencode", fmt.Sprintf("Encode(Decode(x)): %v", err), c)
		return
	}
	enc := buf[:n]
	lm2, n2, err := decodeRaw(d, enc)
	if err != nil || n2 != len(enc) {
		w.viol("C02/"+name+"/reencoding-not-decodable", fmt.Sprintf("Decode(Encode(Decode(x))) = (%d,%v), encoding %x", n2, err, trunc(enc)), c)
		return
	}
	rm2 := toRef(lm2)
	if dd := fieldsEqual(stream, lm, rm2); dd != "" {
		w.viol("C02/"+name+"/not-idempotent", dd, c)
		return
	}
	// canonical: encoding the re-decoded message gives the same bytes again
	buf2 := make([]byte, len(enc)+8)
	n3, err := d.Encode(lm2, buf2)
	if err != nil || !bytes.Equal(buf2[:n3], enc) {
		w.viol("C02/"+name+"/encoding-not-canonical", fmt.Sprintf("second encoding differs (%v)", err), c)
	}
}

func trunc(b []byte) []byte {
	if len(b) > 64 {
		return b[:64]
	}
	return b
}

func toRef(lm message.Message) ref.Msg {
	rm := ref.Msg{Code: uint8(lm.Code), Token: lm.Token, Payload: lm.Payload}
	if lm.Type >= 0 {
		rm.Type = uint8(lm.Type)
	}
	if lm.MessageID >= 0 {
		rm.MID = uint16(lm.MessageID)
	}
	for _, o := range lm.Options {
		rm.Opts = append(rm.Opts, ref.Opt{ID: uint16(o.ID), Val: o.Value})
	}
	return rm
}

// pooled drives pool.Message.UnmarshalWithDecoder on a recycled message and checks
// equality with the reference and independence from the caller's buffer.
func (w *worker) pooled(name string, d pool.Decoder, stream bool, data []byte, rm ref.Msg, c inCase) {
	mp := &w.msgU
	if stream {
		mp = &w.msgT
	}
	if *mp == nil || w.n%97 == 0 {
		*mp = pool.NewMessage(context.Background()) // fresh
	} else {
		switch w.n % 13 {
		case 0:
			// recycled after SetMessage with nil options (capacity 0)
			(*mp).SetMessage(message.Message{})
			(*mp).Reset()
		case 1:
			(*mp).SetMessage(message.Message{Options: make(message.Options, 0, 1), Token: []byte{1}})
			(*mp).Reset()
		default:
			(*mp).Reset() // what ReleaseMessage does before the object is reused
		}
	}
	msg := *mp
	in := append([]byte(nil), data...)
	n, err := msg.UnmarshalWithDecoder(d, in)
	if err != nil {
		w.viol("C02/pool-"+name+"/rejects-what-decoder-accepts", err.Error(), c)
		return
	}
	wantN := len(data)
	if n != wantN {
		w.viol("C02/pool-"+name+"/consumed", fmt.Sprintf("consumed %d of %d", n, wantN), c)
		return
	}
	read := func() (message.Message, error) {
		body, err := msg.ReadBody()
		return message.Message{Type: msg.Type(), MessageID: msg.MessageID(), Code: msg.Code(), Token: msg.Token(), Options: msg.Options(), Payload: body}, err
	}
	got, err := read()
	if err != nil {
		w.viol("C02/pool-"+name+"/readbody", err.Error(), c)
		return
	}
	if dd := fieldsEqual(stream, got, rm); dd != "" {
		w.viol("C02/pool-"+name+"/fields-differ", dd, c)
		return
	}
	for i := range in {
		in[i] = 0xAA
	}
	got2, _ := read()
	if dd := fieldsEqual(stream, got2, rm); dd != "" {
		w.viol("C02/pool-"+name+"/aliases-caller-buffer", "after overwriting the receive buffer: "+dd, c)
	}
}

// checkTCP compares header pre-parsing and frame decoding with the reference.
func (w *worker) checkTCP(data []byte, mode string) {
	c := mkCase("tcp", data, mode)
	w.cur.Store(&c)
	w.tick.Add(1)
	defer func() {
		if e := recover(); e != nil {
			w.viol("C02/tcp/panic", fmt.Sprint(e), c)
		}
		w.cur.Store(nil)
	}()
	w.n++
	// --- header
	var h tcpcoder.MessageHeader
	hn, herr := tcpcoder.DefaultCoder.DecodeHeader(data, &h)
	rh, rherr := ref.ParseTCPHeader(data)
	switch {
	case rherr == nil:
		if herr != nil {
			w.viol("C02/tcp-header/rejects-what-reference-accepts", fmt.Sprintf("library: %v", herr), c)
			return
		}
		if hn != rh.HeaderLen || uint64(h.Length) != uint64(rh.HeaderLen) || uint64(h.MessageLength) != rh.FrameLen || uint8(h.Code) != rh.Code || !bytes.Equal(h.Token, rh.Token) {
			sig := "C02/tcp-header/fields-differ"
			if uint64(h.MessageLength) != rh.FrameLen && rh.FrameLen > 0xffffffff {
				sig = "C02/tcp-header/frame-length-wraps-32-bits"
			}
			w.viol(sig, fmt.Sprintf("library (n=%d len=%d msglen=%d code=%d tok=%x), reference (hdr=%d frame=%d code=%d tok=%x)", hn, h.Length, h.MessageLength, h.Code, h.Token, rh.HeaderLen, rh.FrameLen, rh.Code, rh.Token), c)
			return
		}
	case errors.Is(rherr, ref.ErrShort):
		if !errors.Is(herr, message.ErrShortRead) {
			w.viol("C02/tcp-header/short-input-not-reported", fmt.Sprintf("library: (%d,%v), reference: short read", hn, herr), c)
			return
		}
	default: // TKL 9..15, or a frame length that does not fit 32 bits
		if herr == nil || errors.Is(herr, message.ErrShortRead) {
			w.viol("C02/tcp-header/accepts-what-reference-rejects/"+errClass(rherr), fmt.Sprintf("library: (%d,%v); reference: %v", hn, herr, rherr), c)
			return
		}
	}
	// --- frame
	rm, rn, rerr := ref.ParseTCP(data)
	lm, n, lerr := decodeRaw(tcpcoder.DefaultCoder, data)
	if errors.Is(rerr, ref.ErrShort) {
		if !errors.Is(lerr, message.ErrShortRead) {
			w.viol("C02/tcp/short-input-not-reported", fmt.Sprintf("library: (%d,%v)", n, lerr), c)
		}
		return
	}
	if (rerr == nil) != (lerr == nil) {
		dir := "accepts-what-reference-rejects"
		if lerr != nil {
			dir = "rejects-what-reference-accepts"
		}
		w.viol("C02/tcp/"+dir+"/"+errClass(rerr), fmt.Sprintf("library: %v; reference: %v", lerr, rerr), c)
		return
	}
	if rerr != nil {
		return
	}
	w.acc++
	if n != rn {
		w.viol("C02/tcp/consumed", fmt.Sprintf("consumed %d, frame length %d (input %d bytes)", n, rn, len(data)), c)
		return
	}
	if d := fieldsEqual(true, lm, rm); d != "" {
		sig := "C02/tcp/fields-differ"
		if len(data) > rn {
			sig = "C02/tcp/bytes-beyond-frame-parsed"
		}
		w.viol(sig, d, c)
		return
	}
	w.reencode("tcp", tcpcoder.DefaultCoder, true, lm, c)
	if len(data) == rn {
		w.pooled("tcp", tcpcoder.DefaultCoder, true, data, rm, c)
	}
}

func (w *worker) both(data []byte, mode string) {
	w.checkUDP(data, mode)
	w.checkTCP(data, mode)
}

var alphabet = []byte{0x00, 0x01, 0x08, 0x09, 0x0d, 0x10, 0x40, 0x41, 0x48, 0x49, 0xd1, 0xe0, 0xf0, 0xff, 0x2c}

func TestRun(t *testing.T) {
	rec := vr.New("C02", "inputs: (i) every byte string of length <= 4 (quick) / <= 5 (thorough) over a 15-symbol alphabet of structurally interesting bytes, prefixed for the datagram coder also with each of 4 valid 4-byte headers; (ii) every first byte 0..255 x PRNG tails of 0..40 bytes; (iii) mutations of valid encodings from the C01 generator: truncation at every offset, every single-bit flip in the first 24 bytes, boundary-value substitution at every offset, splices, inserted/duplicated ranges, trailing garbage after a complete stream frame; (iv) 32-bit extended stream lengths near 2^32; (vi) option-length grid: 26 option numbers x 16 value lengths x 10 codes incl. the stream signalling codes 7.01-7.05; (v) a sample of all of these through udp Conn.Process on a live in-memory connection; (vii) messages decoded by a live stream connection and kept by the application while later frames overwrite the connection's receive buffer. Both coders, header pre-parser, pooled API on fresh/recycled messages. Distinct = distinct inputs (hashed); non-trivial = every input (each is compared with the reference).")
	defer rec.Flush(true)
	seed := vr.Seed()
	nw := runtime.GOMAXPROCS(0)
	workers := make([]*worker, nw)
	for i := range workers {
		workers[i] = &worker{rec: rec}
	}
	// stall monitor: a decoder call that does not return
	stop := make(chan struct{})
	go func() {
		last := make([]int64, nw)
		since := make([]time.Time, nw)
		for {
			select {
			case <-stop:
				return
			case <-time.After(500 * time.Millisecond):
			}
			for i, w := range workers {
				tk := w.tick.Load()
				c := w.cur.Load()
				if c == nil || tk != last[i] {
					last[i] = tk
					since[i] = time.Now()
					continue
				}
				if time.Since(since[i]) > 20*time.Second {
					buf := make([]byte, 1<<18)
					n := runtime.Stack(buf, true)
					os.Stderr.Write(buf[:n])
					rec.Violation("C02/"+c.Coder+"/decoder-does-not-return", "no return within 20 s (mode "+c.Mode+")", *c)
					rec.Flush(false)
					os.Exit(4)
				}
			}
		}
	}()

	var allCount, accCount atomic.Int64
	run := func(jobs func(w *worker, id int)) {
		var wg sync.WaitGroup
		for i, w := range workers {
			wg.Add(1)
			go func(w *worker, id int) {
				defer wg.Done()
				jobs(w, id)
			}(w, i)
		}
		wg.Wait()
	}

	// (i) exhaustive short strings
	maxLen := vr.Scale(4, 5)
	headers := [][]byte{{0x40, 0x01, 0x12, 0x34}, {0x51, 0x45, 0x00, 0x01, 0xaa}, {0x68, 0x02, 0xff, 0xff, 1, 2, 3, 4, 5, 6, 7, 8}, {0x70, 0x00, 0x00, 0x00}}
	var total int64 = 0
	for L := 0; L <= maxLen; L++ {
		n := 1
		for i := 0; i < L; i++ {
			n *= len(alphabet)
		}
		total += int64(n)
	}
	run(func(w *worker, id int) {
		buf := make([]byte, maxLen)
		for L := 0; L <= maxLen; L++ {
			n := 1
			for i := 0; i < L; i++ {
				n *= len(alphabet)
			}
			for k := id; k < n; k += nw {
				x := k
				for i := 0; i < L; i++ {
					buf[i] = alphabet[x%len(alphabet)]
					x /= len(alphabet)
				}
				s := buf[:L]
				w.both(s, "exhaustive")
				for _, h := range headers {
					w.checkUDP(append(append([]byte(nil), h...), s...), "exhaustive+header")
				}
			}
		}
	})
	rec.DistinctAdd(total * 6)
	rec.Count("exhaustive_strings", total)

	// (ii) every first byte with PRNG tails
	tails := vr.Scale(60, 3000)
	run(func(w *worker, id int) {
		rnd := rand.New(rand.NewSource(seed*31 + int64(id)))
		for b0 := id; b0 < 256; b0 += nw {
			for k := 0; k < tails; k++ {
				tl := rnd.Intn(41)
				s := make([]byte, 1+tl)
				s[0] = byte(b0)
				for i := 1; i < len(s); i++ {
					if rnd.Intn(3) == 0 {
						s[i] = alphabet[rnd.Intn(len(alphabet))]
					} else {
						s[i] = byte(rnd.Intn(256))
					}
				}
				w.both(s, "firstbyte")
				rec.Eval(string(s))
			}
		}
	})

	// (iii) mutations of valid encodings
	nvalid := vr.Scale(500, 40000)
	boundary := []byte{0x00, 0xff, 0x0d, 0x0e, 0x0f, 0xd0, 0xe0, 0xf0, 0xdd, 0xee}
	run(func(w *worker, id int) {
		for i := id; i < nvalid; i += nw {
			gs := seed*7919 + int64(i)
			rnd := rand.New(rand.NewSource(gs))
			m := gen.Msg(rnd, i, false)
			if len(m.Payload) > 300 {
				m.Payload = m.Payload[:rnd.Intn(300)]
			}
			for k := range m.Opts {
				if len(m.Opts[k].Val) > 300 {
					lo, _, known := ref.RegistryRange(m.Opts[k].ID)
					if !known {
						m.Opts[k].Val = m.Opts[k].Val[:rnd.Intn(300)]
					} else if lo == 0 {
						m.Opts[k].Val = m.Opts[k].Val[:rnd.Intn(256)]
					}
				}
			}
			for _, stream := range []bool{false, true} {
				var enc []byte
				check := w.checkUDP
				if stream {
					enc = ref.EncodeTCP(gen.Legalize(true, m))
					check = w.checkTCP
				} else {
					enc = ref.EncodeUDP(m)
				}
				check(enc, "valid")
				rec.Eval(string(enc))
				for off := 0; off < len(enc); off++ {
					check(enc[:off], "truncate")
				}
				nb := len(enc)
				if nb > 24 {
					nb = 24
				}
				mut := make([]byte, len(enc))
				for off := 0; off < nb; off++ {
					for bit := 0; bit < 8; bit++ {
						copy(mut, enc)
						mut[off] ^= 1 << bit
						check(mut, "bitflip")
					}
				}
				for off := 0; off < len(enc); off++ {
					bv := boundary[(off+i)%len(boundary)]
					copy(mut, enc)
					mut[off] = bv
					check(mut, "boundary-byte")
				}
				for k := 0; k < 6; k++ {
					a, b := rnd.Intn(len(enc)+1), rnd.Intn(len(enc)+1)
					if a > b {
						a, b = b, a
					}
					var sp []byte
					switch k % 3 {
					case 0: // duplicate a range
						sp = append(append(append([]byte(nil), enc[:b]...), enc[a:b]...), enc[b:]...)
					case 1: // delete a range
						sp = append(append([]byte(nil), enc[:a]...), enc[b:]...)
					case 2: // insert garbage
						sp = append(append(append([]byte(nil), enc[:a]...), gen.Fill(rnd, rnd.Intn(9))...), enc[a:]...)
					}
					check(sp, "splice")
				}
				if stream {
					// a complete frame followed by more stream bytes: only the frame may be parsed
					for _, extra := range [][]byte{{0x00}, {0xff, 0x41}, {0xd1, 0x00, 0x00}, ref.EncodeTCP(ref.Msg{Code: 0x45, Token: []byte{9}, Payload: []byte("next")})} {
						check(append(append([]byte(nil), enc...), extra...), "frame+trailing")
					}
				}
			}
		}
	})

	// (iv) extended stream lengths near 2^32 (header only: the body is never supplied)
	run(func(w *worker, id int) {
		if id != 0 {
			return
		}
		exts := []uint32{0, 1, 0x7fff0000 - 65805, 0x7fffffff, 0x80000000, 0xfffeffff, 0xfffffff0, 0xffffffff}
		// every value around the point where header + token + body stops fitting 32 bits, for every token length
		for d := -24; d <= 3; d++ {
			exts = append(exts, uint32(int64(0xffffffff-65805)+int64(d)))
		}
		for _, ext := range exts {
			for tkl := 0; tkl <= 8; tkl++ {
				s := []byte{0xf0 | byte(tkl), byte(ext >> 24), byte(ext >> 16), byte(ext >> 8), byte(ext), 0x01}
				s = append(s, bytes.Repeat([]byte{0x55}, tkl)...)
				w.checkTCP(s, "ext-length")
				w.checkTCP(append(s, 0xb1, 0x61), "ext-length+body")
				rec.Eval(string(s))
				rec.Count("ext_length_headers", 2)
			}
		}
	})

	// (iv-b) messages with very many options (the pooled API grows its option slice by retrying)
	run(func(w *worker, id int) {
		counts := []int{15, 16, 17, 31, 32, 33, 63, 64, 65, 127, 128, 129, 255, 256, 257, 511, 512, 513, 1023, 1024, 1025, 1026, 2047, 2048, 2049, 4096, 5000}
		for ci, n := range counts {
			if ci%nw != id {
				continue
			}
			for variant := 0; variant < 4; variant++ {
				var body []byte
				for k := 0; k < n; k++ {
					switch variant {
					case 0: // n empty Uri-Path options
						if k == 0 {
							body = append(body, 0xb0)
						} else {
							body = append(body, 0x00)
						}
					case 1: // option numbers 1..n (mostly unknown, elective and critical), empty values
						body = append(body, 0x10)
					case 2: // all dropped: option number 0 repeated
						body = append(body, 0x00)
					case 3: // one-byte values, alternating repeat / step
						body = append(body, byte(k%2)<<4|1, byte(k))
					}
				}
				body = append(body, 0xff, 'p')
				udpMsg := append([]byte{0x41, 0x01, 0x12, 0x34, 0x77}, body...)
				w.checkUDP(udpMsg, "many-options")
				var hdr []byte
				switch bl := len(body); {
				case bl < 13:
					hdr = []byte{byte(bl)<<4 | 1}
				case bl < 269:
					hdr = []byte{0xd1, byte(bl - 13)}
				default:
					hdr = []byte{0xe1, byte((bl - 269) >> 8), byte(bl - 269)}
				}
				hdr = append(hdr, 0x01, 0x77)
				w.checkTCP(append(hdr, body...), "many-options")
				rec.Eval(fmt.Sprintf("many-options|%d|%d", n, variant))
				rec.Count("many_option_messages", 2)
			}
		}
	})

	for _, w := range workers {
		allCount.Add(w.n)
		accCount.Add(w.acc)
	}
	rec.EvalN(allCount.Load(), "")
	rec.Count("decoder_comparisons", allCount.Load())
	rec.Count("accepted_by_both", accCount.Load())

	// (vi) option-length grid: one or two options of every known (and some unknown) number with value lengths around every
	// limit of every registry, under ordinary codes and under each stream signalling code (which have registries of their own)
	{
		gridCodes := []uint8{0x01, 0x02, 0x45, 0x84, 7<<5 | 1, 7<<5 | 2, 7<<5 | 3, 7<<5 | 4, 7<<5 | 5, 7<<5 | 6}
		gridIDs := []uint16{1, 2, 3, 4, 5, 6, 7, 8, 9, 10, 11, 12, 14, 15, 17, 20, 23, 27, 28, 35, 39, 60, 258, 259, 2049, 65000}
		gridLens := []int{0, 1, 2, 3, 4, 5, 8, 9, 12, 13, 14, 255, 256, 269, 1034, 1035}
		type gj struct {
			code uint8
			id   uint16
			l    int
		}
		var grid []gj
		for _, cd := range gridCodes {
			for _, id := range gridIDs {
				for _, l := range gridLens {
					grid = append(grid, gj{cd, id, l})
				}
			}
		}
		run(func(w *worker, id int) {
			rnd := rand.New(rand.NewSource(seed*37 + int64(id)))
			for k := id; k < len(grid); k += nw {
				g := grid[k]
				val := gen.Fill(rnd, g.l)
				m := ref.Msg{Code: g.code, Token: gen.Fill(rnd, rnd.Intn(3)), Opts: []ref.Opt{{ID: g.id, Val: val}}}
				w.checkTCP(ref.EncodeTCP(m), "option-length-grid")
				// with a legal neighbour in front and a payload behind
				m2 := ref.Msg{Code: g.code, Token: m.Token, Opts: []ref.Opt{{ID: 1, Val: []byte{9}}, {ID: g.id, Val: val}}, Payload: []byte("p")}
				if g.id == 1 {
					m2.Opts = m2.Opts[1:]
				}
				w.checkTCP(ref.EncodeTCP(m2), "option-length-grid")
				if g.code>>5 != 7 {
					m.Type, m.MID = uint8(k%4), uint16(k)
					w.checkUDP(ref.EncodeUDP(m), "option-length-grid")
				}
			}
		})
		// complete stream frames whose body length sits on and around every length-class boundary (what is accepted must
		// re-encode to a frame that decodes to the same message again)
		for _, target := range []int{11, 12, 13, 14, 267, 268, 269, 270, 65803, 65804, 65805, 65806, 65807, 70000} {
			for tkl := 0; tkl <= 8; tkl += 4 {
				tok := gen.Fill(rand.New(rand.NewSource(int64(target*9+tkl))), tkl)
				m := ref.Msg{Code: 0x02, Token: tok, Payload: gen.Fill(rand.New(rand.NewSource(int64(target))), target-1)}
				workers[0].checkTCP(ref.EncodeTCP(m), "length-class-boundary")
				m2 := ref.Msg{Code: 0x45, Token: tok, Opts: []ref.Opt{{ID: 65000, Val: gen.Fill(rand.New(rand.NewSource(int64(target+1))), target-3)}}}
				workers[0].checkTCP(ref.EncodeTCP(m2), "length-class-boundary")
				rec.DistinctAdd(2)
			}
		}
		rec.Count("option_length_grid_inputs", int64(len(grid)*2))
		rec.DistinctAdd(int64(len(grid) * 2))
	}

	// (v) datagram entry point of a live connection
	s := sim.NewMemSession()
	cc := sim.NewUDPConn(s, sim.UDPOpts{})
	rnd := rand.New(rand.NewSource(seed ^ 0xc02))
	np := vr.Scale(20000, 400000)
	var last inCase
	done := make(chan struct{})
	go func() {
		defer close(done)
		for i := 0; i < np; i++ {
			var d []byte
			switch i % 3 {
			case 0:
				d = make([]byte, rnd.Intn(24))
				for k := range d {
					d[k] = alphabet[rnd.Intn(len(alphabet))]
				}
				if len(d) > 0 && rnd.Intn(2) == 0 {
					d[0] = 0x40 | byte(rnd.Intn(64))
				}
			case 1:
				m := gen.Msg(rnd, i, false)
				if len(m.Payload) > 200 {
					m.Payload = m.Payload[:200]
				}
				d = ref.EncodeUDP(m)
				if len(d) > 4 {
					d[rnd.Intn(len(d))] = boundary[rnd.Intn(len(boundary))]
				}
			case 2:
				m := gen.Msg(rnd, i, false)
				d = ref.EncodeUDP(m)
				d = d[:rnd.Intn(len(d)+1)]
			}
			last = mkCase("udp-process", d, "live")
			if i%1000 == 0 {
				vr.CaseLog(last)
			}
			func() {
				defer func() {
					if e := recover(); e != nil {
						rec.Violation("C02/udp-process/panic", fmt.Sprint(e), last)
					}
				}()
				_ = cc.Process(nil, d)
			}()
			rec.Count("live_process_calls", 1)
			if rec.NViolations() > 12 {
				return
			}
		}
	}()
	select {
	case <-done:
	case <-time.After(120 * time.Second):
		rec.Violation("C02/udp-process/does-not-return", "Conn.Process did not return within the watchdog", last)
	}
	cc.Close()
	liveStream(rec, vr.Scale(30, 600), seed)
	close(stop)
	rec.Sample(mkCase("tcp", []byte{0xf0, 0xff, 0xfe, 0xff, 0x32, 0x01}, "ext-length"))
	rec.Sample(mkCase("udp", []byte{0x49, 0x01, 0, 1, 1, 2, 3, 4, 5, 6, 7, 8, 9}, "tkl9"))
	rec.Sample(mkCase("tcp", []byte{0x09, 0x01, 1, 2, 3, 4, 5, 6, 7, 8, 9}, "tkl9"))
	rec.Assume("the reference parser (harness/ref) is a faithful reading of RFC 7252 section 3 / RFC 8323 section 3 with exactly the documented leniencies: illegal-length registry options dropped (per-code registries for 7.xx), option number 0 dropped, payload marker followed by nothing = no payload")
	rec.Assume("totality = returned within 20 s per call (stall monitor); memory monitor = bounds checks + checkptr")
	_ = udpclient.DefaultMTU
}
