package c12

import (
	"bytes"
	"context"
	"fmt"
	"sync"
	"sync/atomic"
	"time"

	"github.com/plgd-dev/go-coap/v3/message/codes"
	"github.com/plgd-dev/go-coap/v3/message/pool"
	"github.com/plgd-dev/go-coap/v3/pkg/verifhook"

	"verifharness/ref"
	"verifharness/sim"
	"verifharness/vr"
)

// staleGuard forces one interleaving with the block-wise hook point: a duplicate of the first
// response block is being processed by a reader loop that has loaded the reassembly state but
// not locked it yet; meanwhile a replacement loop processes the final block, completes the
// body and hands the message to the caller; then the first loop continues. The library must
// not touch the message the application now holds.
func staleGuard(rec *vr.Rec, reps int) {
	for rep := 0; rep < reps; rep++ {
		s := sim.NewMemSession()
		cc := sim.NewUDPConn(s, sim.UDPOpts{Blockwise: true, SZX: 0, Pool: pool.New(4, 2048)})
		var armed, blockedOnce atomic.Bool
		gate := make(chan struct{})
		parked := make(chan struct{}, 1)
		verifhook.Set(func(name string) {
			if name == "blockwise.processReceivedMessage.afterLoadGuard" && armed.Load() && blockedOnce.CompareAndSwap(false, true) {
				parked <- struct{}{}
				<-gate
			}
		})
		body := bytes.Repeat([]byte("0123456789abcdef"), 2)
		type res struct {
			m   *pool.Message
			err error
		}
		done := make(chan res, 1)
		go func() {
			ctx, cancel := context.WithTimeout(context.Background(), 20*time.Second)
			defer cancel()
			m, err := cc.Get(ctx, "/x")
			done <- res{m, err}
		}()
		find := func(pred func(ref.Msg) bool) (ref.Msg, bool) {
			var out ref.Msg
			ok := sim.WaitFor(10*time.Second, func() bool {
				for _, d := range s.Log() {
					if m, err := ref.ParseUDP(d.Data); err == nil && pred(m) {
						out = m
						return true
					}
				}
				return false
			})
			return out, ok
		}
		g0, ok := find(func(m ref.Msg) bool { return m.Code == 1 && ref.PathOf(m) == "/x" })
		if !ok {
			rec.Inconclusive("stale-guard: request not seen")
			verifhook.Set(nil)
			cc.Close()
			continue
		}
		etag := ref.Opt{ID: 4, Val: []byte{7}}
		blk := func(mid uint16, num int, more bool) ref.Msg {
			v := uint32(num << 4)
			if more {
				v |= 8
			}
			return ref.Msg{Type: 2, Code: 0x45, MID: mid, Token: g0.Token, Opts: []ref.Opt{etag, {ID: 23, Val: ref.Uint(v)}}, Payload: body[num*16 : num*16+16]}
		}
		_ = cc.Process(nil, ref.EncodeUDP(blk(g0.MID, 0, true)))
		g1, ok := find(func(m ref.Msg) bool { v, has := m.GetUint(23); return m.Code == 1 && has && v>>4 == 1 })
		if !ok {
			rec.Inconclusive("stale-guard: continuation request not seen")
			verifhook.Set(nil)
			cc.Close()
			continue
		}
		// duplicate of block 0: its reader loop parks right after loading the reassembly state
		armed.Store(true)
		_ = cc.Process(nil, ref.EncodeUDP(blk(g0.MID, 0, true)))
		select {
		case <-parked:
		case <-time.After(10 * time.Second):
			rec.Inconclusive("stale-guard: hook point not reached")
			close(gate)
			verifhook.Set(nil)
			cc.Close()
			continue
		}
		// another call makes the connection start a replacement reader loop
		var owg sync.WaitGroup
		owg.Add(1)
		go func() {
			defer owg.Done()
			ctx, cancel := context.WithTimeout(context.Background(), 300*time.Millisecond)
			defer cancel()
			if m, err := cc.Get(ctx, "/other"); err == nil {
				cc.ReleaseMessage(m)
			}
		}()
		find(func(m ref.Msg) bool { return m.Code == 1 && ref.PathOf(m) == "/other" })
		// final block: processed by the replacement loop, completes the body
		_ = cc.Process(nil, ref.EncodeUDP(blk(g1.MID, 1, false)))
		var r res
		select {
		case r = <-done:
		case <-time.After(10 * time.Second):
			rec.Inconclusive("stale-guard: call did not return")
			close(gate)
			verifhook.Set(nil)
			cc.Close()
			continue
		}
		rec.Eval(fmt.Sprintf("stale-guard|%d", rep%2))
		rec.Count("stale_guard_interleavings_forced", 1)
		if r.err != nil {
			close(gate)
			owg.Wait()
			verifhook.Set(nil)
			cc.Close()
			continue
		}
		if rep%3 == 2 {
			// the caller is quick: it has read the response and given it back before the parked loop goes on. Whatever
			// that loop still does with the guard it looked up, it must not touch the message (a released message has no
			// context any more; its object may already serve somebody else)
			cc.ReleaseMessage(r.m)
			o := cc.AcquireMessage(context.Background())
			o.SetCode(codes.DELETE)
			close(gate)
			time.Sleep(2 * time.Millisecond)
			cc.ReleaseMessage(o)
			rec.Count("stale_guard_caller_released_before_the_parked_loop_resumed", 1)
			owg.Wait()
			verifhook.Set(nil)
			cc.Close()
			continue
		}
		// the application holds the response and keeps reading it while the parked loop continues
		pool.VerifHold(r.m, "response returned from a request call")
		before := s.Len()
		close(gate)
		bad := ""
		for i := 0; i < 400 && bad == ""; i++ {
			b, err := r.m.ReadBody()
			if err != nil || !bytes.Equal(b, body) {
				bad = fmt.Sprintf("read %d: %d bytes, err=%v (expected the 32-byte body)", i, len(b), err)
			}
		}
		time.Sleep(500 * time.Microsecond)
		if bad != "" {
			rec.Violation("C12/udp/held-message-changed/returned-response", "a reader loop that had loaded the reassembly state before the transfer completed continued on the message already handed to the caller: "+bad, map[string]string{"scenario": "stale reassembly guard"})
		}
		for _, d := range s.Log()[before:] {
			if m, err := ref.ParseUDP(d.Data); err == nil && m.Code == 1 && bytes.Equal(m.Token, g0.Token) {
				if v, has := m.GetUint(23); has {
					rec.Violation("C12/udp/library-continues-on-delivered-message", fmt.Sprintf("after the complete body was handed to the caller the connection asked for block %d of the same transfer (it read the delivered message to compute that)", v>>4), map[string]string{"scenario": "stale reassembly guard"})
				}
			}
		}
		pool.VerifUnhold(r.m)
		cc.ReleaseMessage(r.m)
		owg.Wait()
		verifhook.Set(nil)
		cc.Close()
	}
}
