// C12 — a pooled message has one owner at a time.
//
// Monitor: the verif-tagged lifecycle tracker in message/pool (per-object state machine,
// poison on release, verification on re-acquire, registry of messages held by application
// code) plus content snapshots of held messages, over the connection-level workload engine
// with error paths weighted up, small pools (maximal reuse) and housekeeping sweeps running
// concurrently with the exchanges; race reports touching pool/message state are attributed
// by the driver.
package c12

import (
	"bytes"
	"fmt"
	"math/rand"
	"os"
	"strings"
	"sync"
	"sync/atomic"
	"testing"
	"time"

	"github.com/plgd-dev/go-coap/v3/message/pool"

	"verifharness/vr"
	"verifharness/wl"
)

type snap struct {
	code  byte
	tok   string
	opts  string
	body  string
	where string
}

func snapshot(m *pool.Message, where string) snap {
	var ob strings.Builder
	for _, o := range m.Options() {
		fmt.Fprintf(&ob, "%d:%x;", o.ID, o.Value)
	}
	b, _ := m.ReadBody()
	return snap{byte(m.Code()), string(m.Token()), ob.String(), string(b), where}
}

type hcase struct {
	Kind       string `json:"transport"`
	Pool       int    `json:"pool_capacity"`
	N          int    `json:"exchanges"`
	Parallel   int    `json:"parallel"`
	Sweeper    bool   `json:"concurrent_housekeeping"`
	HoldHijack bool   `json:"receive_path_waits_for_app_release"`
	SetMessage bool   `json:"server_answers_through_setmessage,omitempty"`
	QuickApp   bool   `json:"application_releases_at_once"`
	Seed       int64  `json:"seed"`
}

func runHistory(rec *vr.Rec, c hcase) {
	var p *wl.Pair
	if c.Kind == "udp" {
		p = wl.NewUDPPair(c.Pool, nil)
	} else {
		var err error
		p, err = wl.NewTCPPair(c.Pool)
		if err != nil {
			rec.Violation("C12/harness/tcp-pair", err.Error(), c)
			return
		}
	}
	defer p.Close()
	p.HoldAfterHijack.Store(c.HoldHijack)
	p.RespondViaSetMessage.Store(c.SetMessage)
	var held atomic.Int64
	changed := func(before snap, m *pool.Message) {
		after := snapshot(m, before.where)
		if after != before {
			what := "content"
			switch {
			case after.body != before.body:
				what = "body"
			case after.opts != before.opts:
				what = "options"
			case after.tok != before.tok:
				what = "token"
			}
			rec.Violation("C12/"+c.Kind+"/held-message-changed/"+before.where, fmt.Sprintf("%s of a message held by the application changed (code %d -> %d, %d -> %d body bytes)", what, before.code, after.code, len(before.body), len(after.body)), c)
		}
	}
	// request inside a handler
	p.HandlerEnter = func(r *pool.Message) any {
		pool.VerifHold(r, "request inside a handler")
		held.Add(1)
		return snapshot(r, "request-in-handler")
	}
	p.HandlerExit = func(r *pool.Message, st any) {
		changed(st.(snap), r)
		pool.VerifUnhold(r)
	}
	hk := &wl.Hooks{
		// response returned from a request call: the application holds it for a while, then releases it
		OnResponse: func(m *pool.Message) {
			pool.VerifHold(m, "response returned from a request call")
			held.Add(1)
			s := snapshot(m, "returned-response")
			if !c.QuickApp {
				time.Sleep(time.Duration(20+len(s.body)%50) * time.Microsecond)
			}
			changed(s, m)
			pool.VerifUnhold(m)
		},
		// notification inside a callback
		OnNotify: func(m *pool.Message) {
			pool.VerifHold(m, "notification inside a callback")
			held.Add(1)
			s := snapshot(m, "notification-in-callback")
			time.Sleep(10 * time.Microsecond)
			changed(s, m)
			pool.VerifUnhold(m)
		},
	}
	rnd := rand.New(rand.NewSource(c.Seed))
	stopSweep := make(chan struct{})
	var swg sync.WaitGroup
	if c.Sweeper {
		swg.Add(1)
		go func() {
			defer swg.Done()
			k := 0
			for {
				select {
				case <-stopSweep:
					return
				default:
				}
				k++
				// expiry sweeps and retransmissions concurrent with ACKs, releases and block-wise continuation
				now := time.Now().Add(time.Duration(k%9) * time.Hour)
				p.Cli.CheckExpirations(now)
				p.Srv.CheckExpirations(now)
				time.Sleep(50 * time.Microsecond)
			}
		}()
	}
	var wg sync.WaitGroup
	sem := make(chan struct{}, c.Parallel)
	kinds := wl.Kinds(c.Kind)
	for i := 0; i < c.N; i++ {
		k := kinds[rnd.Intn(len(kinds))]
		outs := wl.Outcomes(c.Kind, k)
		// error paths weighted up: two of three exchanges end in something else than success
		o := outs[rnd.Intn(len(outs))]
		if o == "ok" && len(outs) > 1 && rnd.Intn(3) != 0 {
			o = outs[1+rnd.Intn(len(outs)-1)]
		}
		x := wl.Exchange{Kind: k, Outcome: o, ID: int(c.Seed%1000)*1000 + i, Size: []int{65, 128, 300, 700}[rnd.Intn(4)], NoDeadline: i%3 == 2}
		wg.Add(1)
		sem <- struct{}{}
		r := rand.New(rand.NewSource(rnd.Int63()))
		go func() {
			defer wg.Done()
			defer func() { <-sem }()
			t0 := time.Now()
			p.Run(x, r, hk)
			rec.Count("ms_"+x.Kind+"/"+x.Outcome, time.Since(t0).Milliseconds())
			rec.Count("n_"+x.Kind+"/"+x.Outcome, 1)
		}()
		if rnd.Intn(5) == 0 {
			p.Notify(uint32(5 + i))
		}
	}
	done := make(chan struct{})
	go func() { wg.Wait(); close(done) }()
	select {
	case <-done:
	case <-time.After(90 * time.Second):
		rec.Inconclusive("history did not finish within the watchdog")
	}
	close(stopSweep)
	swg.Wait()
	p.Drain()
	rec.Count("messages_held_by_application", held.Load())
	if st := p.Storm(); st != nil {
		rec.Note("message storm safety valve hit")
	}
	if g := p.WireGarbage(); len(g) > 0 {
		rec.Violation("C12/"+c.Kind+"/wire/endpoint-emitted-non-coap-bytes", fmt.Sprintf("a real endpoint emitted %d datagram(s) that are not CoAP messages (0xdb.. is the poison written into the buffers of a released message: something kept bytes of a message beyond its release): %v", len(g), g), c)
	}
	for cl, n := range p.ErrClasses() {
		if os.Getenv("VERIF_C12_ERRS") != "" {
			fmt.Printf("ERRCLASS %d %s\n", n, cl)
		}
		// an endpoint found bytes in its own response cache that are not a message: the cache can only hold what the
		// endpoint itself marshalled, so something kept the encode buffer of a message beyond the message's release
		if strings.Contains(cl, "cannot unmarshal response from cache") {
			rec.Violation("C12/"+c.Kind+"/response-cache-holds-bytes-of-a-released-message", fmt.Sprintf("%d x %s", n, cl), c)
		}
	}
	rec.Count("datagrams_checked_against_reference_parser", p.Units.Load())
}

func TestRun(t *testing.T) {
	rec := vr.New("C12", "histories of 40..200 exchanges from the workload engine (plain, block-wise up/down, observe, ping, one-way, duplicate token) with error outcomes weighted 2:1 (peer silence, cancel between register and write, reset, malformed block, garbage, duplicate request, write failure), 1..8 in flight, pool capacities 0 / 1 / 4 / 1024, udp and tcp pairs, with a concurrent housekeeping goroutine sweeping both connections at PRNG virtual times; the lifecycle tracker is on for the whole run. Distinct = distinct history tuples.")
	defer rec.Flush(true)
	seed := vr.Seed()
	pool.VerifTrackerEnable(true)
	defer pool.VerifTrackerEnable(false)
	rnd := rand.New(rand.NewSource(seed))
	var cases []hcase
	for i := 0; i < vr.Scale(48, 2400); i++ {
		cases = append(cases, hcase{
			Kind:       []string{"udp", "udp", "tcp"}[i%3],
			Pool:       []int{0, 1, 4, 1024}[i%4],
			N:          40 + rnd.Intn(161),
			Parallel:   1 + rnd.Intn(8),
			Sweeper:    i%2 == 0,
			HoldHijack: i%3 != 0,
			SetMessage: i%4 == 2,
			QuickApp:   i%4 < 2,
			Seed:       rnd.Int63(),
		})
	}
	var wg sync.WaitGroup
	var next atomic.Int64
	collect := func() {
		for _, r := range pool.VerifTrackerReports() {
			first := r
			if i := strings.IndexAny(r, ":\n"); i > 0 {
				first = r[:i]
			}
			first = strings.TrimSpace(strings.Split(first, " (")[0])
			rec.Violation("C12/tracker/"+first, r, nil)
		}
	}
	for w := 0; w < 14; w++ {
		wg.Add(1)
		go func() {
			defer wg.Done()
			for {
				i := int(next.Add(1)) - 1
				if i >= len(cases) {
					return
				}
				if rec.NViolations() > 25 {
					continue
				}
				runHistory(rec, cases[i])
				collect()
				rec.Eval(fmt.Sprintf("%+v", cases[i]))
				rec.Count("histories_"+cases[i].Kind, 1)
				rec.Count("exchanges_run", int64(cases[i].N))
				if i < 2 {
					rec.Sample(cases[i])
				}
			}
		}()
	}
	wg.Wait()
	collect()
	staleGuard(rec, vr.Scale(30, 600))
	collect()
	slowPingWrite(rec, vr.Scale(30, 300))
	collect()
	heldAcrossClose(rec, vr.Scale(36, 360))
	collect()
	blockPastEnd(rec, vr.Scale(36, 360))
	collect()
	cancelDuringContinuation(rec, vr.Scale(400, 4000))
	collect()
	rel, reuse, checked, poisoned := pool.VerifTrackerStats()
	rec.Count("tracker_releases_observed", rel)
	rec.Count("tracker_reuses_of_released_objects", reuse)
	rec.Count("tracker_poison_checks_at_reacquire", checked)
	rec.Count("tracker_bytes_poisoned", poisoned)
	if rel == 0 {
		rec.Violation("C12/harness/tracker-saw-nothing", "the lifecycle tracker observed no release", nil)
	}
	rec.Assume("a read after release that happens before the object is re-acquired and whose value is not used observably is visible only to the race detector, when a concurrent write exists in that run")
	rec.Assume("application-held = between the moment the library hands the message to application code (returned response, request in handler, notification in callback) and the application's own release/return")
	_ = bytes.Equal
}
