package c12

import (
	"bytes"
	"context"
	"fmt"
	"sync"
	"sync/atomic"
	"time"

	"github.com/plgd-dev/go-coap/v3/message/codes"
	"github.com/plgd-dev/go-coap/v3/message/pool"
	"github.com/plgd-dev/go-coap/v3/net/responsewriter"
	"github.com/plgd-dev/go-coap/v3/options/config"
	tcpclient "github.com/plgd-dev/go-coap/v3/tcp/client"
	udpclient "github.com/plgd-dev/go-coap/v3/udp/client"
	udpcoder "github.com/plgd-dev/go-coap/v3/udp/coder"

	"verifharness/ref"
	"verifharness/sim"
	"verifharness/vr"
)

type heldSnap struct {
	code  codes.Code
	token string
	path  string
	body  string
}

func (h heldSnap) String() string {
	return fmt.Sprintf("{code %v token %x path %q body %q}", h.code, h.token, h.path, h.body)
}

func snapOf(m *pool.Message) heldSnap {
	p, _ := m.Path()
	b, _ := m.ReadBody()
	return heldSnap{m.Code(), string(m.Token()), p, string(b)}
}

// heldAcrossClose: a message the application has taken over (hijacked inside a request handler or an observe callback,
// or received as the response of a call) stays the application's when the connection goes away - closed by the
// application itself from inside the handler, or closed between the hand-over and the end of the receive path. Nobody
// else may release or rewrite it: the tracker reports a release of a held message, and the content must be the same
// after the receive path has finished and other traffic has recycled pool objects.
func heldAcrossClose(rec *vr.Rec, reps int) {
	for rep := 0; rep < reps; rep++ {
		kind := []string{"udp", "tcp"}[rep%2]
		where := []string{"request-handler", "observe-callback", "response-of-a-call"}[(rep/2)%3]
		t0 := time.Now()
		c := map[string]any{"scenario": "application keeps a hijacked message and the connection is closed before the receive path has finished with it", "transport": kind, "held_in": where}
		var mu sync.Mutex
		var held *pool.Message
		var before heldSnap
		var finished atomic.Int32
		var closeConn func()
		take := func(m *pool.Message) {
			m.Hijack()
			pool.VerifHold(m, "message hijacked by the application, connection closed afterwards")
			mu.Lock()
			held, before = m, snapOf(m)
			mu.Unlock()
			closeConn()
		}
		var inject func(m ref.Msg)
		var sent func() []ref.Msg
		var observe func(ctx context.Context, cb func(*pool.Message)) error
		var get func(ctx context.Context) (*pool.Message, error)
		p := pool.New(4, 2048)
		if kind == "udp" {
			s := sim.NewMemSession()
			var cc *udpclient.Conn
			cc = sim.NewUDPConn(s, sim.UDPOpts{Pool: p,
				Mutate: func(cfg *udpclient.Config) {
					cfg.ProcessReceivedMessage = func(req *pool.Message, c *udpclient.Conn, h config.HandlerFunc[*udpclient.Conn]) {
						c.ProcessReceivedMessageWithHandler(req, h)
						finished.Add(1)
					}
				},
				Handler: func(w *responsewriter.ResponseWriter[*udpclient.Conn], r *pool.Message) {
					if where == "request-handler" && r.Code() == codes.POST {
						take(r)
					}
				}})
			closeConn = func() { _ = cc.Close() }
			inject = func(m ref.Msg) { _ = cc.Process(nil, ref.EncodeUDP(m)) }
			sent = func() []ref.Msg {
				var out []ref.Msg
				for _, d := range s.Log() {
					if m, err := ref.ParseUDP(d.Data); err == nil {
						out = append(out, m)
					}
				}
				return out
			}
			observe = func(ctx context.Context, cb func(*pool.Message)) error {
				_, err := cc.Observe(ctx, "/held", cb)
				return err
			}
			get = func(ctx context.Context) (*pool.Message, error) { return cc.Get(ctx, "/held") }
		} else {
			sc := sim.NewScriptConn()
			cc, err := sim.NewTCPConn(sc, sim.TCPOpts{Pool: p,
				Mutate: func(cfg *tcpclient.Config) {
					cfg.ProcessReceivedMessage = func(req *pool.Message, c *tcpclient.Conn, h config.HandlerFunc[*tcpclient.Conn]) {
						c.ProcessReceivedMessageWithHandler(req, h)
						finished.Add(1)
					}
				},
				Handler: func(w *responsewriter.ResponseWriter[*tcpclient.Conn], r *pool.Message) {
					if where == "request-handler" && r.Code() == codes.POST {
						take(r)
					}
				}})
			if err != nil {
				continue
			}
			closeConn = func() { _ = cc.Close() }
			inject = func(m ref.Msg) { sc.Feed(ref.EncodeTCP(m)) }
			sent = func() []ref.Msg { ms, _ := ref.ParseTCPStream(sc.Written()); return ms }
			observe = func(ctx context.Context, cb func(*pool.Message)) error {
				_, err := cc.Observe(ctx, "/held", cb)
				return err
			}
			get = func(ctx context.Context) (*pool.Message, error) { return cc.Get(ctx, "/held") }
		}
		payload := []byte(fmt.Sprintf("temperature=21.%d;%s", rep, bytes.Repeat([]byte{'k'}, 40)))
		waitReq := func(obs bool) (ref.Msg, bool) {
			var req ref.Msg
			ok := sim.WaitFor(5*time.Second, func() bool {
				for _, m := range sent() {
					_, has := m.GetUint(6)
					if m.Code == 1 && has == obs {
						req = m
						return true
					}
				}
				return false
			})
			return req, ok
		}
		callDone := make(chan struct{})
		switch where {
		case "request-handler":
			close(callDone)
			inject(ref.Msg{Type: 1, Code: 2, MID: 700, Token: []byte{7, byte(rep)}, Opts: []ref.Opt{{ID: 11, Val: []byte("held")}}, Payload: payload})
		case "observe-callback":
			go func() {
				defer close(callDone)
				ctx, cancel := context.WithTimeout(context.Background(), 5*time.Second)
				defer cancel()
				n := 0
				_ = observe(ctx, func(m *pool.Message) {
					n++
					if n == 2 {
						take(m)
					}
				})
			}()
			req, ok := waitReq(true)
			if !ok {
				rec.Inconclusive("held across close: observe request not seen")
				closeConn()
				<-callDone
				continue
			}
			inject(ref.Msg{Type: 2, Code: 0x45, MID: req.MID, Token: req.Token, Opts: []ref.Opt{{ID: 6, Val: ref.Uint(5)}}, Payload: []byte("first")})
			<-callDone
			inject(ref.Msg{Type: 1, Code: 0x45, MID: 701, Token: req.Token, Opts: []ref.Opt{{ID: 6, Val: ref.Uint(6)}}, Payload: payload})
		case "response-of-a-call":
			go func() {
				defer close(callDone)
				ctx, cancel := context.WithTimeout(context.Background(), 5*time.Second)
				defer cancel()
				m, err := get(ctx)
				if err == nil {
					// the caller owns the response now; it closes the connection straight away and keeps the message
					pool.VerifHold(m, "response returned from a call, connection closed afterwards")
					mu.Lock()
					held, before = m, snapOf(m)
					mu.Unlock()
					closeConn()
				}
			}()
			req, ok := waitReq(false)
			if !ok {
				rec.Inconclusive("held across close: get request not seen")
				closeConn()
				<-callDone
				continue
			}
			inject(ref.Msg{Type: 2, Code: 0x45, MID: req.MID, Token: req.Token, Payload: payload})
			<-callDone
		}
		// the receive path has finished with the message (or never will: the connection is closed)
		if kind == "udp" {
			sim.WaitFor(2*time.Second, func() bool { return finished.Load() >= 1 })
		} else {
			// (the stream connection does not go through the ProcessReceivedMessage option: nothing to observe, wait a moment)
			time.Sleep(20 * time.Millisecond)
		}
		time.Sleep(300 * time.Microsecond)
		// other users of the same pool recycle whatever was given back
		var others []*pool.Message
		for k := 0; k < 6; k++ {
			m := p.AcquireMessage(context.Background())
			m.SetCode(codes.DELETE)
			m.SetToken([]byte{0xde, 0xad, byte(k)})
			_ = m.SetPath("/somebody/else")
			m.SetBody(bytes.NewReader([]byte("somebody else's body")))
			_, _ = m.MarshalWithEncoder(udpcoder.DefaultCoder)
			others = append(others, m)
		}
		mu.Lock()
		h, b := held, before
		mu.Unlock()
		rec.Max("held_case_max_ms_"+kind+"_"+where, time.Since(t0).Milliseconds())
		rec.Eval(fmt.Sprintf("held-across-close|%s|%s|%d", kind, where, rep))
		rec.Count("held_across_close_cases", 1)
		if h == nil {
			rec.Count("held_across_close_nothing_taken", 1)
			closeConn()
			for _, m := range others {
				p.ReleaseMessage(m)
			}
			continue
		}
		after := snapOf(h)
		if after != b {
			rec.Violation("C12/"+kind+"/held-message-changed-after-close", fmt.Sprintf("taken over in the %s as %s; after the connection was closed and the receive path had finished it reads %s", where, b, after), c)
		} else {
			rec.Count("held_messages_intact_after_close", 1)
		}
		pool.VerifUnhold(h)
		p.ReleaseMessage(h)
		for _, m := range others {
			p.ReleaseMessage(m)
		}
	}
}

var _ = vr.Seed

// blockPastEnd: error paths give messages back too - once. A peer asks (Block2) for a block that lies beyond the end of
// the body a handler serves, as the first request or as the continuation of a running download, on a datagram and on a
// stream connection; the connection answers with an error. Afterwards the pool is drained: no object may come out of it
// twice, and the lifecycle tracker must not have seen a second release.
func blockPastEnd(rec *vr.Rec, reps int) {
	for rep := 0; rep < reps; rep++ {
		kind := []string{"udp", "tcp"}[rep%2]
		continuation := (rep/2)%2 == 1
		size := []int{100, 1000, 3000}[(rep/4)%3]
		szx := rep % 3 // 16, 32, 64
		bs := 16 << uint(szx)
		beyond := size/bs + 1 + rep%3
		c := map[string]any{"scenario": "Block2 request for a block beyond the end of the body", "transport": kind, "body_bytes": size, "block_size": bs, "requested_block": beyond, "as_continuation": continuation}
		p := pool.New(64, 2048)
		body := bytes.Repeat([]byte{'z'}, size)
		var inject func(m ref.Msg)
		var nsent func() int
		var closef func()
		if kind == "udp" {
			s := sim.NewMemSession()
			cc := sim.NewUDPConn(s, sim.UDPOpts{Pool: p, Blockwise: true, SZX: 6, BWTimeout: 3 * time.Second, Handler: func(w *responsewriter.ResponseWriter[*udpclient.Conn], r *pool.Message) {
				_ = w.SetResponse(codes.Content, 0, bytes.NewReader(body))
			}})
			inject = func(m ref.Msg) { _ = cc.Process(nil, ref.EncodeUDP(m)) }
			nsent = func() int { return len(s.Log()) }
			closef = func() { _ = cc.Close() }
		} else {
			sc := sim.NewScriptConn()
			cc, err := sim.NewTCPConn(sc, sim.TCPOpts{Pool: p, Mutate: func(cfg *tcpclient.Config) { cfg.BlockwiseEnable = true; cfg.BlockwiseSZX = 6 }, Handler: func(w *responsewriter.ResponseWriter[*tcpclient.Conn], r *pool.Message) {
				_ = w.SetResponse(codes.Content, 0, bytes.NewReader(body))
			}})
			if err != nil {
				continue
			}
			inject = func(m ref.Msg) { sc.Feed(ref.EncodeTCP(m)) }
			nsent = func() int { ms, _ := ref.ParseTCPStream(sc.Written()); return len(ms) }
			closef = func() { _ = cc.Close() }
			sim.AnnounceBlockwise(sc, cc, ref.EncodeTCP(ref.Msg{Code: 7<<5 | 1, Opts: []ref.Opt{{ID: 2, Val: ref.Uint(1152)}, {ID: 4, Val: nil}}}))
		}
		tok := []byte{0x12, byte(rep), 0xbe}
		ask := func(mid uint16, num int) {
			before := nsent()
			inject(ref.Msg{Type: 0, Code: 1, MID: mid, Token: tok, Opts: []ref.Opt{{ID: 11, Val: []byte("big")}, {ID: 23, Val: ref.Uint(uint32(num<<4 | szx))}}})
			if !sim.WaitFor(300*time.Millisecond, func() bool { return nsent() > before }) {
				rec.Count("block_past_end_requests_without_reply_"+kind, 1)
			}
		}
		if continuation {
			ask(900, 0)
		}
		ask(901, beyond)
		time.Sleep(300 * time.Microsecond)
		closef()
		time.Sleep(300 * time.Microsecond)
		// drain the pool: every object at most once
		seen := map[*pool.Message]int{}
		var drained []*pool.Message
		for k := 0; k < 200; k++ {
			m := p.AcquireMessage(context.Background())
			seen[m]++
			drained = append(drained, m)
		}
		twice := 0
		for _, n := range seen {
			if n > 1 {
				twice++
			}
		}
		for m := range seen {
			p.ReleaseMessage(m)
		}
		_ = drained
		rec.Eval(fmt.Sprintf("block-past-end|%s|%d|%d|%d|%v", kind, size, bs, beyond, continuation))
		rec.Count("block_past_end_cases", 1)
		if twice > 0 {
			rec.Violation("C12/"+kind+"/blockwise/pool-hands-one-message-to-two-owners", fmt.Sprintf("after an out-of-range Block2 request was refused, draining the pool returned %d object(s) more than once", twice), c)
		}
	}
}

// cancelDuringContinuation: a block-wise download is cancelled by its caller at the very moment the next block of the
// response is being handled. The caller's request message goes back to the pool with the end of the call; the receive
// path, which builds the request for the following block from it, must never see it in that state. Every request the
// connection puts on the wire is a GET for a path some caller asked for, under that caller's token - not the encoding of
// a recycled object.
func cancelDuringContinuation(rec *vr.Rec, reps int) {
	p := pool.New(2, 2048)
	s := sim.NewMemSession()
	cc := sim.NewUDPConn(s, sim.UDPOpts{Pool: p, Blockwise: true, SZX: 0, BWTimeout: 3 * time.Second})
	defer cc.Close()
	inject := func(m ref.Msg) { _ = cc.Process(nil, ref.EncodeUDP(m)) }
	asked := map[string]string{} // token -> path
	seen := 0
	for rep := 0; rep < reps; rep++ {
		path := fmt.Sprintf("/big/%d", rep)
		tok := []byte{0xcd, byte(rep >> 8), byte(rep)}
		asked[string(tok)] = path
		ctx, cancel := context.WithCancel(context.Background())
		done := make(chan struct{})
		go func() {
			defer close(done)
			req := cc.AcquireMessage(ctx)
			_ = req.SetupGet(path, tok)
			resp, err := cc.Do(req)
			cc.ReleaseMessage(req)
			if err == nil {
				cc.ReleaseMessage(resp)
			}
			// the pool is small: whatever was released is re-used at once by somebody else
			o := cc.AcquireMessage(context.Background())
			o.SetCode(codes.DELETE)
			_ = o.SetPath("/other/exchange")
			o.SetToken([]byte{0x0f, 0x0f})
			cc.ReleaseMessage(o)
		}()
		var first ref.Msg
		if !sim.WaitFor(3*time.Second, func() bool {
			log := s.Log()
			for ; seen < len(log); seen++ {
				if m, err := ref.ParseUDP(log[seen].Data); err == nil && m.Code == 1 && bytes.Equal(m.Token, tok) {
					first = m
					seen++
					return true
				}
			}
			return false
		}) {
			cancel()
			<-done
			continue
		}
		var start sync.WaitGroup
		start.Add(1)
		go func() { start.Wait(); cancel() }()
		start.Done()
		if rep%2 == 0 {
			time.Sleep(time.Duration(rep%7) * 5 * time.Microsecond)
		}
		inject(ref.Msg{Type: 2, Code: 0x45, MID: first.MID, Token: tok, Opts: []ref.Opt{{ID: 23, Val: ref.Uint(8)}}, Payload: bytes.Repeat([]byte{'q'}, 16)})
		<-done
		cancel()
	}
	time.Sleep(500 * time.Microsecond)
	rec.Eval("cancel-during-continuation")
	rec.Count("downloads_cancelled_while_a_block_arrived", int64(reps))
	bad := 0
	for _, d := range s.Log() {
		m, err := ref.ParseUDP(d.Data)
		if err != nil {
			rec.Violation("C12/udp/blockwise/garbage-on-the-wire", fmt.Sprintf("%x: %v", d.Data, err), nil)
			bad++
		} else if m.Code >= 1 && m.Code <= 31 { // a request of the connection (it may also send 4.08 answers to blocks of transfers it has dropped)
			want, ok := asked[string(m.Token)]
			if m.Code != 1 || !ok || ref.PathOf(m) != want {
				rec.Violation("C12/udp/blockwise/continuation-built-from-a-message-it-no-longer-owns", fmt.Sprintf("on the wire: code %d.%02d token %x path %q; callers only issued GETs for /big/<n> under tokens cd....", m.Code>>5, m.Code&31, m.Token, ref.PathOf(m)), nil)
				bad++
			}
		}
		if bad > 3 {
			break
		}
	}
}
