package c12

import (
	"fmt"
	"sync"
	"sync/atomic"
	"time"

	"github.com/plgd-dev/go-coap/v3/message/pool"
	udpclient "github.com/plgd-dev/go-coap/v3/udp/client"

	"verifharness/ref"
	"verifharness/sim"
	"verifharness/vr"
)

// slowPingWrite: the message of an outgoing ping belongs to the goroutine that is writing it until the write has
// returned. The write is made slow (the session's write blocks before it encodes the message); meanwhile the connection
// gives up on the ping - housekeeping at a virtual time beyond all retransmissions, or a reset from the peer that carries
// the ping's message ID (the peer has seen an earlier datagram with that ID, or guesses), or the application cancels the
// ping. What the slow write then puts on the wire must still be the ping that was asked for: an empty confirmable
// message with the allocated ID - not the encoding of a message that was handed back to the pool in the meantime.
func slowPingWrite(rec *vr.Rec, reps int) {
	for rep := 0; rep < reps; rep++ {
		how := []string{"housekeeping-gives-up", "peer-reset-with-the-ping-id", "pong-cancelled-by-second-ping"}[rep%3]
		c := map[string]any{"scenario": "ping whose write is slow", "meanwhile": how}
		s := sim.NewMemSession()
		var armed atomic.Bool
		entered := make(chan int32, 1)
		release := make(chan struct{})
		var once sync.Once
		s.BeforeWrite = func(req *pool.Message) {
			if armed.CompareAndSwap(true, false) {
				entered <- req.MessageID() // read while the message certainly still belongs to the writer
				<-release
			}
		}
		cc := sim.NewUDPConn(s, sim.UDPOpts{Mutate: func(cfg *udpclient.Config) {
			cfg.GetMID = func() int32 { return int32(20000 + rep) }
			cfg.TransmissionMaxRetransmit = 1
			cfg.TransmissionAcknowledgeTimeout = 2 * time.Second
		}})
		armed.Store(true)
		type res struct {
			cancel func()
			err    error
		}
		done := make(chan res, 1)
		var pongs atomic.Int32
		go func() {
			cancel, err := cc.AsyncPing(func() { pongs.Add(1) })
			done <- res{cancel, err}
		}()
		var mid int32
		select {
		case mid = <-entered:
		case <-time.After(10 * time.Second):
			rec.Inconclusive("slow ping write: the write was never started")
			once.Do(func() { close(release) })
			_ = cc.Close()
			continue
		}
		switch how {
		case "housekeeping-gives-up":
			// first sweep retransmits (a copy), second finds the retransmissions used up
			cc.CheckExpirations(time.Now().Add(time.Hour))
			cc.CheckExpirations(time.Now().Add(2 * time.Hour))
		case "peer-reset-with-the-ping-id":
			_ = cc.Process(nil, ref.EncodeUDP(ref.Msg{Type: 3, Code: 0, MID: uint16(mid)}))
		case "pong-cancelled-by-second-ping":
			// what keep-alive does with a superseded ping: a message with the same ID acknowledges it
			_ = cc.Process(nil, ref.EncodeUDP(ref.Msg{Type: 2, Code: 0, MID: uint16(mid)}))
		}
		// some other traffic re-uses pool objects meanwhile
		for k := 0; k < 4; k++ {
			_ = cc.Process(nil, ref.EncodeUDP(ref.Msg{Type: 1, Code: 1, MID: uint16(30000 + k), Token: []byte{byte(k), 9}, Opts: []ref.Opt{{ID: 11, Val: []byte("filler-path-segment")}}, Payload: []byte("filler")}))
		}
		// all of it answered before the slow write goes on: what appears in the log afterwards is the slow write's alone
		if !sim.WaitFor(10*time.Second, func() bool {
			n := 0
			for _, d := range s.Log() {
				if m, err := ref.ParseUDP(d.Data); err == nil && len(m.Token) == 2 && m.Token[1] == 9 {
					n++
				}
			}
			return n >= 4
		}) {
			rec.Inconclusive("slow ping write: filler requests not answered")
		}
		before := len(s.Log())
		once.Do(func() { close(release) })
		var r res
		select {
		case r = <-done:
		case <-time.After(10 * time.Second):
			rec.Violation("C12/ping/slow-write/does-not-return", "AsyncPing did not return after its write was let go", c)
			_ = cc.Close()
			continue
		}
		rec.Eval(fmt.Sprintf("slow-ping|%s|%d", how, rep))
		rec.Count("slow_ping_writes_"+how, 1)
		log := s.Log()
		var last []byte
		if len(log) > before {
			last = log[before].Data
		}
		switch {
		case r.err != nil:
			// the slow write found a message it cannot encode any more
			rec.Violation("C12/ping/slow-write/message-taken-away-under-the-writer", fmt.Sprintf("AsyncPing failed: %v (the message was still being written when the connection released it)", r.err), c)
		case last == nil:
			rec.Violation("C12/ping/slow-write/nothing-written", "AsyncPing returned nil but the slow write produced no datagram", c)
		default:
			m, err := ref.ParseUDP(last)
			if err != nil || m.Type != 0 || m.Code != 0 || m.MID != uint16(mid) || len(m.Token) != 0 || len(m.Opts) != 0 || len(m.Payload) != 0 {
				rec.Violation("C12/ping/slow-write/message-taken-away-under-the-writer", fmt.Sprintf("the slow write put %x on the wire; asked for: empty confirmable message with ID %d (parse: %+v, %v)", last, mid, m, err), c)
			} else {
				rec.Count("slow_ping_writes_intact", 1)
			}
		}
		if r.cancel != nil {
			r.cancel()
		}
		_ = cc.Close()
	}
}
