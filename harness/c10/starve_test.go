package c10

import (
	"bytes"
	"fmt"
	"net"
	"sync"
	"sync/atomic"
	"time"

	"github.com/plgd-dev/go-coap/v3/message"
	"github.com/plgd-dev/go-coap/v3/message/codes"
	"github.com/plgd-dev/go-coap/v3/mux"
	"github.com/plgd-dev/go-coap/v3/options"
	udpclient "github.com/plgd-dev/go-coap/v3/udp/client"

	"verifharness/netenv"
	"verifharness/ref"
	"verifharness/vr"
)

// housekeepingStarvation: what hostile peers leave behind must not take the server's housekeeping away from the others. A
// udp server with an inactivity monitor (period 300 ms, housekeeping every 40 ms) gets a steady stream of garbage
// datagrams from ever new source ports - each makes a connection that fails to decode and is closed. One good peer does a
// single request and then goes silent: its connection must be expired like on a quiet server (bounded progress: within
// 5 s, more than ten periods; typically 350 ms), i.e. every tick still reaches every connection.
func housekeepingStarvation(rec *vr.Rec, reps int) {
	for rep := 0; rep < reps; rep++ {
		garbageSenders := 1 + rep%3
		c := map[string]any{"scenario": "garbage from ever new source ports while a good peer goes idle", "transport": "udp", "garbage_senders": garbageSenders, "inactivity_period": "300ms"}
		var mu sync.Mutex
		closedAt := map[string]time.Time{}
		r := mux.NewRouter()
		_ = r.Handle("/echo", mux.HandlerFunc(func(w mux.ResponseWriter, m *mux.Message) {
			body, _ := m.ReadBody()
			_ = w.SetResponse(codes.Content, message.TextPlain, bytes.NewReader(append([]byte("echo:"), body...)))
		}))
		so := netenv.ServerOpts{Router: r}
		so.Udp = append(so.Udp,
			options.WithInactivityMonitor(300*time.Millisecond, func(cc *udpclient.Conn) { _ = cc.Close() }),
			options.WithPeriodicRunner(func(f func(now time.Time) bool) {
				go func() {
					for f(time.Now()) {
						time.Sleep(40 * time.Millisecond)
					}
				}()
			}),
			options.WithOnNewConn(func(cc *udpclient.Conn) {
				a := cc.RemoteAddr().String()
				cc.AddOnClose(func() {
					mu.Lock()
					closedAt[a] = time.Now()
					mu.Unlock()
				})
			}))
		srv, err := netenv.Start("udp", so)
		if err != nil {
			rec.Inconclusive("housekeeping starvation: " + err.Error())
			return
		}
		stop := make(chan struct{})
		var gwg sync.WaitGroup
		var garbage atomic.Int64
		for g := 0; g < garbageSenders; g++ {
			gwg.Add(1)
			go func(g int) {
				defer gwg.Done()
				for {
					select {
					case <-stop:
						return
					default:
					}
					if pc, derr := net.Dial("udp4", srv.Addr); derr == nil {
						_, _ = pc.Write([]byte{0xff, byte(g), 0x01})
						_ = pc.Close()
						garbage.Add(1)
					}
					time.Sleep(4 * time.Millisecond)
				}
			}(g)
		}
		time.Sleep(100 * time.Millisecond)
		good, derr := net.Dial("udp4", srv.Addr)
		if derr != nil {
			rec.Inconclusive("housekeeping starvation: dial")
			close(stop)
			gwg.Wait()
			srv.Stop()
			continue
		}
		answered := false
		for try := 0; try < 5 && !answered; try++ {
			_, _ = good.Write(ref.EncodeUDP(ref.Msg{Type: 0, Code: 2, MID: uint16(100 + try), Token: []byte{0x60, byte(rep)}, Opts: []ref.Opt{{ID: 11, Val: []byte("echo")}}, Payload: []byte("x")}))
			buf := make([]byte, 256)
			_ = good.SetReadDeadline(time.Now().Add(500 * time.Millisecond))
			if n, rerr := good.Read(buf); rerr == nil {
				if m, perr := ref.ParseUDP(buf[:n]); perr == nil && m.Code == 0x45 {
					answered = true
				}
			}
		}
		last := time.Now()
		goodAddr := good.LocalAddr().String()
		rec.Eval(fmt.Sprintf("starvation|%d|%d", garbageSenders, rep))
		rec.Count("housekeeping_starvation_cases", 1)
		if !answered {
			rec.Count("housekeeping_starvation_good_peer_not_answered", 1)
		} else {
			expired := func() bool { mu.Lock(); defer mu.Unlock(); _, ok := closedAt[goodAddr]; return ok }
			deadline := time.Now().Add(5 * time.Second)
			for !expired() && time.Now().Before(deadline) {
				time.Sleep(10 * time.Millisecond)
			}
			if !expired() {
				rec.Violation("C10/udp/housekeeping-starved-by-closed-connections", fmt.Sprintf("a good peer went silent after one request; with a 300 ms inactivity period and 40 ms ticks its connection was still not expired 5 s later, while %d garbage datagrams from new source ports had arrived", garbage.Load()), c)
			} else {
				mu.Lock()
				rec.Max("idle_good_peer_expired_after_ms_max", closedAt[goodAddr].Sub(last).Milliseconds())
				mu.Unlock()
				rec.Count("idle_good_peers_expired_under_garbage", 1)
			}
		}
		rec.Count("garbage_datagrams_from_new_ports", garbage.Load())
		close(stop)
		gwg.Wait()
		_ = good.Close()
		srv.Stop()
		select {
		case <-srv.Served:
		case <-time.After(10 * time.Second):
		}
	}
}

var _ = vr.Seed

// burstOrder: requests of ONE peer are handled in the order they arrived - also when that peer sends a burst while its
// handler is still busy with the first one and more datagrams are outstanding than the connection's receive queue holds.
// (Loss is allowed on a datagram socket; what was handled must be in increasing order.)
func burstOrder(rec *vr.Rec, reps int) {
	for rep := 0; rep < reps; rep++ {
		n := 60 + 70*(rep%8)
		c := map[string]any{"scenario": "burst of one peer while its handler is busy", "transport": "udp", "datagrams": n}
		gate := make(chan struct{})
		var once sync.Once
		var mu sync.Mutex
		var order []int
		r := mux.NewRouter()
		_ = r.Handle("/seq", mux.HandlerFunc(func(w mux.ResponseWriter, m *mux.Message) {
			tok := m.Token()
			if len(tok) != 2 {
				return
			}
			k := int(tok[0])<<8 | int(tok[1])
			if k == 0 {
				<-gate
			}
			mu.Lock()
			order = append(order, k)
			mu.Unlock()
		}))
		srv, err := netenv.Start("udp", netenv.ServerOpts{Router: r})
		if err != nil {
			rec.Inconclusive("burst order: " + err.Error())
			return
		}
		pc, derr := net.Dial("udp4", srv.Addr)
		if derr != nil {
			srv.Stop()
			continue
		}
		for k := 0; k < n; k++ {
			_, _ = pc.Write(ref.EncodeUDP(ref.Msg{Type: 1, Code: 1, MID: uint16(1000 + k), Token: []byte{byte(k >> 8), byte(k)}, Opts: []ref.Opt{{ID: 11, Val: []byte("seq")}}}))
			if k == 0 {
				time.Sleep(20 * time.Millisecond) // the first one is in its handler before the burst starts
			}
		}
		time.Sleep(100 * time.Millisecond)
		once.Do(func() { close(gate) })
		// everything that is going to be handled has been handled when the count stops growing
		last, stable := -1, 0
		for i := 0; i < 400 && stable < 10; i++ {
			time.Sleep(10 * time.Millisecond)
			mu.Lock()
			cur := len(order)
			mu.Unlock()
			if cur == last {
				stable++
			} else {
				last, stable = cur, 0
			}
		}
		mu.Lock()
		got := append([]int(nil), order...)
		mu.Unlock()
		rec.Eval(fmt.Sprintf("burst-order|%d|%d", n, rep))
		rec.Count("burst_order_cases", 1)
		rec.Count("burst_requests_handled", int64(len(got)))
		for i := 1; i < len(got); i++ {
			if got[i] <= got[i-1] {
				lo := i - 3
				if lo < 0 {
					lo = 0
				}
				hi := i + 3
				if hi > len(got) {
					hi = len(got)
				}
				rec.Violation("C10/udp/peer-requests-handled-out-of-arrival-order", fmt.Sprintf("request %d was handled after request %d (handled so far: %d of %d sent; around the inversion: %v)", got[i], got[i-1], len(got), n, got[lo:hi]), c)
				break
			}
		}
		_ = pc.Close()
		srv.Stop()
		select {
		case <-srv.Served:
		case <-time.After(10 * time.Second):
		}
	}
}
