package c10

import (
	"bytes"
	"context"
	"fmt"
	"net"
	"sync"
	"sync/atomic"
	"time"

	"github.com/plgd-dev/go-coap/v3/message"
	"github.com/plgd-dev/go-coap/v3/message/codes"
	"github.com/plgd-dev/go-coap/v3/mux"
	coapNet "github.com/plgd-dev/go-coap/v3/net"
	"github.com/plgd-dev/go-coap/v3/options"
	"github.com/plgd-dev/go-coap/v3/udp"
	udpclient "github.com/plgd-dev/go-coap/v3/udp/client"

	"verifharness/vr"
)

// serverInitiated: a udp server opens connections towards peers itself (Server.NewConn) - the peers being other udp
// servers - and talks to them while ordinary clients use the same server. One logical connection per (remote, local) pair:
// the peer's answers must reach the connection that asked (whatever byte form the caller used for the peer's address),
// nothing may land in the server's ordinary handler, and OnNewConn fires once per peer.
func serverInitiated(rec *vr.Rec, reps int) {
	for rep := 0; rep < reps; rep++ {
		form := []string{"4-byte", "16-byte net.IPv4", "net.ResolveUDPAddr", "ParseIP"}[rep%4]
		listen := []string{"127.0.0.1:0", "0.0.0.0:0"}[(rep/4)%2]
		c := map[string]any{"scenario": "server-initiated-connection", "peer_address_form": form, "server_listens_on": listen}
		// the peer: an ordinary udp server answering /echo
		pr := mux.NewRouter()
		_ = pr.Handle("/echo", mux.HandlerFunc(func(w mux.ResponseWriter, m *mux.Message) {
			body, _ := m.ReadBody()
			_ = w.SetResponse(codes.Content, message.TextPlain, bytes.NewReader(append([]byte("echo:"), body...)))
		}))
		pl, err := coapNet.NewListenUDP("udp4", "127.0.0.1:0")
		if err != nil {
			rec.Inconclusive("server-initiated: " + err.Error())
			return
		}
		peer := udp.NewServer(options.WithMux(pr))
		peerDone := make(chan struct{})
		go func() { _ = peer.Serve(pl); close(peerDone) }()
		// the server under observation
		var stray atomic.Int32
		var newConns sync.Map // remote -> count
		sr := mux.NewRouter()
		sr.DefaultHandle(mux.HandlerFunc(func(w mux.ResponseWriter, m *mux.Message) {
			if m.Code() >= codes.Created {
				stray.Add(1)
			}
		}))
		_ = sr.Handle("/echo", mux.HandlerFunc(func(w mux.ResponseWriter, m *mux.Message) {
			_ = w.SetResponse(codes.Content, message.TextPlain, bytes.NewReader([]byte("srv")))
		}))
		sl, err := coapNet.NewListenUDP("udp4", listen)
		if err != nil {
			rec.Inconclusive("server-initiated: " + err.Error())
			peer.Stop()
			_ = pl.Close()
			return
		}
		srv := udp.NewServer(options.WithMux(sr), options.WithOnNewConn(func(cc *udpclient.Conn) {
			k := cc.RemoteAddr().String()
			v, _ := newConns.LoadOrStore(k, new(atomic.Int32))
			v.(*atomic.Int32).Add(1)
		}))
		srvDone := make(chan struct{})
		go func() { _ = srv.Serve(sl); close(srvDone) }()
		time.Sleep(5 * time.Millisecond)
		pa := pl.LocalAddr().(*net.UDPAddr)
		var target *net.UDPAddr
		switch form {
		case "4-byte":
			target = &net.UDPAddr{IP: pa.IP.To4(), Port: pa.Port}
		case "16-byte net.IPv4":
			target = &net.UDPAddr{IP: net.IPv4(127, 0, 0, 1), Port: pa.Port}
		case "net.ResolveUDPAddr":
			target, _ = net.ResolveUDPAddr("udp", fmt.Sprintf("127.0.0.1:%d", pa.Port))
		default:
			target = &net.UDPAddr{IP: net.ParseIP("127.0.0.1"), Port: pa.Port}
		}
		rec.Eval(fmt.Sprintf("newconn|%s|%s|%d", form, listen, rep))
		rec.Count("server_initiated_cases", 1)
		cc, err := srv.NewConn(target)
		if err != nil {
			rec.Violation("C10/udp/server-initiated/newconn-failed", err.Error(), c)
		} else {
			okN := 0
			for i := 0; i < 3; i++ {
				ctx, cancel := context.WithTimeout(context.Background(), 5*time.Second)
				resp, err := cc.Post(ctx, "/echo", message.TextPlain, bytes.NewReader([]byte(fmt.Sprintf("n%d", i))))
				cancel()
				if err != nil {
					rec.Violation("C10/udp/server-initiated/request-not-answered", fmt.Sprintf("request %d over a connection the server opened itself (peer address given as %s): %v; responses that reached the server's ordinary handler instead: %d", i, form, err, stray.Load()), c)
					break
				}
				b, _ := resp.ReadBody()
				cc.ReleaseMessage(resp)
				if string(b) != fmt.Sprintf("echo:n%d", i) {
					rec.Violation("C10/udp/server-initiated/foreign-response", fmt.Sprintf("got %q", b), c)
					break
				}
				okN++
			}
			if okN == 3 {
				if n := stray.Load(); n != 0 {
					rec.Violation("C10/udp/server-initiated/response-reached-ordinary-handler", fmt.Sprintf("%d", n), c)
				}
				cnt := 0
				newConns.Range(func(k, v any) bool { cnt += int(v.(*atomic.Int32).Load()); return true })
				if cnt != 1 {
					rec.Violation("C10/udp/server-initiated/connections-for-one-peer", fmt.Sprintf("OnNewConn fired %d times for one (remote, local) pair", cnt), c)
				} else {
					rec.Count("server_initiated_connections_ok", 1)
				}
			}
			_ = cc.Close()
		}
		srv.Stop()
		peer.Stop()
		for _, ch := range []chan struct{}{srvDone, peerDone} {
			select {
			case <-ch:
			case <-time.After(10 * time.Second):
				rec.Violation("C10/udp/serve-does-not-return-after-stop", "server-initiated part", c)
			}
		}
		_ = sl.Close()
		_ = pl.Close()
	}
}

var _ = vr.Seed
