package c10

import (
	"bytes"
	"context"
	"crypto/tls"
	"fmt"
	"math/rand"
	"net"
	"strings"
	"sync/atomic"
	"time"

	"github.com/plgd-dev/go-coap/v3/message"
	"github.com/plgd-dev/go-coap/v3/message/codes"
	"github.com/plgd-dev/go-coap/v3/mux"

	"verifharness/netenv"
	"verifharness/vr"
)

// stallProbe: one or more peers connect to a stream server and then hold their connection open without completing whatever
// comes first on that transport (TLS handshake, first frame). While they hold, a well-behaved client must be able to connect
// and be served. The verdict is causal, not a deadline: a good client that is still not served after a generous watchdog
// AND is served right after the stalled peers were disconnected was waiting for those peers.
func stallProbe(rec *vr.Rec, kind string, reps int, seed int64) {
	rnd := rand.New(rand.NewSource(seed*7331 + int64(len(kind))))
	for rep := 0; rep < reps; rep++ {
		nStall := 1 + rnd.Intn(3)
		mode := rnd.Intn(4)
		modeName := []string{"no bytes at all", "first bytes of a TLS record header", "first bytes of a CoAP frame", "half of a TLS ClientHello-looking record"}[mode]
		c := map[string]any{"scenario": "stalled-peer-vs-new-client", "transport": kind, "stalled_peers": nStall, "stalled_peer_sends": modeName}
		r := mux.NewRouter()
		_ = r.Handle("/echo", mux.HandlerFunc(func(w mux.ResponseWriter, m *mux.Message) {
			body, _ := m.ReadBody()
			_ = w.SetResponse(codes.Content, message.TextPlain, bytes.NewReader(append([]byte("echo:"), body...)))
		}))
		srv, err := netenv.Start(kind, netenv.ServerOpts{Router: r})
		if err != nil {
			rec.Inconclusive("cannot start " + kind + " server: " + err.Error())
			return
		}
		once := func(tag string) error {
			cc, err := srv.Dial(netenv.ClientOpts{})
			if err != nil {
				return err
			}
			defer cc.Close()
			ctx, cancel := context.WithTimeout(context.Background(), 30*time.Second)
			defer cancel()
			resp, err := cc.Post(ctx, "/echo", message.TextPlain, bytes.NewReader([]byte(tag)))
			if err == nil {
				b, _ := resp.ReadBody()
				if string(b) != "echo:"+tag {
					err = fmt.Errorf("foreign response %q", b)
				}
				cc.ReleaseMessage(resp)
			}
			return err
		}
		var attempts atomic.Int64
		giveUp := make(chan struct{})
		// serve: a client that keeps trying (the dialer has a timeout of its own) until it was served or told to give up
		serve := func(tag string) chan error {
			ch := make(chan error, 1)
			go func() {
				for {
					attempts.Add(1)
					err := once(tag)
					if err == nil || strings.Contains(err.Error(), "foreign response") {
						ch <- err
						return
					}
					select {
					case <-giveUp:
						ch <- err
						return
					case <-time.After(5 * time.Millisecond):
					}
				}
			}()
			return ch
		}
		// a first client proves the server works
		select {
		case err := <-serve("first"):
			if err != nil {
				rec.Inconclusive("stall probe: first client failed: " + err.Error())
				close(giveUp)
				srv.Stop()
				continue
			}
		case <-time.After(20 * time.Second):
			rec.Inconclusive("stall probe: first client not served within the watchdog")
			close(giveUp)
			srv.Stop()
			continue
		}
		var stalled []net.Conn
		for i := 0; i < nStall; i++ {
			sc, err := net.DialTimeout("tcp4", srv.Addr, 2*time.Second)
			if err != nil {
				continue
			}
			switch mode {
			case 1:
				_, _ = sc.Write([]byte{22, 3, 1}[:1+rnd.Intn(3)])
			case 2:
				_, _ = sc.Write([]byte{0xd2, 0x20})
			case 3:
				_, _ = sc.Write(append([]byte{22, 3, 1, 0, 200, 1, 0, 0, 196, 3, 3}, make([]byte, 60)...))
			}
			stalled = append(stalled, sc)
		}
		time.Sleep(30 * time.Millisecond) // let the server accept them
		rec.Eval(fmt.Sprintf("stall|%s|%d|%d|%d", kind, nStall, mode, rep))
		rec.Count("stall_probes_"+kind, 1)
		t0 := time.Now()
		done := serve("second")
		var res error
		blocked := false
		select {
		case res = <-done:
		case <-time.After(6 * time.Second):
			blocked = true
		}
		for _, sc := range stalled {
			_ = sc.Close()
		}
		if blocked {
			select {
			case res = <-done:
				rec.Violation("C10/"+kind+"/new-client-waits-for-stalled-peer", fmt.Sprintf("with %d peer(s) connected and silent (%s) a well-behaved client was not served for 6 s (%d connection attempts); it was served %v after those peers were disconnected", len(stalled), modeName, attempts.Load(), time.Since(t0)-6*time.Second), c)
				_ = res
			case <-time.After(20 * time.Second):
				rec.Inconclusive("stall probe: second client not served even after the stalled peers were disconnected")
			}
		} else if res != nil {
			rec.Violation("C10/"+kind+"/good-client-request-failed", fmt.Sprintf("while %d peer(s) were connected and silent: %v", len(stalled), res), c)
		} else {
			rec.Count("clients_served_while_peers_stalled_"+kind, 1)
		}
		close(giveUp)
		srv.Stop()
		select {
		case <-srv.Served:
		case <-time.After(10 * time.Second):
			rec.Violation("C10/"+kind+"/serve-does-not-return-after-stop", "after the stall probe", c)
		}
	}
}

var _ = vr.Seed

// oversizeAnnouncer: a stream peer announces a frame far larger than the server's maximum message size, sends a little of
// its body and goes silent. The fault is this peer's alone: the server must get rid of it on the header (its connection
// is closed) instead of keeping it - and whatever it trickles - around; everybody else is served meanwhile.
func oversizeAnnouncer(rec *vr.Rec, kind string, reps int) {
	for rep := 0; rep < reps; rep++ {
		c := map[string]any{"scenario": "peer announces an oversize frame and stalls", "transport": kind}
		r := mux.NewRouter()
		_ = r.Handle("/echo", mux.HandlerFunc(func(w mux.ResponseWriter, m *mux.Message) {
			body, _ := m.ReadBody()
			_ = w.SetResponse(codes.Content, message.TextPlain, bytes.NewReader(append([]byte("echo:"), body...)))
		}))
		srv, err := netenv.Start(kind, netenv.ServerOpts{Router: r})
		if err != nil {
			rec.Inconclusive("cannot start " + kind + " server: " + err.Error())
			return
		}
		var sc net.Conn
		if kind == "tls" {
			sc, err = tls.DialWithDialer(&net.Dialer{Timeout: 5 * time.Second}, "tcp4", srv.Addr, srv.ClientTLS())
		} else {
			sc, err = net.DialTimeout("tcp4", srv.Addr, 5*time.Second)
		}
		if err != nil {
			rec.Inconclusive("oversize announcer: cannot connect: " + err.Error())
			srv.Stop()
			continue
		}
		ext := uint32(64<<20 + rep*1000)
		_, _ = sc.Write([]byte{0xf1, byte(ext >> 24), byte(ext >> 16), byte(ext >> 8), byte(ext), 0x02, 0x77})
		_, _ = sc.Write(make([]byte, 4096+rep*512))
		rec.Eval(fmt.Sprintf("oversize-announcer|%s|%d", kind, rep))
		rec.Count("oversize_announcer_cases_"+kind, 1)
		// the server closes this connection: the raw peer sees EOF / an error (after the server's own CSM bytes)
		closed := false
		deadline := time.Now().Add(6 * time.Second)
		buf := make([]byte, 512)
		for time.Now().Before(deadline) {
			_ = sc.SetReadDeadline(time.Now().Add(500 * time.Millisecond))
			_, rerr := sc.Read(buf)
			if rerr != nil {
				if ne, ok := rerr.(net.Error); ok && ne.Timeout() {
					continue
				}
				closed = true
				break
			}
		}
		if !closed {
			rec.Violation("C10/"+kind+"/oversize-announcing-peer-kept", fmt.Sprintf("a peer announced a %d byte frame (server maximum 64 KiB), sent a few KiB and went silent; 6 s later the server had still not closed its connection", ext), c)
		} else {
			rec.Count("oversize_announcers_disconnected_"+kind, 1)
		}
		_ = sc.Close()
		srv.Stop()
		select {
		case <-srv.Served:
		case <-time.After(10 * time.Second):
			rec.Violation("C10/"+kind+"/serve-does-not-return-after-stop", "after the oversize announcer", c)
		}
	}
}
