// C10 — servers stay up and peers stay isolated under arbitrary input.
//
// Monitor: real udp / dtls(PSK) / tcp / tls servers on loopback serve well-behaved clients
// (payload = client id + sequence number, echoed by the handler) while adversarial peers send
// PRNG bytes, truncated and oversize messages, unknown tokens, unsolicited ACK/RST/responses,
// connect-and-stall and abrupt closes. Oracles: per-client response log vs request log,
// handler-side log of (connection identity, remote address, client, sequence), Serve still
// running, liveness probe after the adversaries stop, discovery receiver log. A crash of the
// server is a crash of the child process, which the driver reports.
package c10

import (
	"bytes"
	"context"
	"crypto/tls"
	"errors"
	"fmt"
	pkgErrors "github.com/plgd-dev/go-coap/v3/pkg/errors"
	"math/rand"
	"net"
	"strings"
	"sync"
	"sync/atomic"
	"testing"
	"time"

	"github.com/plgd-dev/go-coap/v3/message"
	"github.com/plgd-dev/go-coap/v3/message/codes"
	"github.com/plgd-dev/go-coap/v3/message/pool"
	"github.com/plgd-dev/go-coap/v3/mux"
	coapNet "github.com/plgd-dev/go-coap/v3/net"
	"github.com/plgd-dev/go-coap/v3/options"
	"github.com/plgd-dev/go-coap/v3/udp"
	udpclient "github.com/plgd-dev/go-coap/v3/udp/client"

	"verifharness/gen"
	"verifharness/netenv"
	"verifharness/ref"
	"verifharness/vr"
)

type hlog struct {
	conn   string
	remote string
	client int
	seq    int
}

type tcase struct {
	Kind        string `json:"transport"`
	Clients     int    `json:"good_clients"`
	Adversaries int    `json:"adversaries"`
	Requests    int    `json:"requests_per_client"`
	Seed        int64  `json:"seed"`
}

func adversary(kind, addr string, rnd *rand.Rand, stop chan struct{}, sent *atomic.Int64) {
	datagram := kind == "udp" || kind == "dtls"
	valid := func() []byte {
		m := gen.Msg(rnd, rnd.Intn(1<<16), false)
		if len(m.Payload) > 300 {
			m.Payload = m.Payload[:300]
		}
		if datagram {
			return ref.EncodeUDP(m)
		}
		return ref.EncodeTCP(gen.Legalize(true, m))
	}
	for {
		select {
		case <-stop:
			return
		default:
		}
		if datagram {
			c, err := net.Dial("udp4", addr)
			if err != nil {
				time.Sleep(time.Millisecond)
				continue
			}
			for i := 0; i < 20; i++ {
				var b []byte
				switch rnd.Intn(8) {
				case 0:
					b = make([]byte, rnd.Intn(64))
					rnd.Read(b)
				case 1:
					b = valid()
					b = b[:rnd.Intn(len(b)+1)]
				case 2: // oversize
					b = ref.EncodeUDP(ref.Msg{Type: 0, Code: 2, MID: uint16(rnd.Intn(65536)), Token: []byte{1}, Payload: make([]byte, 1400)})
				case 3: // unsolicited ACK / RST
					b = ref.EncodeUDP(ref.Msg{Type: uint8(2 + rnd.Intn(2)), Code: 0, MID: uint16(rnd.Intn(65536))})
				case 4: // response with an unknown token
					b = ref.EncodeUDP(ref.Msg{Type: uint8(rnd.Intn(4)), Code: 0x45, MID: uint16(rnd.Intn(65536)), Token: gen.Fill(rnd, 1+rnd.Intn(8)), Payload: []byte("x")})
				case 5: // block-wise fragments out of the blue
					b = ref.EncodeUDP(ref.Msg{Type: 0, Code: 2, MID: uint16(rnd.Intn(65536)), Token: gen.Fill(rnd, 4), Opts: []ref.Opt{{ID: 11, Val: []byte("echo")}, {ID: 27, Val: ref.Uint(uint32(rnd.Intn(64))<<4 | uint32(rnd.Intn(16)))}}, Payload: gen.Fill(rnd, 16)})
				case 6: // a DTLS-looking record header with garbage
					b = append([]byte{22, 254, 253, 0, 0, 0, 0, 0, 0, 0, byte(rnd.Intn(4))}, gen.Fill(rnd, rnd.Intn(80))...)
				default:
					b = valid()
				}
				_, _ = c.Write(b)
				sent.Add(1)
				time.Sleep(600 * time.Microsecond)
			}
			_ = c.Close()
			time.Sleep(time.Millisecond)
			continue
		}
		// stream transports
		c, err := net.DialTimeout("tcp4", addr, time.Second)
		if err != nil {
			time.Sleep(time.Millisecond)
			continue
		}
		switch rnd.Intn(6) {
		case 0: // connect and stall
			select {
			case <-stop:
			case <-time.After(time.Duration(20+rnd.Intn(60)) * time.Millisecond):
			}
		case 1: // garbage
			b := make([]byte, 1+rnd.Intn(200))
			rnd.Read(b)
			_, _ = c.Write(b)
		case 2: // oversize frame header, then nothing
			_, _ = c.Write([]byte{0xf0, 0x7f, 0xff, 0xff, 0xff, 0x02})
		case 3: // abrupt close mid-message
			b := valid()
			if len(b) > 1 {
				_, _ = c.Write(b[:1+rnd.Intn(len(b)-1)])
			}
		case 4: // valid frames with unknown tokens / signals
			for i := 0; i < 10; i++ {
				_, _ = c.Write(valid())
				_, _ = c.Write(ref.EncodeTCP(ref.Msg{Code: uint8(7<<5 | (1 + rnd.Intn(5))), Token: gen.Fill(rnd, rnd.Intn(9))}))
			}
		case 5: // a TLS-looking record with garbage (for the tls listener: broken handshake)
			_, _ = c.Write(append([]byte{22, 3, 1, 0, 40}, gen.Fill(rnd, 40)...))
			time.Sleep(time.Duration(rnd.Intn(10)) * time.Millisecond)
		}
		sent.Add(1)
		_ = c.Close()
		time.Sleep(time.Millisecond)
	}
}

func ctxErr(err error) bool {
	return errors.Is(err, context.DeadlineExceeded) || strings.Contains(err.Error(), "deadline exceeded")
}

func dialWatchdog(srv *netenv.Server, d time.Duration) (netenv.Conn, error) {
	type res struct {
		cc  netenv.Conn
		err error
	}
	ch := make(chan res, 1)
	go func() {
		cc, err := srv.Dial(netenv.ClientOpts{})
		ch <- res{cc, err}
	}()
	select {
	case r := <-ch:
		return r.cc, r.err
	case <-time.After(d):
		go func() {
			if r := <-ch; r.cc != nil {
				_ = r.cc.Close()
			}
		}()
		return nil, fmt.Errorf("connecting took longer than %v while adversaries were active", d)
	}
}

func runTransport(rec *vr.Rec, c tcase) {
	var mu sync.Mutex
	var logs []hlog
	r := mux.NewRouter()
	_ = r.Handle("/echo", mux.HandlerFunc(func(w mux.ResponseWriter, m *mux.Message) {
		body, _ := m.ReadBody()
		var cl, seq int
		if n, _ := fmt.Sscanf(string(body), "c%d-s%d", &cl, &seq); n == 2 {
			mu.Lock()
			logs = append(logs, hlog{fmt.Sprintf("%p", w.Conn()), w.Conn().RemoteAddr().String(), cl, seq})
			mu.Unlock()
		}
		_ = w.SetResponse(codes.Content, message.TextPlain, bytes.NewReader(append([]byte("echo:"), body...)))
	}))
	srv, err := netenv.Start(c.Kind, netenv.ServerOpts{Router: r, HandshakeTimeout: 300 * time.Millisecond})
	if err != nil {
		rec.Inconclusive("cannot start " + c.Kind + " server: " + err.Error())
		return
	}
	stopAdv := make(chan struct{})
	var advSent atomic.Int64
	var awg sync.WaitGroup
	for a := 0; a < c.Adversaries; a++ {
		awg.Add(1)
		go func(a int) {
			defer awg.Done()
			adversary(c.Kind, srv.Addr, rand.New(rand.NewSource(c.Seed*31+int64(a))), stopAdv, &advSent)
		}(a)
	}
	var cwg sync.WaitGroup
	var okN atomic.Int64
	localOf := make([]string, c.Clients)
	for i := 0; i < c.Clients; i++ {
		cwg.Add(1)
		go func(i int) {
			defer cwg.Done()
			cc, err := dialWatchdog(srv, 30*time.Second)
			if err != nil {
				rec.Violation("C10/"+c.Kind+"/good-client-cannot-connect", err.Error(), c)
				return
			}
			defer cc.Close()
			localOf[i] = cc.LocalAddr().String()
			for s := 0; s < c.Requests; s++ {
				ctx, cancel := context.WithTimeout(context.Background(), 10*time.Second)
				body := fmt.Sprintf("c%d-s%d", i, s)
				resp, err := cc.Post(ctx, "/echo", message.TextPlain, bytes.NewReader([]byte(body)))
				cancel()
				if err != nil {
					if (c.Kind == "udp" || c.Kind == "dtls") && ctxErr(err) {
						// datagrams can be lost under the adversaries' flood (socket buffers); a timeout during the
						// attack proves nothing about the server - the liveness probe after the attack decides
						rec.Count("good_requests_timed_out_under_flood_"+c.Kind, 1)
						return
					}
					rec.Violation("C10/"+c.Kind+"/good-client-request-failed", fmt.Sprintf("client %d request %d: %v", i, s, err), c)
					return
				}
				b, _ := resp.ReadBody()
				if string(b) != "echo:"+body || resp.Code() != codes.Content {
					rec.Violation("C10/"+c.Kind+"/foreign-response", fmt.Sprintf("client %d request %d got %q (code %v)", i, s, b, resp.Code()), c)
					cc.ReleaseMessage(resp)
					return
				}
				cc.ReleaseMessage(resp)
				okN.Add(1)
			}
		}(i)
	}
	cwg.Wait()
	close(stopAdv)
	awg.Wait()
	rec.Count("good_requests_served_"+c.Kind, okN.Load())
	rec.Count("adversarial_units_sent_"+c.Kind, advSent.Load())
	// the server must still be serving
	select {
	case err := <-srv.Served:
		rec.Violation("C10/"+c.Kind+"/serve-returned", fmt.Sprintf("Serve returned while peers were active: %v", err), c)
		return
	default:
	}
	// liveness probe: a new client is served after the adversaries stopped
	probe := make(chan error, 1)
	go func() {
		cc, err := dialWatchdog(srv, 12*time.Second)
		if err != nil {
			probe <- err
			return
		}
		defer cc.Close()
		ctx, cancel := context.WithTimeout(context.Background(), 10*time.Second)
		defer cancel()
		resp, err := cc.Post(ctx, "/echo", message.TextPlain, bytes.NewReader([]byte("c999-s0")))
		if err == nil {
			cc.ReleaseMessage(resp)
		}
		probe <- err
	}()
	select {
	case err := <-probe:
		if err != nil {
			rec.Violation("C10/"+c.Kind+"/not-serving-after-attack", err.Error(), c)
		}
	case <-time.After(15 * time.Second):
		rec.Violation("C10/"+c.Kind+"/not-serving-after-attack", "liveness probe timed out", c)
	}
	srv.Stop()
	select {
	case <-srv.Served:
	case <-time.After(10 * time.Second):
		rec.Violation("C10/"+c.Kind+"/serve-does-not-return-after-stop", "", c)
	}
	// handler-side log: one logical connection per remote, one remote per connection, arrival order per client
	mu.Lock()
	defer mu.Unlock()
	connOfRemote := map[string]map[string]bool{}
	remoteOfConn := map[string]map[string]bool{}
	lastSeq := map[int]int{}
	remoteOfClient := map[int]string{}
	for _, l := range logs {
		if l.client == 999 {
			continue // the probe connects after the others closed: its connection object may reuse an address
		}
		if connOfRemote[l.remote] == nil {
			connOfRemote[l.remote] = map[string]bool{}
		}
		connOfRemote[l.remote][l.conn] = true
		if remoteOfConn[l.conn] == nil {
			remoteOfConn[l.conn] = map[string]bool{}
		}
		remoteOfConn[l.conn][l.remote] = true
		if prev, ok := lastSeq[l.client]; ok && l.seq != prev+1 && l.client != 999 {
			rec.Violation("C10/"+c.Kind+"/arrival-order", fmt.Sprintf("client %d: sequence %d handled after %d", l.client, l.seq, prev), c)
			return
		}
		lastSeq[l.client] = l.seq
		if r0, ok := remoteOfClient[l.client]; ok && r0 != l.remote {
			rec.Violation("C10/"+c.Kind+"/client-seen-from-two-addresses", fmt.Sprintf("client %d: %s and %s", l.client, r0, l.remote), c)
			return
		}
		remoteOfClient[l.client] = l.remote
	}
	for rem, conns := range connOfRemote {
		if len(conns) != 1 {
			rec.Violation("C10/"+c.Kind+"/several-connections-for-one-remote", fmt.Sprintf("remote %s was handled by %d logical connections", rem, len(conns)), c)
			return
		}
	}
	for cn, rems := range remoteOfConn {
		if len(rems) != 1 {
			rec.Violation("C10/"+c.Kind+"/one-connection-for-several-remotes", fmt.Sprintf("connection %s served %d remotes", cn, len(rems)), c)
			return
		}
	}
	for i, la := range localOf {
		if la != "" && remoteOfClient[i] != "" && remoteOfClient[i] != la {
			rec.Violation("C10/"+c.Kind+"/wrong-remote-address", fmt.Sprintf("client %d local %s seen by the server as %s", i, la, remoteOfClient[i]), c)
		}
	}
	rec.Count("handler_log_entries_checked", int64(len(logs)))
}

// discovery: responses are delivered only to the receiver registered for their token, each with
// the connection of the peer that sent it.
func discovery(rec *vr.Rec, rounds int, seed int64) {
	for round := 0; round < rounds; round++ {
		rnd := rand.New(rand.NewSource(seed*101 + int64(round)))
		nResp := round % 4 // 0..3 responders
		l, err := coapNet.NewListenUDP("udp4", "127.0.0.1:0")
		if err != nil {
			rec.Inconclusive("listen: " + err.Error())
			return
		}
		var strayDefault atomic.Int64
		r := mux.NewRouter()
		r.DefaultHandle(mux.HandlerFunc(func(w mux.ResponseWriter, m *mux.Message) { strayDefault.Add(1) }))
		srv := udp.NewServer(options.WithMux(r), options.WithMessagePool(pool.New(16, 2048)))
		served := make(chan error, 1)
		go func() { served <- srv.Serve(l) }()
		srvAddr := l.LocalAddr().(*net.UDPAddr)
		// responders: raw udp sockets. The discovery request is sent to responder 0's address; the others
		// answer "from another address" with the same token (allowed for discovery) after being told the token.
		type responder struct {
			c    *net.UDPConn
			addr string
		}
		var rs []responder
		for i := 0; i < nResp+1; i++ {
			c, err := net.ListenUDP("udp4", &net.UDPAddr{IP: net.IPv4(127, 0, 0, 1)})
			if err != nil {
				continue
			}
			rs = append(rs, responder{c, c.LocalAddr().String()})
		}
		type got struct {
			remote string
			body   string
			tok    string
		}
		var gmu sync.Mutex
		var gots []got
		var wantTok atomic.Value
		done := make(chan error, 1)
		go func() {
			ctx, cancel := context.WithTimeout(context.Background(), 250*time.Millisecond)
			defer cancel()
			done <- srv.Discover(ctx, rs[0].addr, "/disc", func(cc *udpclient.Conn, resp *pool.Message) {
				b, _ := resp.ReadBody()
				gmu.Lock()
				gots = append(gots, got{cc.RemoteAddr().String(), string(b), string(resp.Token())})
				gmu.Unlock()
			})
		}()
		// responder 0 receives the request
		buf := make([]byte, 1500)
		_ = rs[0].c.SetReadDeadline(time.Now().Add(5 * time.Second))
		n, _, err := rs[0].c.ReadFromUDP(buf)
		if err != nil {
			rec.Inconclusive("discovery request not received: " + err.Error())
		} else if req, perr := ref.ParseUDP(buf[:n]); perr == nil {
			wantTok.Store(string(req.Token))
			if round%2 == 1 {
				// while the discovery waits, a second discovery is started with the very same token: it is refused (or
				// runs on its own) - the first one keeps receiving the responses carrying its token
				ctx2, cancel2 := context.WithTimeout(context.Background(), 50*time.Millisecond)
				defer cancel2()
				m2 := pool.NewMessage(ctx2)
				_ = m2.SetupGet("/disc", req.Token)
				m2.SetType(message.NonConfirmable)
				m2.SetMessageID(int32(0x7000 + round))
				derr := srv.DiscoveryRequest(m2, rs[0].addr, func(cc *udpclient.Conn, resp *pool.Message) {
					b, _ := resp.ReadBody()
					gmu.Lock()
					gots = append(gots, got{cc.RemoteAddr().String(), string(b), string(resp.Token())})
					gmu.Unlock()
				})
				if derr == nil {
					rec.Count("discovery_second_request_with_same_token_accepted", 1)
				} else if errors.Is(derr, pkgErrors.ErrKeyAlreadyExists) {
					rec.Count("discovery_second_request_with_same_token_refused", 1)
				} else {
					rec.Count("discovery_second_request_failed_otherwise", 1)
				}
			}
			for i := 0; i < nResp; i++ {
				resp := ref.Msg{Type: 1, Code: 0x45, MID: uint16(rnd.Intn(65536)), Token: req.Token, Payload: []byte(fmt.Sprintf("responder-%d", i))}
				_, _ = rs[i].c.WriteToUDP(ref.EncodeUDP(resp), srvAddr)
			}
			// noise: a response with a foreign token, from the extra socket
			foreign := ref.Msg{Type: 1, Code: 0x45, MID: 77, Token: []byte{0xde, 0xad, 0xbe, 0xef}, Payload: []byte("foreign")}
			_, _ = rs[len(rs)-1].c.WriteToUDP(ref.EncodeUDP(foreign), srvAddr)
		}
		<-done
		time.Sleep(2 * time.Millisecond)
		// a response arriving after the discovery returned must not reach the receiver
		if t, ok := wantTok.Load().(string); ok {
			late := ref.Msg{Type: 1, Code: 0x45, MID: 78, Token: []byte(t), Payload: []byte("late")}
			_, _ = rs[0].c.WriteToUDP(ref.EncodeUDP(late), srvAddr)
			time.Sleep(2 * time.Millisecond)
		}
		gmu.Lock()
		rec.Eval(fmt.Sprintf("discovery|%d", nResp))
		rec.Count("discovery_rounds", 1)
		rec.Count("discovery_responses_delivered", int64(len(gots)))
		seen := map[string]bool{}
		for _, g := range gots {
			t, _ := wantTok.Load().(string)
			if g.tok != t || g.body == "foreign" {
				rec.Violation("C10/discovery/foreign-token-delivered", fmt.Sprintf("receiver got %q with token %x", g.body, g.tok), nil)
			}
			if g.body == "late" {
				rec.Violation("C10/discovery/response-after-return-delivered", "", nil)
			}
			var idx int
			if n, _ := fmt.Sscanf(g.body, "responder-%d", &idx); n == 1 && idx < len(rs) {
				if g.remote != rs[idx].addr {
					rec.Violation("C10/discovery/wrong-peer-connection", fmt.Sprintf("response of %s delivered with the connection of %s", rs[idx].addr, g.remote), nil)
				}
				seen[g.body] = true
			}
		}
		if len(seen) != nResp && wantTok.Load() != nil {
			rec.Violation("C10/discovery/response-lost", fmt.Sprintf("%d responders answered, receiver saw %d", nResp, len(seen)), nil)
		}
		gmu.Unlock()
		srv.Stop()
		<-served
		for _, r := range rs {
			_ = r.c.Close()
		}
	}
}

// wildcardPairs: a udp server bound to the wildcard address is reached by ONE remote socket on two
// different local addresses (127.0.0.1 and 127.0.0.2): these are two (remote, local) pairs, hence
// two logical connections with separate de-duplication state, even when the peer reuses a message ID.
func wildcardPairs(rec *vr.Rec, rounds int) {
	for round := 0; round < rounds; round++ {
		l, err := coapNet.NewListenUDP("udp4", "0.0.0.0:0")
		if err != nil {
			rec.Inconclusive("listen wildcard: " + err.Error())
			return
		}
		var newConns atomic.Int64
		var mu sync.Mutex
		locals := map[string]map[string]bool{} // conn identity -> local addresses
		r := mux.NewRouter()
		r.DefaultHandle(mux.HandlerFunc(func(w mux.ResponseWriter, m *mux.Message) {
			path, _ := m.Options().Path()
			mu.Lock()
			id := fmt.Sprintf("%p", w.Conn())
			if locals[id] == nil {
				locals[id] = map[string]bool{}
			}
			if uc, ok := w.Conn().(*udpclient.Conn); ok {
				locals[id][uc.LocalAddr().String()] = true
			}
			mu.Unlock()
			_ = w.SetResponse(codes.Content, message.TextPlain, bytes.NewReader([]byte("body-of-"+path)))
		}))
		srv := udp.NewServer(options.WithMux(r), options.WithOnNewConn(func(cc *udpclient.Conn) { newConns.Add(1) }))
		served := make(chan error, 1)
		go func() { served <- srv.Serve(l) }()
		port := l.LocalAddr().(*net.UDPAddr).Port
		c, err := net.ListenUDP("udp4", &net.UDPAddr{IP: net.IPv4zero})
		if err != nil {
			srv.Stop()
			<-served
			continue
		}
		mid := uint16(0x1200 + round)
		dsts := []net.IP{net.IPv4(127, 0, 0, 1), net.IPv4(127, 0, 0, 2), net.IPv4(127, 0, 0, 3)}[:2+round%2]
		okAll := true
		for i, ip := range dsts {
			path := fmt.Sprintf("p%d", i)
			// the same message ID on every pair (legal: IDs are scoped to the endpoint pair)
			req := ref.Msg{Type: 0, Code: 1, MID: mid, Token: []byte{byte(i + 1)}, Opts: []ref.Opt{{ID: 11, Val: []byte(path)}}}
			_, _ = c.WriteToUDP(ref.EncodeUDP(req), &net.UDPAddr{IP: ip, Port: port})
			buf := make([]byte, 1500)
			_ = c.SetReadDeadline(time.Now().Add(5 * time.Second))
			n, from, err := c.ReadFromUDP(buf)
			if err != nil {
				rec.Inconclusive("wildcard: no answer from " + ip.String() + ": " + err.Error())
				okAll = false
				break
			}
			resp, perr := ref.ParseUDP(buf[:n])
			if perr != nil || string(resp.Payload) != "body-of-/"+path || !bytes.Equal(resp.Token, req.Token) {
				rec.Violation("C10/udp/wildcard/foreign-response", fmt.Sprintf("request %q sent to %s (same remote socket, same message ID as the request to %s) was answered with token %x body %q", path, ip, dsts[0], resp.Token, resp.Payload), nil)
				okAll = false
				break
			}
			if !from.IP.Equal(ip) {
				rec.Violation("C10/udp/wildcard/answer-from-wrong-local-address", fmt.Sprintf("sent to %s, answered from %s", ip, from.IP), nil)
			}
		}
		rec.Eval(fmt.Sprintf("wildcard|%d", len(dsts)))
		rec.Count("wildcard_pair_rounds", 1)
		if okAll {
			if int(newConns.Load()) != len(dsts) {
				rec.Violation("C10/udp/wildcard/connections-per-pair", fmt.Sprintf("one remote socket reached %d local addresses of a wildcard-bound server; %d logical connections were created", len(dsts), newConns.Load()), nil)
			}
			mu.Lock()
			for id, ls := range locals {
				if len(ls) != 1 {
					rec.Violation("C10/udp/wildcard/one-connection-for-several-local-addresses", fmt.Sprintf("connection %s handled requests for %d local addresses", id, len(ls)), nil)
				}
			}
			mu.Unlock()
		}
		_ = c.Close()
		srv.Stop()
		<-served
	}
}

func TestRun(t *testing.T) {
	rec := vr.New("C10", "per transport (udp, dtls-PSK, tcp, tls over loopback): 4..8 well-behaved sequential clients (each request carries client id + sequence, echoed) concurrent with 2..6 adversarial peers following PRNG programs (random bytes, truncated valid messages, oversize messages, unsolicited ACK/RST, responses with unknown tokens, stray block-wise fragments, DTLS/TLS-looking garbage records, connect-and-stall, oversize stream headers, abrupt close mid-message, signalling frames); unicast discovery with 0..3 responders answering from their own sockets plus a foreign-token response and a late response; stall probes on tcp/tls: 1..3 peers connected and silent (nothing / partial TLS record / partial frame) while a new client must be served; server-initiated udp connections (Server.NewConn with the peer address in 4-byte / 16-byte / resolved form, wildcard and concrete listeners); keep-alive isolation on all four transports: a server with keep-alive, one silent peer and 2..4 live idle peers. Distinct = distinct (transport, clients, adversaries, seed) tuples.")
	defer rec.Flush(true)
	seed := vr.Seed()
	rnd := rand.New(rand.NewSource(seed))
	var cases []tcase
	for rep := 0; rep < vr.Scale(3, 30); rep++ {
		for _, kind := range netenv.Kinds {
			cases = append(cases, tcase{Kind: kind, Clients: 4 + rnd.Intn(5), Adversaries: 2 + rnd.Intn(5), Requests: vr.Scale(60, 400), Seed: rnd.Int63()})
		}
	}
	var wg sync.WaitGroup
	sem := make(chan struct{}, 4)
	for i, c := range cases {
		wg.Add(1)
		sem <- struct{}{}
		go func(i int, c tcase) {
			defer wg.Done()
			defer func() { <-sem }()
			if rec.NViolations() > 12 {
				return
			}
			vr.CaseLog(c)
			runTransport(rec, c)
			rec.Eval(fmt.Sprintf("%+v", c))
			rec.Sample(c)
		}(i, c)
	}
	wg.Wait()
	discovery(rec, vr.Scale(12, 200), seed)
	wildcardPairs(rec, vr.Scale(6, 100))
	serverInitiated(rec, vr.Scale(8, 80))
	for _, kind := range []string{"tcp", "tls"} {
		stallProbe(rec, kind, vr.Scale(4, 40), seed)
		oversizeAnnouncer(rec, kind, vr.Scale(2, 20))
	}
	{
		var kwg sync.WaitGroup
		for _, kind := range netenv.Kinds {
			kwg.Add(1)
			go func(kind string) {
				defer kwg.Done()
				keepAliveIsolation(rec, kind, vr.Scale(1, 12))
			}(kind)
		}
		kwg.Wait()
	}
	housekeepingStarvation(rec, vr.Scale(3, 30))
	burstOrder(rec, vr.Scale(3, 30))
	rec.Assume("safety verdicts only: throughput is reported, not judged; the liveness probe is bounded progress (a new client is served within 15 s after the adversaries stopped)")
	rec.Assume("multicast is not routable in this sandbox: discovery is exercised with unicast targets and responders answering from other sockets")
	_ = strings.Contains
	_ = tls.VersionTLS12
}
