package c10

import (
	"bytes"
	"context"
	"crypto/tls"
	"fmt"
	"net"
	"sync"
	"time"

	piondtls "github.com/pion/dtls/v3"
	"github.com/plgd-dev/go-coap/v3/message"
	"github.com/plgd-dev/go-coap/v3/message/codes"
	"github.com/plgd-dev/go-coap/v3/mux"
	"github.com/plgd-dev/go-coap/v3/options"
	tcpclient "github.com/plgd-dev/go-coap/v3/tcp/client"
	udpclient "github.com/plgd-dev/go-coap/v3/udp/client"

	"verifharness/netenv"
	"verifharness/ref"
	"verifharness/vr"
)

// keepAliveIsolation: a server that runs keep-alive towards its peers, one peer that went silent (it never answers a ping)
// and live peers that are merely idle (they answer every ping, being go-coap clients). Giving up on the silent peer is
// right; reporting a live peer inactive, or closing its connection, because of the silent one is the fault of one peer
// reaching another.
func keepAliveIsolation(rec *vr.Rec, kind string, reps int) {
	for rep := 0; rep < reps; rep++ {
		nLive := 2 + rep%3
		c := map[string]any{"scenario": "keep-alive-silent-peer-vs-live-idle-peers", "transport": kind, "live_idle_peers": nLive}
		var mu sync.Mutex
		var inactive []string
		note := func(addr string) { mu.Lock(); inactive = append(inactive, addr); mu.Unlock() }
		r := mux.NewRouter()
		_ = r.Handle("/echo", mux.HandlerFunc(func(w mux.ResponseWriter, m *mux.Message) {
			body, _ := m.ReadBody()
			_ = w.SetResponse(codes.Content, message.TextPlain, bytes.NewReader(append([]byte("echo:"), body...)))
		}))
		const retries, timeout = 3, 1600 * time.Millisecond
		so := netenv.ServerOpts{Router: r}
		udpKA := options.WithKeepAlive(retries, timeout, func(cc *udpclient.Conn) { note(cc.RemoteAddr().String()); _ = cc.Close() })
		tcpKA := options.WithKeepAlive(retries, timeout, func(cc *tcpclient.Conn) { note(cc.RemoteAddr().String()); _ = cc.Close() })
		fast := options.WithPeriodicRunner(func(f func(now time.Time) bool) {
			go func() {
				for f(time.Now()) {
					time.Sleep(40 * time.Millisecond)
				}
			}()
		})
		so.Udp = append(so.Udp, udpKA, fast)
		so.Dtls = append(so.Dtls, udpKA, fast)
		so.Tcp = append(so.Tcp, tcpKA, fast)
		srv, err := netenv.Start(kind, so)
		if err != nil {
			rec.Inconclusive("cannot start " + kind + " server: " + err.Error())
			return
		}
		// live peers
		var live []netenv.Conn
		ok := true
		for i := 0; i < nLive; i++ {
			cc, err := dialWatchdog(srv, 20*time.Second)
			if err != nil {
				rec.Inconclusive("keep-alive isolation: cannot connect: " + err.Error())
				ok = false
				break
			}
			live = append(live, cc)
			ctx, cancel := context.WithTimeout(context.Background(), 10*time.Second)
			resp, err := cc.Post(ctx, "/echo", message.TextPlain, bytes.NewReader([]byte("hello")))
			cancel()
			if err != nil {
				rec.Inconclusive("keep-alive isolation: first request failed: " + err.Error())
				ok = false
				break
			}
			cc.ReleaseMessage(resp)
		}
		// the silent peer: completes whatever the transport needs, sends one request, never reads or answers again
		var silentAddr string
		var closeSilent func()
		if ok {
			get := ref.Msg{Type: 1, Code: 1, MID: 7, Token: []byte{9, 9}, Opts: []ref.Opt{{ID: 11, Val: []byte("echo")}}}
			switch kind {
			case "udp":
				sc, err := net.Dial("udp4", srv.Addr)
				if err == nil {
					_, _ = sc.Write(ref.EncodeUDP(get))
					silentAddr, closeSilent = sc.LocalAddr().String(), func() { _ = sc.Close() }
				}
			case "dtls":
				ra, _ := net.ResolveUDPAddr("udp4", srv.Addr)
				sc, err := piondtls.Dial("udp4", ra, netenv.PSK())
				if err == nil {
					hctx, hc := context.WithTimeout(context.Background(), 10*time.Second)
					if err = sc.HandshakeContext(hctx); err == nil {
						_, _ = sc.Write(ref.EncodeUDP(get))
						silentAddr, closeSilent = sc.LocalAddr().String(), func() { _ = sc.Close() }
					} else {
						_ = sc.Close()
					}
					hc()
				}
			case "tcp":
				sc, err := net.DialTimeout("tcp4", srv.Addr, 5*time.Second)
				if err == nil {
					_, _ = sc.Write(ref.EncodeTCP(ref.Msg{Code: 1, Token: []byte{9, 9}, Opts: get.Opts}))
					silentAddr, closeSilent = sc.LocalAddr().String(), func() { _ = sc.Close() }
				}
			case "tls":
				sc, err := tls.DialWithDialer(&net.Dialer{Timeout: 5 * time.Second}, "tcp4", srv.Addr, srv.ClientTLS())
				if err == nil {
					_, _ = sc.Write(ref.EncodeTCP(ref.Msg{Code: 1, Token: []byte{9, 9}, Opts: get.Opts}))
					silentAddr, closeSilent = sc.LocalAddr().String(), func() { _ = sc.Close() }
				}
			}
			if silentAddr == "" {
				rec.Inconclusive("keep-alive isolation: the silent peer could not connect")
				ok = false
			}
		}
		if ok {
			// wait until the server gave up on the silent peer
			gaveUp := false
			deadline := time.Now().Add(15 * time.Second)
			for time.Now().Before(deadline) && !gaveUp {
				mu.Lock()
				for _, a := range inactive {
					if a == silentAddr {
						gaveUp = true
					}
				}
				mu.Unlock()
				time.Sleep(20 * time.Millisecond)
			}
			if !gaveUp {
				rec.Count("keepalive_silent_peer_never_reported_"+kind, 1)
			}
			// one more full keep-alive timeout with the live peers idle
			time.Sleep(timeout + 400*time.Millisecond)
			mu.Lock()
			reported := append([]string(nil), inactive...)
			mu.Unlock()
			rec.Eval(fmt.Sprintf("keepalive-isolation|%s|%d|%d", kind, nLive, rep))
			rec.Count("keepalive_isolation_runs_"+kind, 1)
			for i, cc := range live {
				addr := cc.LocalAddr().String()
				wrongly := false
				for _, a := range reported {
					if a == addr {
						wrongly = true
					}
				}
				closed := false
				select {
				case <-cc.Done():
					closed = true
				default:
				}
				var reqErr error
				if !closed || kind == "udp" {
					ctx, cancel := context.WithTimeout(context.Background(), 10*time.Second)
					resp, err := cc.Post(ctx, "/echo", message.TextPlain, bytes.NewReader([]byte("again")))
					cancel()
					reqErr = err
					if err == nil {
						cc.ReleaseMessage(resp)
					}
				}
				if wrongly || closed {
					rec.Violation("C10/"+kind+"/keepalive/live-peer-dropped-because-of-silent-peer", fmt.Sprintf("live peer %d (%s) answered every ping, yet the server reported it inactive=%v / its connection closed=%v after the silent peer %s had stopped answering (inactive reports: %v; follow-up request: %v)", i, addr, wrongly, closed, silentAddr, reported, reqErr), c)
					break
				}
				if reqErr != nil {
					rec.Violation("C10/"+kind+"/keepalive/live-peer-request-failed", fmt.Sprintf("live peer %d: %v", i, reqErr), c)
					break
				}
				rec.Count("keepalive_live_peers_unaffected_"+kind, 1)
			}
		}
		if closeSilent != nil {
			closeSilent()
		}
		for _, cc := range live {
			_ = cc.Close()
		}
		srv.Stop()
		select {
		case <-srv.Served:
		case <-time.After(10 * time.Second):
			rec.Violation("C10/"+kind+"/serve-does-not-return-after-stop", "after the keep-alive isolation run", c)
		}
	}
}

var _ = vr.Seed
