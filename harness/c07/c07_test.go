// C07 — stream framing is independent of how bytes are segmented.
//
// Monitor: message sequences are encoded with the reference encoder and fed to a real tcp
// connection through a scripted net.Conn whose Read returns harness-chosen chunks; the
// handler log (and the signal log) must equal the sent sequence for every segmentation and
// read-buffer size. Oversize frames: nothing from the frame on is delivered and the
// connection closes on the header alone.
package c07

import (
	"bytes"
	"crypto/sha256"
	"fmt"
	"math/rand"
	"os"
	"sync"
	"sync/atomic"
	"testing"
	"time"

	"github.com/plgd-dev/go-coap/v3/message"
	"github.com/plgd-dev/go-coap/v3/message/codes"
	"github.com/plgd-dev/go-coap/v3/message/pool"
	"github.com/plgd-dev/go-coap/v3/net/responsewriter"
	tcpclient "github.com/plgd-dev/go-coap/v3/tcp/client"
	tcpcoder "github.com/plgd-dev/go-coap/v3/tcp/coder"

	"verifharness/gen"
	"verifharness/ref"
	"verifharness/sim"
	"verifharness/vr"
)

type delivered struct {
	code uint8
	tok  string
	opts string
	pay  [32]byte
	plen int
}

func digest(m ref.Msg) delivered {
	var ob bytes.Buffer
	for _, o := range m.Opts {
		fmt.Fprintf(&ob, "%d:%x;", o.ID, o.Val)
	}
	return delivered{m.Code, string(m.Token), ob.String(), sha256.Sum256(m.Payload), len(m.Payload)}
}

func isSignal(code uint8) bool { return code >= 7<<5|1 && code <= 7<<5|5 }

type fcase struct {
	Msgs      int    `json:"messages"`
	StreamLen int    `json:"stream_bytes"`
	Cuts      []int  `json:"cuts,omitempty"`
	CutMode   string `json:"cut_mode"`
	Cache     int    `json:"connection_cache_size"`
	MaxSize   uint32 `json:"max_message_size"`
	Oversize  string `json:"oversize,omitempty"`
	Seed      int64  `json:"gen_seed"`
	Filter    bool   `json:"request_monitor_drops_some,omitempty"`
}

// dropped is the deterministic predicate of the dropping request monitor used in the filter cases: what
// the handler must then see is the sent sequence minus the messages satisfying it — whatever the cuts.
func dropped(code uint8, tok []byte) bool {
	s := int(code) + len(tok)
	for _, b := range tok {
		s += int(b)
	}
	return s%3 == 0
}

type conn struct {
	sc       *sim.ScriptConn
	cc       *tcpclient.Conn
	mu       sync.Mutex
	got      []delivered
	signals  []uint8
	errs     []string
	nDropped int
}

func newConn(cache int, maxSize uint32, filter ...bool) (*conn, error) {
	c := &conn{sc: sim.NewScriptConn()}
	flt := len(filter) > 0 && filter[0]
	cc, err := sim.NewTCPConn(c.sc, sim.TCPOpts{
		Errors: func(err error) { c.mu.Lock(); c.errs = append(c.errs, err.Error()); c.mu.Unlock() },
		Mutate: func(cfg *tcpclient.Config) {
			cfg.ConnectionCacheSize = uint16(cache)
			cfg.MaxMessageSize = maxSize
			cfg.ReceivedMessageQueueSize = 4
			// framing only: with block-wise enabled a generated CSM carrying the Block-Wise-Transfer option
			// would switch the block-wise layer on, which (correctly) keeps fragments from the handler
			cfg.BlockwiseEnable = false
			if flt {
				cfg.RequestMonitor = func(_ *tcpclient.Conn, r *pool.Message) (bool, error) {
					d := dropped(uint8(r.Code()), r.Token())
					if d {
						c.mu.Lock()
						c.nDropped++
						c.mu.Unlock()
					}
					return d, nil
				}
			}
		},
		Handler: func(w *responsewriter.ResponseWriter[*tcpclient.Conn], r *pool.Message) {
			body, _ := r.ReadBody()
			m := ref.Msg{Code: uint8(r.Code()), Token: r.Token(), Payload: body}
			for _, o := range r.Options() {
				m.Opts = append(m.Opts, ref.Opt{ID: uint16(o.ID), Val: o.Value})
			}
			d := digest(m)
			c.mu.Lock()
			c.got = append(c.got, d)
			c.mu.Unlock()
		},
	})
	if err != nil {
		return nil, err
	}
	cc.SetTCPSignalReceivedHandler(func(code codes.Code) { c.mu.Lock(); c.signals = append(c.signals, uint8(code)); c.mu.Unlock() })
	c.cc = cc
	return c, nil
}

func (c *conn) counts() (int, int) {
	c.mu.Lock()
	defer c.mu.Unlock()
	return len(c.got), len(c.signals)
}

func split(stream []byte, cuts []int) [][]byte {
	var out [][]byte
	prev := 0
	for _, c := range cuts {
		if c > prev && c < len(stream) {
			out = append(out, stream[prev:c])
			prev = c
		}
	}
	return append(out, stream[prev:])
}

// runStream feeds the stream in the given chunks and checks the logs against want.
func runStream(rec *vr.Rec, fc fcase, stream []byte, cuts []int, want []ref.Msg) {
	c, err := newConn(fc.Cache, fc.MaxSize, fc.Filter)
	if err != nil {
		rec.Violation("C07/harness/tcp-client", err.Error(), fc)
		return
	}
	defer c.cc.Close()
	var wantMsgs []delivered
	var wantSig []uint8
	wantDropped := 0
	for _, m := range want {
		if fc.Filter && dropped(m.Code, m.Token) {
			wantDropped++
			continue
		}
		if isSignal(m.Code) {
			wantSig = append(wantSig, m.Code)
		} else {
			wantMsgs = append(wantMsgs, digest(m))
		}
	}
	for _, ch := range split(stream, cuts) {
		c.sc.Feed(ch)
	}
	rec.Count("chunks_fed", int64(len(cuts)+1))
	ok := sim.WaitFor(20*time.Second, func() bool {
		g, s := c.counts()
		c.mu.Lock()
		nd := c.nDropped
		c.mu.Unlock()
		return (g >= len(wantMsgs) && s >= len(wantSig) && nd >= wantDropped && c.sc.Pending() == 0) || c.cc.Context().Err() != nil
	})
	// allow an extra (duplicated) delivery to show up
	time.Sleep(150 * time.Microsecond)
	c.mu.Lock()
	got := append([]delivered(nil), c.got...)
	sig := append([]uint8(nil), c.signals...)
	errs := append([]string(nil), c.errs...)
	nDropped := c.nDropped
	c.mu.Unlock()
	if c.cc.Context().Err() != nil {
		rec.Violation("C07/closed-on-valid-stream", fmt.Sprintf("connection closed while a valid stream was fed; errors %v; delivered %d of %d", errs, len(got), len(wantMsgs)), fc)
		return
	}
	if !ok || len(got) < len(wantMsgs) || len(sig) < len(wantSig) {
		rec.Violation("C07/message-missing", fmt.Sprintf("delivered %d of %d messages and %d of %d signals", len(got), len(wantMsgs), len(sig), len(wantSig)), fc)
		return
	}
	if len(got) > len(wantMsgs) || len(sig) > len(wantSig) {
		rec.Violation("C07/message-duplicated-or-invented", fmt.Sprintf("delivered %d messages (sent %d), %d signals (sent %d)", len(got), len(wantMsgs), len(sig), len(wantSig)), fc)
		return
	}
	for i := range wantMsgs {
		if got[i] != wantMsgs[i] {
			what := "altered"
			for j := range wantMsgs {
				if got[i] == wantMsgs[j] {
					what = "reordered"
				}
			}
			rec.Violation("C07/message-"+what, fmt.Sprintf("position %d: delivered code=%d tok=%x opts=%s payload %d bytes; sent code=%d tok=%x opts=%s payload %d bytes", i, got[i].code, got[i].tok, got[i].opts, got[i].plen, wantMsgs[i].code, wantMsgs[i].tok, wantMsgs[i].opts, wantMsgs[i].plen), fc)
			return
		}
	}
	for i := range wantSig {
		if sig[i] != wantSig[i] {
			rec.Violation("C07/signal-order", fmt.Sprintf("position %d: %d vs %d", i, sig[i], wantSig[i]), fc)
			return
		}
	}
	if nDropped != wantDropped {
		rec.Violation("C07/request-monitor-saw-wrong-count", fmt.Sprintf("the dropping request monitor dropped %d messages, %d of the sent ones satisfy its predicate", nDropped, wantDropped), fc)
		return
	}
	if fc.Filter {
		rec.Count("filter_cases", 1)
		rec.Count("messages_dropped_by_request_monitor", int64(wantDropped))
	}
	rec.Count("messages_delivered_checked", int64(len(wantMsgs)))
	rec.Count("signals_checked", int64(len(wantSig)))
}

// runOversize: prefix messages, then a frame whose declared length exceeds the maximum.
func runOversize(rec *vr.Rec, fc fcase, prefix []ref.Msg, header []byte, tail []byte, cuts []int, headerOnly bool) {
	c, err := newConn(fc.Cache, fc.MaxSize)
	if err != nil {
		rec.Violation("C07/harness/tcp-client", err.Error(), fc)
		return
	}
	defer c.cc.Close()
	var stream []byte
	nWant := 0
	for _, m := range prefix {
		stream = append(stream, ref.EncodeTCP(m)...)
		if !isSignal(m.Code) {
			nWant++
		}
	}
	stream = append(stream, header...)
	if !headerOnly {
		stream = append(stream, tail...)
	}
	for _, ch := range split(stream, cuts) {
		c.sc.Feed(ch)
	}
	// the connection must close on the header alone (no further input is provided)
	closed := false
	select {
	case <-c.cc.Done():
		closed = true
	case <-time.After(6 * time.Second):
	}
	if closed {
		// the error is reported by the goroutine that ran the connection, after Done() closed
		sim.WaitFor(5*time.Second, func() bool { c.mu.Lock(); defer c.mu.Unlock(); return len(c.errs) > 0 })
	}
	time.Sleep(150 * time.Microsecond)
	c.mu.Lock()
	got := len(c.got)
	errs := append([]string(nil), c.errs...)
	c.mu.Unlock()
	rec.Count("oversize_cases", 1)
	if got > nWant {
		rec.Violation("C07/oversize/delivered", fmt.Sprintf("%d messages delivered, only %d precede the oversize frame (%s)", got, nWant, fc.Oversize), fc)
		return
	}
	if !closed {
		rec.Violation("C07/oversize/not-closed-on-header", fmt.Sprintf("header of a frame exceeding the maximum message size (%s) was fed completely, the connection stayed open (waiting for the body?)", fc.Oversize), fc)
		return
	}
	if len(errs) == 0 {
		rec.Violation("C07/oversize/no-error-reported", fc.Oversize, fc)
	}
}

func tiny(rnd *rand.Rand) ref.Msg {
	codesL := []uint8{1, 2, 0x45, 0x84, 7<<5 | 1, 7<<5 | 2, 7<<5 | 3, 7<<5 | 4, 7<<5 | 5}
	m := ref.Msg{Code: codesL[rnd.Intn(len(codesL))]}
	m.Token = gen.Fill(rnd, rnd.Intn(3))
	switch rnd.Intn(4) {
	case 0:
		m.Opts = []ref.Opt{{ID: 11, Val: gen.Fill(rnd, rnd.Intn(3))}}
	case 1:
		m.Payload = gen.Fill(rnd, 1+rnd.Intn(3))
	}
	return gen.Legalize(true, m)
}

func TestRun(t *testing.T) {
	rec := vr.New("C07", "message sequences (1..30 messages: every stream length class 0-12/13-268/269-65804/65805+, token lengths 0..8, ordinary codes and the signalling codes CSM/Ping/Pong/Release/Abort) x segmentations (ALL 2^(n-1) cut sets for streams of n <= 12 bytes (quick) / 16 (thorough); byte-wise; single chunk; a cut at every offset; cuts inside and around every frame header; PRNG cuts) x read-buffer sizes {1,2,3,7,64,2048}; maximum message size = the largest frame of the stream / a few bytes more / far larger; with and without a request monitor that drops a deterministic subset (handler must see the rest, monitor must see all); peer CSMs announcing a small or a huge Max-Message-Size in front of the stream (the local limit is unaffected); oversize frames (declared length max+1.., 32-bit extended lengths near 2^32) fed header-only and with following frames. Distinct = distinct (stream, cut set, buffer size).")
	defer rec.Flush(true)
	seed := vr.Seed()
	caches := []int{1, 2, 3, 7, 64, 2048}
	type job func()
	var jobs []job
	add := func(j job) { jobs = append(jobs, j) }
	rnd := rand.New(rand.NewSource(seed))

	// ---- (a) all cut sets of short streams
	maxN := vr.Scale(12, 16)
	nShort := vr.Scale(8, 16)
	for s := 0; s < nShort; s++ {
		var msgs []ref.Msg
		var stream []byte
		maxFrame := 0
		for tries := 0; tries < 50; tries++ {
			m := tiny(rnd)
			e := ref.EncodeTCP(m)
			if len(stream)+len(e) > maxN {
				if len(msgs) > 0 {
					break
				}
				continue
			}
			msgs = append(msgs, m)
			stream = append(stream, e...)
			if len(e) > maxFrame {
				maxFrame = len(e)
			}
		}
		want, _ := ref.ParseTCPStream(stream)
		n := len(stream)
		stream2, want2 := stream, want
		for mask := 0; mask < 1<<(n-1); mask++ {
			mask := mask
			cache := caches[(mask+s)%len(caches)]
			add(func() {
				var cuts []int
				for b := 0; b < n-1; b++ {
					if mask>>b&1 == 1 {
						cuts = append(cuts, b+1)
					}
				}
				// the maximum message size is a limit on ONE frame: a limit equal to the largest frame of the stream
				// must not refuse a stream in which several frames (or a frame tail and the next frames) share a read
				maxSize := []uint32{uint32(maxFrame), uint32(maxFrame) + 1, 64 * 1024}[(mask/7)%3]
				fc := fcase{Msgs: len(want2), StreamLen: n, Cuts: cuts, CutMode: "all-cut-sets", Cache: cache, MaxSize: maxSize, Filter: s%2 == 1}
				runStream(rec, fc, stream2, cuts, want2)
				rec.Eval(fmt.Sprintf("cs|%x|%d|%d|%v", stream2, mask, cache, fc.Filter))
				rec.Count("cut_sets_enumerated", 1)
			})
		}
	}

	// ---- (b) longer sequences with structured and PRNG cuts
	nLong := vr.Scale(400, 6000)
	for i := 0; i < nLong; i++ {
		gs := seed*4099 + int64(i)
		i := i
		if only := os.Getenv("VERIF_C07_ONLY_GS"); only != "" && only != fmt.Sprint(gs) {
			continue // debugging aid: replay one long-sequence case
		}
		add(func() {
			r := rand.New(rand.NewSource(gs))
			k := 1 + r.Intn(30)
			var msgs []ref.Msg
			var stream []byte
			var bounds []int
			maxFrame := 0
			big := i%12 == 0
			for j := 0; j < k; j++ {
				m := gen.Msg(r, r.Intn(1<<16), big && j == 0)
				switch r.Intn(6) {
				case 0:
					m.Code = uint8(7<<5 | (1 + r.Intn(5)))
				case 1:
					m.Code = 0x45
				}
				if !(big && j == 0) {
					// keep most messages small; length classes are steered below
					if len(m.Payload) > 400 {
						m.Payload = m.Payload[:r.Intn(400)]
					}
				}
				m = gen.Legalize(true, m)
				if j%5 == 1 && !isSignal(m.Code) {
					tg := []int{0, 1, 12, 13, 14, 268, 269, 270, 300}[r.Intn(9)]
					if m2, ok := gen.Steer(r, ref.Msg{Code: m.Code, Token: m.Token}, tg); ok {
						m = m2
					}
				}
				e := ref.EncodeTCP(m)
				if j%2 == 0 {
					// every second frame is written by the library's own stream encoder - the other half of the framing: what
					// a go-coap sender puts on the wire must be cut back into the same messages by a go-coap receiver
					if le, ok := libEncodeTCP(m); ok {
						libEncoded.Add(1)
						if pm, pn, perr := ref.ParseTCP(le); perr != nil || pn != len(le) || digest(pm) != digest(m) {
							rec.Violation("C07/sender/frame-is-not-its-message", fmt.Sprintf("the stream encoder wrote %d bytes for a message with %d bytes of options+payload (reference frame: %d bytes); read back by the reference parser: consumed %d, error %v - a receiver cuts the stream in the wrong place", len(le), gen.BodyLen(m), len(e), pn, perr), map[string]any{"code": m.Code, "token_len": len(m.Token), "options_and_payload_bytes": gen.BodyLen(m), "frame_head": fmt.Sprintf("%x", le[:min(len(le), 12)])})
						} else {
							e = le
						}
					}
				}
				if len(e) > maxFrame {
					maxFrame = len(e)
				}
				h, _ := ref.ParseTCPHeader(e)
				off := len(stream)
				bounds = append(bounds, off, off+1, off+h.HeaderLen-1, off+h.HeaderLen, off+h.HeaderLen+1, off+len(e)-1)
				msgs = append(msgs, m)
				stream = append(stream, e...)
			}
			if i%5 == 3 {
				// the peer announces a Max-Message-Size of its own (what IT is willing to receive): that does not change
				// what this endpoint accepts - frames up to the configured limit must still be delivered
				csm := ref.Msg{Code: 7<<5 | 1, Opts: []ref.Opt{{ID: 2, Val: ref.Uint(uint32(8 + r.Intn(24)))}}}
				e := ref.EncodeTCP(csm)
				stream = append(append([]byte(nil), e...), stream...)
				for bi := range bounds {
					bounds[bi] += len(e)
				}
				msgs = append([]ref.Msg{csm}, msgs...)
			}
			want, err := ref.ParseTCPStream(stream)
			if err != nil || len(want) != len(msgs) {
				rec.Violation("C07/harness/reference-stream", fmt.Sprint(err), nil)
				return
			}
			n := len(stream)
			modes := []string{"single", "bytewise", "header-cuts", "prng", "prng", "every-offset"}
			mode := modes[i%len(modes)]
			var cutSets [][]int
			switch mode {
			case "single":
				cutSets = [][]int{nil}
			case "bytewise":
				if n > 6000 {
					mode = "prng"
				} else {
					var cs []int
					for b := 1; b < n; b++ {
						cs = append(cs, b)
					}
					cutSets = [][]int{cs}
				}
			case "header-cuts":
				seen := map[int]bool{}
				var cs []int
				for _, b := range bounds {
					if b > 0 && b < n && !seen[b] {
						seen[b] = true
						cs = append(cs, b)
					}
				}
				sortInts(cs)
				cutSets = [][]int{cs}
			case "every-offset":
				if n > 1500 {
					mode = "prng"
				} else {
					for b := 1; b < n; b += 1 + n/400 {
						cutSets = append(cutSets, []int{b})
					}
				}
			}
			if mode == "prng" {
				for q := 0; q < 4; q++ {
					var cs []int
					p := 0
					for p < n {
						p += 1 + r.Intn(1+r.Intn(1+n/(1+r.Intn(20))))
						if p < n {
							cs = append(cs, p)
						}
					}
					cutSets = append(cutSets, cs)
				}
			}
			for ci, cs := range cutSets {
				cache := caches[(i+ci)%len(caches)]
				maxSize := []uint32{uint32(maxFrame), 1 << 20, uint32(maxFrame) + 3}[(i+ci)%3]
				fc := fcase{Msgs: len(msgs), StreamLen: n, CutMode: mode, Cache: cache, MaxSize: maxSize, Seed: gs, Filter: (i/6)%3 == 2}
				if len(cs) <= 12 {
					fc.Cuts = cs
				}
				runStream(rec, fc, stream, cs, want)
				rec.Eval(fmt.Sprintf("long|%d|%s|%d|%d|%v", gs, mode, ci, cache, fc.Filter))
				if i < 2 && ci == 0 {
					rec.Sample(fc)
				}
			}
		})
	}

	// ---- (c) oversize frames
	nOver := vr.Scale(300, 4000)
	for i := 0; i < nOver; i++ {
		gs := seed*8191 + int64(i)
		i := i
		add(func() {
			r := rand.New(rand.NewSource(gs))
			maxSize := []uint32{64, 300, 1152, 65536}[r.Intn(4)]
			var prefix []ref.Msg
			if i%3 == 1 {
				// the peer announced that IT accepts very large messages: this endpoint's own limit is unaffected
				prefix = append(prefix, ref.Msg{Code: 7<<5 | 1, Opts: []ref.Opt{{ID: 2, Val: ref.Uint(1 << 22)}}})
			}
			for j := 0; j < r.Intn(4); j++ {
				m := tiny(r)
				prefix = append(prefix, m)
			}
			tkl := r.Intn(9)
			tok := gen.Fill(r, tkl)
			// declared total frame length = header + body; choose body so that total > maxSize
			var hdr []byte
			desc := ""
			switch i % 4 {
			case 0, 1: // just above the maximum
				over := int(maxSize) + 1 + r.Intn(3)*7
				body := over // body alone already exceeds
				hdr = frameHeader(body, 0x02, tok)
				desc = fmt.Sprintf("declared body %d bytes, maximum message size %d", body, maxSize)
			case 2: // huge 32-bit length
				ext := []uint32{0x7fffffff, 0x80000000, 0xfffeffff, 0xffffffff - 65805 - 20, 0xffffffff - 65805, 0xffffffff}[r.Intn(6)]
				hdr = append([]byte{0xf0 | byte(tkl), byte(ext >> 24), byte(ext >> 16), byte(ext >> 8), byte(ext), 0x02}, tok...)
				desc = fmt.Sprintf("32-bit extended length %#x, maximum message size %d", ext, maxSize)
			case 3: // exactly one byte over counting the header
				hl := 2 + tkl
				body := int(maxSize) - hl + 1
				if body < 13 {
					body = int(maxSize) + 1
				}
				hdr = frameHeader(body, 0x02, tok)
				desc = fmt.Sprintf("declared body %d bytes (+ header) vs maximum message size %d", body, maxSize)
			}
			tail := ref.EncodeTCP(ref.Msg{Code: 0x45, Token: []byte{0xaa}, Payload: []byte("after")})
			tail = append(tail, tail...)
			whole := i%8 == 5 && maxSize <= 1152
			if whole {
				// the oversized frame is COMPLETE and small enough to arrive with one read (64 < frame <= 2048): whether a
				// frame is too large does not depend on how much of it is already there when its header is looked at
				body := int(maxSize) + 1 + r.Intn(200)
				whdr := frameHeader(body, 0x02, tok)
				hdr = append(append([]byte(nil), whdr...), bytes.Repeat([]byte{0xff}, 1)...)
				hdr = append(hdr, bytes.Repeat([]byte{'x'}, body-1)...)
				desc = fmt.Sprintf("complete frame with a body of %d bytes, maximum message size %d", body, maxSize)
			}
			for _, headerOnly := range []bool{true, false} {
				var cuts []int
				total := 0
				for _, m := range prefix {
					total += len(ref.EncodeTCP(m))
				}
				switch r.Intn(3) {
				case 0: // bytewise
					for b := 1; b < total+len(hdr)+len(tail); b++ {
						cuts = append(cuts, b)
					}
				case 1: // header in its own chunk
					cuts = []int{total, total + len(hdr)}
				}
				fc := fcase{Msgs: len(prefix), CutMode: fmt.Sprintf("oversize headerOnly=%v", headerOnly), Cache: caches[r.Intn(len(caches))], MaxSize: maxSize, Oversize: desc, Seed: gs}
				if whole {
					// one read for everything, or the first header byte alone and the rest together
					fc.Cache = 2048
					cuts = nil
					if headerOnly {
						cuts = []int{total + 1}
					}
					fc.CutMode = fmt.Sprintf("complete oversize frame, cuts %v", cuts)
				}
				runOversize(rec, fc, prefix, hdr, tail, cuts, headerOnly)
				rec.Eval(fmt.Sprintf("over|%d|%v", gs, headerOnly))
				if i < 2 {
					rec.Sample(fc)
				}
			}
		})
	}

	var wg sync.WaitGroup
	var next atomic.Int64
	for w := 0; w < 12; w++ {
		wg.Add(1)
		go func() {
			defer wg.Done()
			for {
				i := int(next.Add(1)) - 1
				if i >= len(jobs) {
					return
				}
				if rec.NViolations() > 25 {
					rec.Count("jobs_skipped_after_many_violations", 1)
					continue
				}
				jobs[i]()
			}
		}()
	}
	wg.Wait()
	rec.Count("frames_written_by_the_library_stream_encoder", libEncoded.Load())
	rec.Assume("the sent sequence is what the reference stream parser yields for the fed bytes (documented leniencies applied), handler log and signal log are compared separately because signals are handled inline while other messages go through the receive queue")
	rec.Assume("bounded progress: all bytes were consumed by the connection and a 20 s watchdog expired before a delivery is called missing")
}

// frameHeader builds the header of a frame with the given body length (options+payload).
var libEncoded atomic.Int64

// libEncodeTCP encodes m with tcp/coder.DefaultCoder.
func libEncodeTCP(m ref.Msg) ([]byte, bool) {
	lm := message.Message{Code: codes.Code(m.Code), Token: m.Token, Payload: m.Payload}
	for _, o := range m.Opts {
		lm.Options = append(lm.Options, message.Option{ID: message.OptionID(o.ID), Value: o.Val})
	}
	n, err := tcpcoder.DefaultCoder.Size(lm)
	if err != nil {
		return nil, false
	}
	buf := make([]byte, n)
	k, err := tcpcoder.DefaultCoder.Encode(lm, buf)
	if err != nil {
		return nil, false
	}
	return buf[:k], true
}

func frameHeader(body int, code byte, tok []byte) []byte {
	tkl := byte(len(tok))
	var out []byte
	switch {
	case body < 13:
		out = []byte{byte(body)<<4 | tkl}
	case body < 269:
		out = []byte{13<<4 | tkl, byte(body - 13)}
	case body < 65805:
		out = []byte{14<<4 | tkl, byte((body - 269) >> 8), byte(body - 269)}
	default:
		e := uint32(body - 65805)
		out = []byte{15<<4 | tkl, byte(e >> 24), byte(e >> 16), byte(e >> 8), byte(e)}
	}
	out = append(out, code)
	return append(out, tok...)
}

func sortInts(a []int) {
	for i := 1; i < len(a); i++ {
		for j := i; j > 0 && a[j-1] > a[j]; j-- {
			a[j-1], a[j] = a[j], a[j-1]
		}
	}
}
