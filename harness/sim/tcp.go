package sim

import (
	"errors"
	"io"
	"net"
	"os"
	"sync"
	"time"

	"github.com/plgd-dev/go-coap/v3/message/pool"
	"github.com/plgd-dev/go-coap/v3/options"
	"github.com/plgd-dev/go-coap/v3/tcp"
	"github.com/plgd-dev/go-coap/v3/tcp/client"
)

type addr string

func (a addr) Network() string { return "sim" }
func (a addr) String() string  { return string(a) }

// ScriptConn is a net.Conn whose Read returns harness-chosen chunks (chunk boundaries are
// never merged; a chunk larger than the read buffer is returned in pieces) and whose
// Write is captured. Writes can be stalled (peer not reading).
type ScriptConn struct {
	mu       sync.Mutex
	cond     *sync.Cond
	chunks   [][]byte
	eof      bool
	readErr  error
	closed   bool
	written  []byte
	wrDrain  int
	stall    bool
	rdl, wdl time.Time
	// WriteErr, when non-nil, is returned by every Write (a stream whose other end is gone: broken pipe).
	WriteErr error
	// ReadCalls counts Read invocations that returned data (observability for evidence).
	ReadCalls int
	CloseCnt  int
}

func NewScriptConn() *ScriptConn {
	c := &ScriptConn{}
	c.cond = sync.NewCond(&c.mu)
	return c
}

// Feed queues one chunk for Read.
func (c *ScriptConn) Feed(b []byte) {
	if len(b) == 0 {
		return
	}
	c.mu.Lock()
	c.chunks = append(c.chunks, append([]byte(nil), b...))
	c.cond.Broadcast()
	c.mu.Unlock()
}

// FeedEOF makes Read return io.EOF once the queued chunks are consumed (peer closed).
func (c *ScriptConn) FeedEOF() {
	c.mu.Lock()
	c.eof = true
	c.cond.Broadcast()
	c.mu.Unlock()
}

// FeedErr makes Read fail with err once the queued chunks are consumed (e.g. reset).
func (c *ScriptConn) FeedErr(err error) {
	c.mu.Lock()
	c.readErr = err
	c.cond.Broadcast()
	c.mu.Unlock()
}

// Pending reports the number of chunks not yet consumed.
func (c *ScriptConn) Pending() int {
	c.mu.Lock()
	defer c.mu.Unlock()
	return len(c.chunks)
}

// StallWrites makes Write block (as if the peer's receive window were full).
func (c *ScriptConn) StallWrites(on bool) {
	c.mu.Lock()
	c.stall = on
	c.cond.Broadcast()
	c.mu.Unlock()
}

func (c *ScriptConn) Read(p []byte) (int, error) {
	c.mu.Lock()
	defer c.mu.Unlock()
	for {
		if c.closed {
			return 0, net.ErrClosed
		}
		if len(c.chunks) > 0 {
			n := copy(p, c.chunks[0])
			if n == len(c.chunks[0]) {
				c.chunks = c.chunks[1:]
			} else {
				c.chunks[0] = c.chunks[0][n:]
			}
			c.ReadCalls++
			c.cond.Broadcast()
			return n, nil
		}
		if c.readErr != nil {
			return 0, c.readErr
		}
		if c.eof {
			return 0, io.EOF
		}
		if !c.rdl.IsZero() && !time.Now().Before(c.rdl) {
			return 0, os.ErrDeadlineExceeded
		}
		c.waitLocked(c.rdl)
	}
}

func (c *ScriptConn) waitLocked(dl time.Time) {
	if dl.IsZero() {
		c.cond.Wait()
		return
	}
	t := time.AfterFunc(time.Until(dl), func() { c.mu.Lock(); c.cond.Broadcast(); c.mu.Unlock() })
	c.cond.Wait()
	t.Stop()
}

func (c *ScriptConn) Write(p []byte) (int, error) {
	c.mu.Lock()
	defer c.mu.Unlock()
	for {
		if c.closed {
			return 0, net.ErrClosed
		}
		if c.WriteErr != nil {
			return 0, c.WriteErr
		}
		if !c.stall {
			break
		}
		if !c.wdl.IsZero() && !time.Now().Before(c.wdl) {
			return 0, os.ErrDeadlineExceeded
		}
		c.waitLocked(c.wdl)
	}
	c.written = append(c.written, p...)
	c.cond.Broadcast()
	return len(p), nil
}

func (c *ScriptConn) Close() error {
	c.mu.Lock()
	c.CloseCnt++
	already := c.closed
	c.closed = true
	c.cond.Broadcast()
	c.mu.Unlock()
	if already {
		return net.ErrClosed
	}
	return nil
}

func (c *ScriptConn) IsClosed() bool {
	c.mu.Lock()
	defer c.mu.Unlock()
	return c.closed
}

func (c *ScriptConn) LocalAddr() net.Addr  { return addr("local") }
func (c *ScriptConn) RemoteAddr() net.Addr { return addr("remote") }
func (c *ScriptConn) SetDeadline(t time.Time) error {
	c.mu.Lock()
	c.rdl, c.wdl = t, t
	c.cond.Broadcast()
	c.mu.Unlock()
	return nil
}

func (c *ScriptConn) SetReadDeadline(t time.Time) error {
	c.mu.Lock()
	c.rdl = t
	c.cond.Broadcast()
	c.mu.Unlock()
	return nil
}

func (c *ScriptConn) SetWriteDeadline(t time.Time) error {
	c.mu.Lock()
	c.wdl = t
	c.cond.Broadcast()
	c.mu.Unlock()
	return nil
}

// Written returns everything written so far.
func (c *ScriptConn) Written() []byte {
	c.mu.Lock()
	defer c.mu.Unlock()
	return append([]byte(nil), c.written...)
}

// DrainWritten returns the bytes written since the previous DrainWritten.
func (c *ScriptConn) DrainWritten() []byte {
	c.mu.Lock()
	defer c.mu.Unlock()
	out := append([]byte(nil), c.written[c.wrDrain:]...)
	c.wrDrain = len(c.written)
	return out
}

// WaitConsumed waits until all fed chunks were read by the connection under test.
func (c *ScriptConn) WaitConsumed(d time.Duration) bool {
	return WaitFor(d, func() bool { return c.Pending() == 0 })
}

// WaitWritten waits until at least n bytes were written in total.
func (c *ScriptConn) WaitWritten(n int, d time.Duration) bool {
	return WaitFor(d, func() bool { c.mu.Lock(); defer c.mu.Unlock(); return len(c.written) >= n })
}

var ErrReset = errors.New("read: connection reset by peer")

// TCPOpts configures NewTCPConn.
type TCPOpts struct {
	Handler client.HandlerFunc
	Pool    *pool.Pool
	Errors  func(error)
	Extra   []tcp.Option
	Mutate  func(cfg *client.Config)
}

type mutateOpt struct{ f func(cfg *client.Config) }

func (m mutateOpt) TCPClientApply(cfg *client.Config) { m.f(cfg) }

// NewTCPConn builds a real tcp/client.Conn (through the public tcp.Client constructor,
// close-socket on, housekeeping owned by the harness) over a ScriptConn.
func NewTCPConn(c net.Conn, o TCPOpts) (*client.Conn, error) {
	errs := o.Errors
	if errs == nil {
		errs = func(error) {}
	}
	p := o.Pool
	if p == nil {
		p = pool.New(64, 2048)
	}
	opts := []tcp.Option{
		options.WithCloseSocket(),
		options.WithErrors(errs),
		options.WithMessagePool(p),
		options.WithPeriodicRunner(func(f func(now time.Time) bool) {}),
		mutateOpt{func(cfg *client.Config) {
			cfg.LimitClientParallelRequests = 1 << 20
			cfg.LimitClientEndpointParallelRequests = 1 << 20
			if o.Handler != nil {
				cfg.Handler = o.Handler
			}
			if o.Mutate != nil {
				o.Mutate(cfg)
			}
		}},
	}
	opts = append(opts, o.Extra...)
	return tcp.Client(c, opts...)
}

// AnnounceBlockwise plays the peer's capabilities message csm (which carries Block-Wise-Transfer) into c and returns once
// the connection has PROCESSED it - not merely read it: a request issued before that bypasses the connection's block-wise
// layer, and which of the two happens first is otherwise up to the scheduler.
func AnnounceBlockwise(c *ScriptConn, cc *client.Conn, csm []byte) bool {
	c.Feed(csm)
	return WaitFor(10*time.Second, cc.VerifPeerBlockwise)
}
