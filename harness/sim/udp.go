// Package sim holds the simulated network pieces the property monitors share: an
// in-memory datagram session for the real udp/client.Conn, a scripted net.Conn for the
// real tcp/client.Conn, and small helpers (wait-with-watchdog, PRNG bodies).
package sim

import (
	"context"
	"errors"
	"net"
	"sync"
	"sync/atomic"
	"time"

	"github.com/plgd-dev/go-coap/v3/message"
	"github.com/plgd-dev/go-coap/v3/message/pool"
	coapNet "github.com/plgd-dev/go-coap/v3/net"
	"github.com/plgd-dev/go-coap/v3/net/blockwise"
	"github.com/plgd-dev/go-coap/v3/udp/client"
	"github.com/plgd-dev/go-coap/v3/udp/coder"
)

// Datagram is one unit captured from Session.WriteMessage.
type Datagram struct {
	Seq  int
	Data []byte
}

// MemSession implements udp/client.Session in memory. Datagrams written by the
// connection are marshalled with the real datagram coder, copied, appended to a log and
// (optionally) pushed to Out / handed to OnWrite.
type MemSession struct {
	ctx    atomic.Pointer[context.Context]
	cancel context.CancelFunc
	done   chan struct{}
	once   sync.Once

	mu      sync.Mutex
	log     []Datagram
	drained int
	onClose []func()
	cond    *sync.Cond

	// Out, when non-nil, receives every datagram (blocking until accepted or closed).
	Out chan []byte
	// OnWrite, when non-nil, is called synchronously for every datagram; a non-nil error
	// is returned from WriteMessage (write failure injection) and the datagram is not logged.
	OnWrite func(data []byte) error
	// BeforeWrite, when non-nil, is called at the start of WriteMessage, before the message is encoded (a write that
	// takes its time: a full socket buffer, a slow record layer).
	BeforeWrite func(req *pool.Message)
	MaxSize     uint32
	Remote      net.Addr
	Local       net.Addr
	// Multicast log
	Mcast [][]byte
	// Dropped counts datagrams dropped because Out was full
	Dropped atomic.Int64
}

func NewMemSession() *MemSession {
	ctx, cancel := context.WithCancel(context.Background())
	s := &MemSession{cancel: cancel, done: make(chan struct{}), MaxSize: 64 * 1024,
		Remote: &net.UDPAddr{IP: net.IPv4(127, 0, 0, 1), Port: 1},
		Local:  &net.UDPAddr{IP: net.IPv4(127, 0, 0, 1), Port: 2}}
	s.cond = sync.NewCond(&s.mu)
	s.ctx.Store(&ctx)
	return s
}

func (s *MemSession) Context() context.Context { return *s.ctx.Load() }

func (s *MemSession) Close() error {
	s.cancel()
	s.once.Do(func() {
		s.mu.Lock()
		fs := s.onClose
		s.onClose = nil
		s.mu.Unlock()
		for _, f := range fs {
			f()
		}
		close(s.done)
		s.mu.Lock()
		s.cond.Broadcast()
		s.mu.Unlock()
	})
	return nil
}
func (s *MemSession) MaxMessageSize() uint32 { return s.MaxSize }
func (s *MemSession) RemoteAddr() net.Addr   { return s.Remote }
func (s *MemSession) LocalAddr() net.Addr    { return s.Local }
func (s *MemSession) NetConn() net.Conn      { return nil }

func (s *MemSession) WriteMessage(req *pool.Message) error {
	if s.BeforeWrite != nil {
		s.BeforeWrite(req)
	}
	data, err := req.MarshalWithEncoder(coder.DefaultCoder)
	if err != nil {
		return err
	}
	cp := append([]byte(nil), data...)
	if s.Context().Err() != nil {
		return errors.New("memsession: closed")
	}
	if s.OnWrite != nil {
		if err := s.OnWrite(cp); err != nil {
			return err
		}
	}
	s.mu.Lock()
	s.log = append(s.log, Datagram{len(s.log), cp})
	s.cond.Broadcast()
	s.mu.Unlock()
	if s.Out != nil {
		// like a datagram socket: never blocks, drops when the buffer is full
		select {
		case s.Out <- cp:
		default:
			s.Dropped.Add(1)
		}
	}
	return nil
}

func (s *MemSession) WriteMulticastMessage(req *pool.Message, _ *net.UDPAddr, _ ...coapNet.MulticastOption) error {
	data, err := req.MarshalWithEncoder(coder.DefaultCoder)
	if err != nil {
		return err
	}
	s.mu.Lock()
	s.Mcast = append(s.Mcast, append([]byte(nil), data...))
	s.mu.Unlock()
	return nil
}

func (s *MemSession) Run(*client.Conn) error { <-s.Context().Done(); _ = s.Close(); return nil }
func (s *MemSession) AddOnClose(f client.EventFunc) {
	s.mu.Lock()
	s.onClose = append(s.onClose, f)
	s.mu.Unlock()
}

func (s *MemSession) SetContextValue(key interface{}, val interface{}) {
	ctx := context.WithValue(s.Context(), key, val)
	s.ctx.Store(&ctx)
}
func (s *MemSession) Done() <-chan struct{} { return s.done }

// Len returns the number of datagrams written so far.
func (s *MemSession) Len() int {
	s.mu.Lock()
	defer s.mu.Unlock()
	return len(s.log)
}

// Log returns a copy of all datagrams written so far.
func (s *MemSession) Log() []Datagram {
	s.mu.Lock()
	defer s.mu.Unlock()
	return append([]Datagram(nil), s.log...)
}

// Drain returns the datagrams written since the previous Drain.
func (s *MemSession) Drain() [][]byte {
	s.mu.Lock()
	defer s.mu.Unlock()
	var out [][]byte
	for _, d := range s.log[s.drained:] {
		out = append(out, d.Data)
	}
	s.drained = len(s.log)
	return out
}

// WaitLen blocks until at least n datagrams were written, the session is closed or the
// watchdog d expires; it reports whether n was reached.
func (s *MemSession) WaitLen(n int, d time.Duration) bool {
	deadline := time.Now().Add(d)
	t := time.AfterFunc(d, func() { s.mu.Lock(); s.cond.Broadcast(); s.mu.Unlock() })
	defer t.Stop()
	s.mu.Lock()
	defer s.mu.Unlock()
	for len(s.log) < n {
		if time.Now().After(deadline) {
			return false
		}
		select {
		case <-s.done:
			return len(s.log) >= n
		default:
		}
		s.cond.Wait()
	}
	return true
}

// UDPOpts configures NewUDPConn.
type UDPOpts struct {
	Handler     client.HandlerFunc
	Blockwise   bool
	SZX         blockwise.SZX
	BWTimeout   time.Duration
	Pool        *pool.Pool
	Mutate      func(cfg *client.Config)
	Errors      func(error)
	ConnOptions []client.Option
}

// NewUDPConn builds a real udp/client.Conn over a MemSession with limits opened up
// (callers narrow them through Mutate).
func NewUDPConn(s *MemSession, o UDPOpts) *client.Conn {
	cfg := client.DefaultConfig
	cfg.Handler = o.Handler
	if cfg.Handler == nil {
		cfg.Handler = client.DefaultConfig.Handler
	}
	cfg.MessagePool = o.Pool
	if cfg.MessagePool == nil {
		cfg.MessagePool = pool.New(64, 2048)
	}
	cfg.TransmissionNStart = 1 << 20
	cfg.LimitClientParallelRequests = 1 << 20
	cfg.LimitClientEndpointParallelRequests = 1 << 20
	cfg.TransmissionAcknowledgeTimeout = time.Hour
	cfg.Errors = o.Errors
	if cfg.Errors == nil {
		cfg.Errors = func(error) {}
	}
	cfg.BlockwiseSZX = o.SZX
	if o.Mutate != nil {
		o.Mutate(&cfg)
	}
	opts := append([]client.Option(nil), o.ConnOptions...)
	if o.Blockwise {
		to := o.BWTimeout
		if to == 0 {
			to = 3 * time.Second
		}
		errs := cfg.Errors
		opts = append(opts, client.WithBlockWise(func(cc *client.Conn) *blockwise.BlockWise[*client.Conn] {
			return blockwise.New(cc, to, errs, func(token message.Token) (*pool.Message, bool) { return cc.GetObservationRequest(token) })
		}))
	}
	return client.NewConnWithOpts(s, &cfg, opts...)
}

// WaitFor polls cond (cheaply) until it holds or the watchdog expires.
func WaitFor(d time.Duration, cond func() bool) bool {
	deadline := time.Now().Add(d)
	for i := 0; ; i++ {
		if cond() {
			return true
		}
		if time.Now().After(deadline) {
			return cond()
		}
		if i < 200 {
			time.Sleep(20 * time.Microsecond)
		} else {
			time.Sleep(time.Millisecond)
		}
	}
}
