// C01 — wire codecs are exact inverses on every well-formed message (UDP and TCP).
//
// Monitor: for generated well-formed messages (boundary classes enumerated, the rest
// PRNG) the real coders are compared with an independent RFC reference encoder, decoded
// back, sized, and driven with every/selected too-small destination lengths over
// canary-filled memory; out-of-precondition messages must be refused without a write.
package c01

import (
	"bytes"
	"context"
	"errors"
	"fmt"
	"math"
	"math/rand"
	"os"
	"runtime"
	"sync"
	"sync/atomic"
	"testing"
	"time"

	"github.com/plgd-dev/go-coap/v3/message"
	"github.com/plgd-dev/go-coap/v3/message/codes"
	"github.com/plgd-dev/go-coap/v3/message/pool"
	tcpcoder "github.com/plgd-dev/go-coap/v3/tcp/coder"
	udpcoder "github.com/plgd-dev/go-coap/v3/udp/coder"

	"verifharness/gen"
	"verifharness/ref"
	"verifharness/vr"
)

type coder interface {
	Size(m message.Message) (int, error)
	Encode(m message.Message, buf []byte) (int, error)
	Decode(buf []byte, m *message.Message) (int, error)
}

const canary = 0xA5

func toLib(m ref.Msg) message.Message {
	out := message.Message{Type: message.Type(m.Type), Code: codes.Code(m.Code), MessageID: int32(m.MID), Token: m.Token, Payload: m.Payload}
	out.Options = make(message.Options, 0, len(m.Opts))
	for _, o := range m.Opts {
		out.Options = append(out.Options, message.Option{ID: message.OptionID(o.ID), Value: o.Val})
	}
	return out
}

type caseDesc struct {
	Coder   string   `json:"coder"`
	Type    int      `json:"type"`
	Code    int      `json:"code"`
	MID     int      `json:"mid"`
	TokLen  int      `json:"token_len"`
	OptIDs  []uint16 `json:"option_ids"`
	OptLens []int    `json:"option_value_lens"`
	PayLen  int      `json:"payload_len"`
	Seed    int64    `json:"gen_seed"`
}

func describe(name string, m ref.Msg, gs int64) caseDesc {
	d := caseDesc{Coder: name, Type: int(m.Type), Code: int(m.Code), MID: int(m.MID), TokLen: len(m.Token), PayLen: len(m.Payload), Seed: gs}
	for _, o := range m.Opts {
		d.OptIDs = append(d.OptIDs, o.ID)
		d.OptLens = append(d.OptLens, len(o.Val))
	}
	return d
}

func lenClass(n int) int {
	switch {
	case n < 13:
		return 0
	case n < 269:
		return 1
	case n < 65805:
		return 2
	}
	return 3
}

func classSig(name string, m ref.Msg) string {
	s := fmt.Sprintf("%s|t%d|k%d|c%d|p%d", name, len(m.Token), len(m.Opts), m.Code>>5, lenClass(len(m.Payload)))
	prev := 0
	for _, o := range m.Opts {
		s += fmt.Sprintf("|d%d l%d", lenClass(int(o.ID)-prev), lenClass(len(o.Val)))
		prev = int(o.ID)
	}
	return s
}

func equalDecoded(stream bool, want ref.Msg, got message.Message) string {
	if !stream {
		if int(got.Type) != int(want.Type) {
			return fmt.Sprintf("type %d != %d", got.Type, want.Type)
		}
		if got.MessageID != int32(want.MID) {
			return fmt.Sprintf("mid %d != %d", got.MessageID, want.MID)
		}
	}
	if uint8(got.Code) != want.Code {
		return fmt.Sprintf("code %d != %d", got.Code, want.Code)
	}
	if !bytes.Equal(got.Token, want.Token) {
		return fmt.Sprintf("token %x != %x", got.Token, want.Token)
	}
	if !bytes.Equal(got.Payload, want.Payload) {
		return fmt.Sprintf("payload len %d != %d (or content)", len(got.Payload), len(want.Payload))
	}
	if len(got.Options) != len(want.Opts) {
		return fmt.Sprintf("%d options != %d", len(got.Options), len(want.Opts))
	}
	for i, o := range want.Opts {
		if uint16(got.Options[i].ID) != o.ID || !bytes.Equal(got.Options[i].Value, o.Val) {
			return fmt.Sprintf("option %d: (%d, %d bytes) != (%d, %d bytes)", i, got.Options[i].ID, len(got.Options[i].Value), o.ID, len(o.Val))
		}
	}
	return ""
}

type checker struct {
	rec *vr.Rec
}

func (c *checker) viol(sig, detail string, d caseDesc) { c.rec.Violation(sig, detail, d) }

// checkOne runs every oracle clause for one message and one coder.
func (c *checker) checkOne(name string, cd coder, stream bool, m ref.Msg, gs int64, rnd *rand.Rand) {
	d := describe(name, m, gs)
	defer func() {
		if e := recover(); e != nil {
			c.viol("C01/"+name+"/panic", fmt.Sprint(e), d)
		}
	}()
	lm := toLib(m)
	var want []byte
	if stream {
		want = ref.EncodeTCP(m)
	} else {
		want = ref.EncodeUDP(m)
	}
	size, err := cd.Size(lm)
	if err != nil {
		c.viol("C01/"+name+"/size-error", fmt.Sprintf("Size: %v", err), d)
		return
	}
	if size != len(want) {
		c.viol("C01/"+name+"/size-mismatch", fmt.Sprintf("Size = %d, reference encoding has %d bytes", size, len(want)), d)
		return
	}
	// exact and generous buffers over canary memory
	for _, extra := range []int{0, 7} {
		arr := bytes.Repeat([]byte{canary}, size+extra+32)
		n, err := cd.Encode(lm, arr[:size+extra])
		if err != nil || n != size {
			c.viol("C01/"+name+"/encode-result", fmt.Sprintf("Encode into %d bytes = (%d,%v), Size said %d", size+extra, n, err, size), d)
			return
		}
		if !bytes.Equal(arr[:size], want) {
			c.viol("C01/"+name+"/bytes-differ-from-reference", fmt.Sprintf("first difference at %d of %d", firstDiff(arr[:size], want), size), d)
			return
		}
		for i := size; i < len(arr); i++ {
			if arr[i] != canary {
				c.viol("C01/"+name+"/write-beyond-size", fmt.Sprintf("byte %d (size %d) modified", i, size), d)
				return
			}
		}
	}
	// decode
	var dm message.Message
	dm.Options = make(message.Options, 0, len(m.Opts)+2)
	n, err := cd.Decode(want, &dm)
	if err != nil {
		c.viol("C01/"+name+"/decode-error", fmt.Sprintf("Decode(Encode(m)): %v", err), d)
		return
	}
	if n != len(want) {
		c.viol("C01/"+name+"/consumed-mismatch", fmt.Sprintf("Decode consumed %d of %d", n, len(want)), d)
		return
	}
	if diff := equalDecoded(stream, m, dm); diff != "" {
		c.viol("C01/"+name+"/roundtrip-differs", diff, d)
		return
	}
	// stream coder: the frame is followed by further bytes in the same buffer (the next frames of the stream): the decoder
	// consumes exactly the frame the encoder produced and yields the same message
	if stream {
		follow := append(append([]byte(nil), want...), want...)
		follow = append(follow, 0xff, 0x01, 0x02)
		var dm2 message.Message
		dm2.Options = make(message.Options, 0, len(m.Opts)+2)
		n2, err2 := cd.Decode(follow, &dm2)
		if err2 != nil {
			c.viol("C01/"+name+"/decode-error-with-following-bytes", fmt.Sprintf("Decode(Encode(m) + next frames): %v", err2), d)
			return
		}
		if n2 != len(want) {
			c.viol("C01/"+name+"/consumed-mismatch-with-following-bytes", fmt.Sprintf("Decode consumed %d bytes of a buffer that starts with a %d-byte frame", n2, len(want)), d)
			return
		}
		if diff := equalDecoded(stream, m, dm2); diff != "" {
			c.viol("C01/"+name+"/roundtrip-differs-with-following-bytes", diff, d)
			return
		}
	}
	// too-small destinations
	var lens []int
	if size <= 160 {
		for L := 0; L < size; L++ {
			lens = append(lens, L)
		}
	} else {
		// header/option/marker boundaries ±1 and PRNG values
		off := 4 + len(m.Token)
		if stream {
			off = size - gen.BodyLen(m)
		}
		marks := []int{0, 1, 2, 3, 4, off - 1, off, off + 1, size - 1, size - 2, size - len(m.Payload) - 1, size - len(m.Payload), size - len(m.Payload) - 2}
		p := off
		prev := 0
		for _, o := range m.Opts {
			hl := 1 + gen.ExtLen(int(o.ID)-prev) + gen.ExtLen(len(o.Val))
			marks = append(marks, p-1, p, p+1, p+hl-1, p+hl, p+hl+1)
			p += hl + len(o.Val)
			prev = int(o.ID)
		}
		for i := 0; i < 24; i++ {
			marks = append(marks, rnd.Intn(size))
		}
		seen := map[int]bool{}
		for _, L := range marks {
			if L >= 0 && L < size && !seen[L] {
				seen[L] = true
				lens = append(lens, L)
			}
		}
	}
	arr := make([]byte, size+16)
	for _, L := range lens {
		for i := L; i < len(arr); i++ {
			arr[i] = canary
		}
		n, err := cd.Encode(lm, arr[:L])
		if !errors.Is(err, message.ErrTooSmall) || n != size {
			c.viol("C01/"+name+"/short-buffer-result", fmt.Sprintf("Encode into %d of %d bytes = (%d,%v), want (%d,ErrTooSmall)", L, size, n, err, size), d)
			return
		}
		for i := L; i < len(arr); i++ {
			if arr[i] != canary {
				c.viol("C01/"+name+"/write-beyond-short-buffer", fmt.Sprintf("buffer length %d: byte %d modified", L, i), d)
				return
			}
		}
	}
	c.rec.Count("short_buffer_lengths_"+name, int64(len(lens)))
	// nil destination
	if n, err := cd.Encode(lm, nil); size > 0 && (!errors.Is(err, message.ErrTooSmall) || n != size) {
		c.viol("C01/"+name+"/short-buffer-result", fmt.Sprintf("Encode into nil = (%d,%v)", n, err), d)
	}
}

func firstDiff(a, b []byte) int {
	for i := range a {
		if i >= len(b) || a[i] != b[i] {
			return i
		}
	}
	return len(a)
}

// checkPooled drives the same message through pool.Message with a body reader.
func (c *checker) checkPooled(name string, enc pool.Encoder, dec pool.Decoder, stream bool, m ref.Msg, gs int64, p *pool.Pool) {
	d := describe("pool-"+name, m, gs)
	defer func() {
		if e := recover(); e != nil {
			c.viol("C01/pool-"+name+"/panic", fmt.Sprint(e), d)
		}
	}()
	var want []byte
	if stream {
		want = ref.EncodeTCP(m)
	} else {
		want = ref.EncodeUDP(m)
	}
	msg := p.AcquireMessage(context.Background())
	msg.SetCode(codes.Code(m.Code))
	if len(m.Token) > 0 {
		msg.SetToken(m.Token)
	}
	msg.SetType(message.Type(m.Type))
	msg.SetMessageID(int32(m.MID))
	msg.ResetOptionsTo(toLib(m).Options)
	if len(m.Payload) > 0 {
		msg.SetBody(bytes.NewReader(m.Payload))
	}
	data, err := msg.MarshalWithEncoder(enc)
	if err != nil {
		c.viol("C01/pool-"+name+"/marshal-error", err.Error(), d)
		return
	}
	if !bytes.Equal(data, want) {
		c.viol("C01/pool-"+name+"/bytes-differ-from-reference", fmt.Sprintf("first difference at %d (len %d vs %d)", firstDiff(data, want), len(data), len(want)), d)
		return
	}
	back := p.AcquireMessage(context.Background())
	// a recycled message: its previous life was another exchange (token, options and a payload of its own); nothing of
	// that may show in what is decoded next
	prev := ref.Msg{Type: 1, Code: 0x45, MID: 7, Token: []byte{0xee, 0xee, 0xee}, Opts: []ref.Opt{{ID: 4, Val: []byte{9, 9}}, {ID: 12, Val: nil}}, Payload: []byte("payload of the previous exchange")}
	if stream {
		_, _ = back.UnmarshalWithDecoder(dec, ref.EncodeTCP(prev))
	} else {
		_, _ = back.UnmarshalWithDecoder(dec, ref.EncodeUDP(prev))
	}
	back.Reset()
	n, err := back.UnmarshalWithDecoder(dec, want)
	if err != nil || n != len(want) {
		c.viol("C01/pool-"+name+"/unmarshal-result", fmt.Sprintf("(%d,%v) want %d", n, err, len(want)), d)
		return
	}
	body, err := back.ReadBody()
	if err != nil {
		c.viol("C01/pool-"+name+"/readbody", err.Error(), d)
		return
	}
	got := message.Message{Type: back.Type(), Code: back.Code(), MessageID: back.MessageID(), Token: back.Token(), Options: back.Options(), Payload: body}
	if diff := equalDecoded(stream, m, got); diff != "" {
		c.viol("C01/pool-"+name+"/roundtrip-differs", diff, d)
	}
	p.ReleaseMessage(msg)
	p.ReleaseMessage(back)
}

func TestRun(t *testing.T) {
	rec := vr.New("C01", "structured generator: token length 0..8, code 0..255 and type 0..3 are cycled (enumerated), MIDs from a boundary set or PRNG, 0..20 options with number deltas from {0 (repeat),1..30,12,13,14,268,269,270,1000,40000}, registry-legal value lengths for known numbers (bounds favoured) and length classes {0,1,12,13,14,268,269,270,1034,5000,65803,65804} for unknown numbers, payload classes up to 70000 bytes; for the stream coder the body length is steered to 0,1,11,12,13,14,267,268,269,270,65803..65806. Each message runs through both coders and pool.Message. Distinct/non-trivial = distinct structural class signature (coder, token length, code class, option delta/length classes, payload class).")
	defer rec.Flush(true)
	seed := vr.Seed()
	c := &checker{rec}
	workers := runtime.GOMAXPROCS(0)
	n := vr.Scale(40000, 4000000)
	nbig := vr.Scale(300, 20000)
	// stall monitor: an encode / decode call that does not return (totality is part of "exact inverses": the result has to
	// arrive). 20 s without progress on a worker that is inside a case ends the run with that case as the witness.
	ticks := make([]atomic.Int64, workers)
	curs := make([]atomic.Pointer[caseDesc], workers)
	stopMon := make(chan struct{})
	defer close(stopMon)
	go func() {
		last := make([]int64, workers)
		since := make([]time.Time, workers)
		for {
			select {
			case <-stopMon:
				return
			case <-time.After(500 * time.Millisecond):
			}
			for i := range ticks {
				tk := ticks[i].Load()
				c := curs[i].Load()
				if c == nil || tk != last[i] {
					last[i] = tk
					since[i] = time.Now()
					continue
				}
				if time.Since(since[i]) > 20*time.Second {
					buf := make([]byte, 1<<18)
					k := runtime.Stack(buf, true)
					os.Stderr.Write(buf[:k])
					rec.Violation("C01/codec-call-does-not-return", "a round trip of a well-formed message through the coders / the pooled API has not returned within 20 s", *c)
					rec.Flush(false)
					os.Exit(4)
				}
			}
		}
	}()
	var wg sync.WaitGroup
	for w := 0; w < workers; w++ {
		wg.Add(1)
		go func(w int) {
			defer wg.Done()
			defer curs[w].Store(nil)
			p := pool.New(8, 2048)
			for i := w; i < n+nbig; i += workers {
				gs := seed*1_000_003 + int64(i)
				rnd := rand.New(rand.NewSource(gs))
				big := i >= n
				m := gen.Msg(rnd, i, big)
				cd := describe("both", m, gs)
				curs[w].Store(&cd)
				ticks[w].Add(1)
				vr.CaseLog(gs)
				c.checkOne("udp", udpcoder.DefaultCoder, false, m, gs, rnd)
				rec.Eval(classSig("udp", m))
				mt := gen.Legalize(true, m)
				c.checkOne("tcp", tcpcoder.DefaultCoder, true, mt, gs, rnd)
				rec.Eval(classSig("tcp", mt))
				if i%4 == 0 || big {
					c.checkPooled("udp", udpcoder.DefaultCoder, udpcoder.DefaultCoder, false, m, gs, p)
					c.checkPooled("tcp", tcpcoder.DefaultCoder, tcpcoder.DefaultCoder, true, mt, gs, p)
					rec.Count("pooled_roundtrips", 2)
				}
				if i < 3 {
					rec.Sample(describe("both", m, gs))
				}
			}
		}(w)
	}
	wg.Wait()
	// stream length classes steered exactly
	targets := []int{0, 1, 11, 12, 13, 14, 267, 268, 269, 270, 271, 65803, 65804, 65805, 65806, 65807, 131072}
	rnd := rand.New(rand.NewSource(seed ^ 0xc01))
	reps := vr.Scale(12, 200)
	for _, tg := range targets {
		hit := 0
		for r := 0; r < reps*4 && hit < reps; r++ {
			gs := seed*77 + int64(tg)*1000 + int64(r)
			m := gen.Msg(rand.New(rand.NewSource(gs)), r*5+tg, false)
			if gen.BodyLen(ref.Msg{Opts: m.Opts}) > tg {
				m.Opts = nil
			}
			m2, ok := gen.Steer(rnd, m, tg)
			if !ok {
				continue
			}
			hit++
			if m2.Code >= 7<<5|1 && m2.Code <= 7<<5|5 {
				m2.Code = 2 // keep the steered body length: signalling registries would change option lengths
			}
			c.checkOne("tcp", tcpcoder.DefaultCoder, true, m2, gs, rnd)
			c.checkOne("udp", udpcoder.DefaultCoder, false, m2, gs, rnd)
			rec.Eval(fmt.Sprintf("steer|%d|%d|%d", tg, len(m2.Token), len(m2.Opts)))
			rec.Count("stream_length_boundary_cases", 1)
		}
	}

	// ---- out-of-precondition messages must be refused and nothing written
	refuse := func(name string, cd coder, lm message.Message, sig, what string) {
		arr := bytes.Repeat([]byte{canary}, 256)
		func() {
			defer func() {
				if e := recover(); e != nil {
					rec.Violation("C01/"+name+"/panic", fmt.Sprint(e), what)
				}
			}()
			n, err := cd.Encode(lm, arr)
			rec.Eval("refuse|" + name + "|" + what)
			rec.Count("refusal_cases", 1)
			if err == nil {
				var back message.Message
				back.Options = make(message.Options, 0, 4)
				_, derr := cd.Decode(arr[:n], &back)
				rec.Violation(sig, fmt.Sprintf("%s: Encode accepted (%d bytes: %x); decoding it gives type=%v mid=%v token=%x err=%v", what, n, arr[:n], back.Type, back.MessageID, back.Token, derr), what)
				return
			}
			for i, b := range arr {
				if b != canary {
					rec.Violation("C01/"+name+"/refused-but-wrote", fmt.Sprintf("%s: byte %d written", what, i), what)
					return
				}
			}
			if _, err := cd.Size(lm); err == nil && len(lm.Token) > 8 {
				rec.Violation("C01/"+name+"/size-accepts-oversized-token", what, what)
			}
		}()
	}
	for tl := 9; tl <= 40; tl++ {
		tok := bytes.Repeat([]byte{7}, tl)
		refuse("udp", udpcoder.DefaultCoder, message.Message{Token: tok, Code: codes.GET, MessageID: 1, Type: 0}, "C01/udp-encode/oversized-token-accepted", fmt.Sprintf("token of %d bytes", tl))
		refuse("tcp", tcpcoder.DefaultCoder, message.Message{Token: tok, Code: codes.GET}, "C01/tcp-encode/oversized-token-accepted", fmt.Sprintf("token of %d bytes", tl))
	}
	for _, mid := range []int32{-1, -2, 65536, 65537, 1 << 20, math.MaxInt32, math.MinInt32} {
		refuse("udp", udpcoder.DefaultCoder, message.Message{Code: codes.GET, MessageID: mid, Type: 0}, "C01/udp-encode/invalid-mid-accepted", fmt.Sprintf("message id %d", mid))
	}
	for _, typ := range []int{-1, -2, 256, 257, 1000, math.MaxInt16, math.MinInt16} {
		refuse("udp", udpcoder.DefaultCoder, message.Message{Code: codes.GET, MessageID: 1, Type: message.Type(typ)}, "C01/udp-encode/invalid-type-accepted", fmt.Sprintf("type %d", typ))
	}
	for typ := 4; typ <= 255; typ++ {
		refuse("udp", udpcoder.DefaultCoder, message.Message{Code: codes.GET, MessageID: 1, Type: message.Type(typ)}, "C01/udp-encode/type-4..255-accepted", fmt.Sprintf("type %d", typ))
	}
	rec.Assume("the reference encoder in harness/ref is a faithful reading of RFC 7252 section 3 and RFC 8323 section 3.2")
	rec.Assume("memory safety monitor = Go bounds checks + checkptr instrumentation + canary bytes around every destination buffer")
}
