package c17

import (
	"fmt"
	"math/rand"
	"sort"
	"strings"

	"github.com/plgd-dev/go-coap/v3/mux"

	"verifharness/vr"
)

// histories: a router lives through a sequence of registrations — Handle of a new pattern, Handle of an already registered
// pattern (replacement: the newest handler is the route), HandleRemove, DefaultHandle replacement — and after every step a
// few paths are dispatched. Reference: a map pattern -> generation of the handler registered last; the handler that runs
// must be the current generation of the longest matching registered pattern, else the current default handler.
func histories(rec *vr.Rec, n int, seed int64) {
	r := rand.New(rand.NewSource(seed*4241 + 7))
	for it := 0; it < n; it++ {
		vid := 0
		var pool []pat
		seen := map[string]bool{}
		for len(pool) < 2+r.Intn(4) {
			p := genPattern(r, &vid)
			if !seen[p.text] {
				seen[p.text] = true
				pool = append(pool, p)
			}
		}
		router := mux.NewRouter()
		cur := map[string]int{} // pattern -> generation currently registered
		gen := 0
		defGen := 0
		var hitPat string
		var hitGen int
		invocations := 0
		mkHandler := func(p string, g int) mux.HandlerFunc {
			return func(w mux.ResponseWriter, m *mux.Message) { hitPat, hitGen = p, g; invocations++ }
		}
		router.DefaultHandle(mkHandler("<default>", 0))
		var log []string
		steps := 3 + r.Intn(10)
		for s := 0; s < steps; s++ {
			p := pool[r.Intn(len(pool))]
			switch op := r.Intn(8); {
			case op < 4: // register or replace
				gen++
				g := gen
				var err error
				func() {
					defer func() {
						if e := recover(); e != nil {
							err = fmt.Errorf("panic: %v", e)
						}
					}()
					err = router.Handle(p.text, mkHandler(p.text, g))
				}()
				if err != nil {
					rec.Violation("C17/history/handle-error", fmt.Sprintf("Handle(%q): %v", p.text, err), log)
					return
				}
				if _, ok := cur[p.text]; ok {
					rec.Count("history_replacements", 1)
				}
				cur[p.text] = g
				log = append(log, fmt.Sprintf("Handle(%q)#%d", p.text, g))
			case op < 7: // remove
				err := router.HandleRemove(p.text)
				_, had := cur[p.text]
				if had && err != nil {
					rec.Violation("C17/history/remove-of-registered-pattern-failed", fmt.Sprintf("HandleRemove(%q): %v after %v", p.text, err, log), log)
					return
				}
				if had {
					rec.Count("history_removals", 1)
				}
				delete(cur, p.text)
				log = append(log, fmt.Sprintf("HandleRemove(%q)", p.text))
			default:
				gen++
				defGen = gen
				router.DefaultHandle(mkHandler("<default>", defGen))
				log = append(log, fmt.Sprintf("DefaultHandle#%d", defGen))
			}
			// dispatch
			var regs []pat
			for _, q := range pool {
				if _, ok := cur[q.text]; ok {
					regs = append(regs, q)
				}
			}
			for q := 0; q < 4; q++ {
				path := genPath(r, pool)
				m, seenPath, ok := mkMsg(path)
				if !ok {
					continue
				}
				invocations = 0
				hitPat, hitGen = "", -1
				func() {
					defer func() {
						if e := recover(); e != nil {
							rec.Violation("C17/history/panic", fmt.Sprint(e), log)
						}
					}()
					router.ServeCOAP(rw{}, m)
				}()
				rec.Eval(fmt.Sprintf("hist|%d|%d|%d", it, s, q))
				rec.Count("history_dispatches", 1)
				if invocations != 1 {
					rec.Violation("C17/history/handler-count", fmt.Sprintf("%d handlers invoked for %q after %v", invocations, seenPath, log), log)
					return
				}
				best := -1
				var cands []string
				for _, g := range regs {
					if refMatch(g.segs, seenPath) {
						cands = append(cands, g.text)
						if len(g.text) > best {
							best = len(g.text)
						}
					}
				}
				sort.Strings(cands)
				c := map[string]any{"history": strings.Join(log, "; "), "path": seenPath, "registered_now": keysOf(cur), "invoked": fmt.Sprintf("%s#%d", hitPat, hitGen)}
				switch {
				case best < 0:
					if hitPat != "<default>" {
						rec.Violation("C17/history/removed-or-unregistered-route-still-dispatched", fmt.Sprintf("no registered pattern matches %q, yet handler %s#%d ran", seenPath, hitPat, hitGen), c)
						return
					}
					if hitGen != defGen {
						rec.Violation("C17/history/stale-default-handler", fmt.Sprintf("default handler generation %d ran, current is %d", hitGen, defGen), c)
						return
					}
				case hitPat == "<default>":
					rec.Violation("C17/history/default-although-match", fmt.Sprintf("%q matches %v but the default handler ran", seenPath, cands), c)
					return
				default:
					g, registered := cur[hitPat]
					switch {
					case !registered:
						rec.Violation("C17/history/removed-or-unregistered-route-still-dispatched", fmt.Sprintf("%q: handler of %q ran, which is not registered any more (registered: %v)", seenPath, hitPat, keysOf(cur)), c)
						return
					case len(hitPat) != best:
						rec.Violation("C17/history/not-longest", fmt.Sprintf("%q: %q ran although %v match", seenPath, hitPat, cands), c)
						return
					case g != hitGen:
						rec.Violation("C17/history/replaced-handler-still-dispatched", fmt.Sprintf("%q: generation %d of %q ran, the handler registered last is generation %d", seenPath, hitGen, hitPat, g), c)
						return
					}
				}
			}
		}
	}
}

func keysOf(m map[string]int) []string {
	var out []string
	for k := range m {
		out = append(out, k)
	}
	sort.Strings(out)
	return out
}

var _ = vr.Seed
