// C17 — router dispatches to a longest matching route, else the default.
//
// Monitor: Router.ServeCOAP with recording handlers is compared with an independent
// backtracking matcher; variables must reconstruct the path; middlewares must nest in
// registration order; concurrent Handle/HandleRemove/DefaultHandle/ServeCOAP runs under
// the race detector with the matcher applied to registration-interval brackets.
package c17

import (
	"context"
	"fmt"
	"io"
	"math/rand"
	"regexp"
	"runtime"
	"strings"
	"sync"
	"sync/atomic"
	"testing"

	"github.com/plgd-dev/go-coap/v3/message"
	"github.com/plgd-dev/go-coap/v3/message/codes"
	"github.com/plgd-dev/go-coap/v3/message/pool"
	"github.com/plgd-dev/go-coap/v3/mux"
	udpcoder "github.com/plgd-dev/go-coap/v3/udp/coder"

	"verifharness/ref"
	"verifharness/vr"
)

type rw struct{}

func (rw) SetResponse(codes.Code, message.MediaType, io.ReadSeeker, ...message.Option) error {
	return nil
}
func (rw) Conn() mux.Conn           { return nil }
func (rw) SetMessage(*pool.Message) {}
func (rw) Message() *pool.Message   { return nil }

type seg struct {
	lit  string
	name string
	re   string
}

type pat struct {
	text string // as registered (after "" -> "/")
	segs []seg
}

var reCache sync.Map

func compiled(re string) *regexp.Regexp {
	if v, ok := reCache.Load(re); ok {
		return v.(*regexp.Regexp)
	}
	r := regexp.MustCompile("^(?:" + re + ")$")
	reCache.Store(re, r)
	return r
}

// refMatch: does the whole path match the template? Literals verbatim, variables by
// their own anchored regexp, all splits tried.
func refMatch(segs []seg, path string) bool {
	if len(segs) == 0 {
		return path == ""
	}
	s := segs[0]
	if s.name == "" {
		if strings.HasPrefix(path, s.lit) {
			return refMatch(segs[1:], path[len(s.lit):])
		}
		return false
	}
	re := compiled(s.re)
	for i := 0; i <= len(path); i++ {
		if re.MatchString(path[:i]) && refMatch(segs[1:], path[i:]) {
			return true
		}
	}
	return false
}

var lits = []string{"a", "b", "ab", "a.b", "x+", "c(d)", "e|f", "[g]", "h*", "$", "^", "\\d", "q?", "a/b"}
var res = []string{"", "[0-9]+", "[a-z]*", ".*", "[^/]+", "a|bc", "(?:x|y)+", "[a-c]{2}"}

func genPattern(r *rand.Rand, vid *int) pat {
	n := r.Intn(4)
	var sb strings.Builder
	var segs []seg
	for i := 0; i < n; i++ {
		sb.WriteString("/")
		segs = append(segs, seg{lit: "/"})
		k := 1 + r.Intn(2)
		for j := 0; j < k; j++ {
			if r.Intn(3) == 0 {
				*vid++
				name := fmt.Sprintf("v%d", *vid)
				re := res[r.Intn(len(res))]
				if re == "" {
					sb.WriteString("{" + name + "}")
					segs = append(segs, seg{name: name, re: "[^/]+"})
				} else {
					sb.WriteString("{" + name + ":" + re + "}")
					segs = append(segs, seg{name: name, re: re})
				}
			} else {
				l := lits[r.Intn(len(lits))]
				sb.WriteString(l)
				segs = append(segs, seg{lit: l})
			}
		}
	}
	text := sb.String()
	if text == "" {
		text = "/"
		segs = []seg{{lit: "/"}}
	}
	return pat{text, segs}
}

var fillers = []string{"7", "42", "abc", "a.b", "x", "", "q/r", "bc", "a", "xy", "ab", "cc"}

func genPath(r *rand.Rand, pats []pat) string {
	if len(pats) > 0 && r.Intn(4) != 0 {
		p := pats[r.Intn(len(pats))]
		var sb strings.Builder
		for _, s := range p.segs {
			if s.name == "" {
				sb.WriteString(s.lit)
			} else {
				sb.WriteString(fillers[r.Intn(len(fillers))])
			}
		}
		out := sb.String()
		switch r.Intn(8) {
		case 0:
			if len(out) > 0 {
				out = out[:len(out)-1]
			}
		case 1:
			out += "/" + fillers[r.Intn(len(fillers))]
		case 2:
			out = strings.Replace(out, ".", "x", 1)
		}
		return out
	}
	parts := []string{"a", "b", "ab", "a.b", "axb", "x+", "xx", "7", "c(d)", "cd", "e|f", "e", "[g]", "g", "h*", "hh", "$", "^", "\\d", "5", "q?", "q"}
	n := r.Intn(4)
	var sb strings.Builder
	for i := 0; i < n; i++ {
		sb.WriteString("/" + parts[r.Intn(len(parts))])
	}
	return sb.String()
}

func reconstruct(p pat, vars map[string]string) (string, string) {
	var sb strings.Builder
	for _, s := range p.segs {
		if s.name == "" {
			sb.WriteString(s.lit)
			continue
		}
		v, ok := vars[s.name]
		if !ok {
			return "", "variable " + s.name + " missing"
		}
		if !compiled(s.re).MatchString(v) {
			return "", fmt.Sprintf("variable %s=%q does not match %q", s.name, v, s.re)
		}
		sb.WriteString(v)
	}
	return sb.String(), ""
}

type dcase struct {
	Patterns []string `json:"patterns"`
	Path     string   `json:"path"`
	Seen     string   `json:"router_path"`
	Hit      string   `json:"invoked"`
}

func mkMsg(path string) (*mux.Message, string, bool) {
	// The request carries exactly the Uri-Path options a peer would put on the wire for this path - empty segments
	// (double or trailing slash) included - and the path the router must act on is computed here from those options
	// (RFC 7252 section 6.5: "/" + segments joined by "/"), not by the library's own reconstruction.
	msg := pool.NewMessage(context.Background())
	msg.SetCode(codes.GET)
	seen := "/"
	var segs []string
	if path != "" && path != "/" {
		rest := strings.TrimPrefix(path, "/")
		for _, seg := range strings.Split(rest, "/") {
			if len(seg) > 255 {
				return nil, "", false
			}
			segs = append(segs, seg)
		}
		seen = "/" + rest
	}
	switch how := len(path) % 3; how {
	case 0:
		for _, seg := range segs {
			msg.AddOptionBytes(message.URIPath, []byte(seg))
		}
	default:
		// the request as it comes off the wire: encoded by the reference encoder, decoded by the library. Every third one
		// carries elective options with an illegal value length around the path (an ETag of 9 bytes before it, a Size1 of 5
		// bytes behind it): a receiver skips those - and the path is still the path
		var opts []ref.Opt
		if how == 2 {
			opts = append(opts, ref.Opt{ID: 4, Val: []byte{1, 2, 3, 4, 5, 6, 7, 8, 9}})
		}
		for _, seg := range segs {
			opts = append(opts, ref.Opt{ID: 11, Val: []byte(seg)})
		}
		if how == 2 {
			opts = append(opts, ref.Opt{ID: 60, Val: []byte{1, 2, 3, 4, 5}})
		}
		data := ref.EncodeUDP(ref.Msg{Type: 0, Code: 1, MID: 77, Token: []byte{0x17}, Opts: opts})
		if _, err := msg.UnmarshalWithDecoder(udpcoder.DefaultCoder, data); err != nil {
			return nil, "", false
		}
		wireDecoded.Add(1)
	}
	return &mux.Message{Message: msg, RouteParams: new(mux.RouteParams)}, seen, true
}

var wireDecoded atomic.Int64

func TestRun(t *testing.T) {
	rec := vr.New("C17", "route sets of 1..8 patterns from a grammar (literal pieces incl. regex metacharacters . + * ? ( ) [ ] | ^ $ \\, {v}, {v:[0-9]+}, {v:[a-z]*}, {v:.*}, {v:a|bc}, {v:(?:x|y)+}, ...; overlapping and equal-length patterns, empty pattern), paths derived from the patterns (instances, truncated, extended, mutated) or PRNG; exhaustive part: all sets of <=2 patterns over a small pattern alphabet x all paths of <=3 segments over 4 symbols; concurrency part: Handle/HandleRemove/DefaultHandle/ServeCOAP from 8 goroutines under -race; registration histories (register, re-register = replace, remove, replace default) with dispatches after every step against a pattern->latest-handler map. Distinct = distinct (pattern set, path) pairs (hashed).")
	defer rec.Flush(true)
	seed := vr.Seed()

	check := func(regs []pat, path string, sigPrefix string) {
		router := mux.NewRouter()
		var hit string
		var gotVars map[string]string
		var gotParams mux.RouteParams
		invocations := 0
		for _, g := range regs {
			pp := g.text
			h := mux.HandlerFunc(func(w mux.ResponseWriter, m *mux.Message) {
				hit = pp
				invocations++
				gotVars = m.RouteParams.Vars
				gotParams = *m.RouteParams
			})
			var err error
			func() {
				defer func() {
					if e := recover(); e != nil {
						err = fmt.Errorf("panic: %v", e)
					}
				}()
				err = router.Handle(pp, h)
			}()
			if err != nil {
				rec.Violation("C17/handle-error", fmt.Sprintf("Handle(%q): %v", pp, err), nil)
				return
			}
		}
		router.DefaultHandle(mux.HandlerFunc(func(w mux.ResponseWriter, m *mux.Message) { hit = "<default>"; invocations++ }))
		m, seen, ok := mkMsg(path)
		if !ok {
			return
		}
		var names []string
		for _, g := range regs {
			names = append(names, g.text)
		}
		c := dcase{names, path, seen, ""}
		func() {
			defer func() {
				if e := recover(); e != nil {
					rec.Violation("C17/panic", fmt.Sprint(e), c)
				}
			}()
			router.ServeCOAP(rw{}, m)
		}()
		c.Hit = hit
		rec.Eval(sigPrefix + strings.Join(names, "\x00") + "\x01" + seen)
		if invocations != 1 {
			rec.Violation("C17/handler-count", fmt.Sprintf("%d handlers invoked", invocations), c)
			return
		}
		best := -1
		matches := map[string]pat{}
		for _, g := range regs {
			if refMatch(g.segs, seen) {
				matches[g.text] = g
				if len(g.text) > best {
					best = len(g.text)
				}
			}
		}
		if best < 0 {
			rec.Count("dispatch_default_expected", 1)
			if hit != "<default>" {
				rec.Violation("C17/dispatch/non-matching-pattern-invoked", fmt.Sprintf("nothing matches %q but %q was invoked", seen, hit), c)
			}
			return
		}
		rec.Count("dispatch_route_expected", 1)
		if len(matches) > 1 {
			rec.Count("dispatch_with_several_matches", 1)
		}
		g, isMatch := matches[hit]
		switch {
		case hit == "<default>":
			rec.Violation("C17/dispatch/default-although-match", fmt.Sprintf("path %q matches %v but the default handler ran", seen, keys(matches)), c)
		case !isMatch:
			rec.Violation("C17/dispatch/non-matching-pattern-invoked", fmt.Sprintf("path %q: invoked %q which does not match", seen, hit), c)
		case len(hit) != best:
			rec.Violation("C17/dispatch/not-longest", fmt.Sprintf("path %q: invoked %q (len %d) although a matching pattern of length %d exists: %v", seen, hit, len(hit), best, keys(matches)), c)
		default:
			got, why := reconstruct(g, gotVars)
			if why != "" || got != seen {
				rec.Violation("C17/vars/do-not-reconstruct-path", fmt.Sprintf("pattern %q path %q vars %v: %s (reconstructed %q)", hit, seen, gotVars, why, got), c)
			}
			if gotParams.Path != seen || gotParams.PathTemplate != hit {
				rec.Violation("C17/vars/route-params", fmt.Sprintf("RouteParams.Path=%q Template=%q, want %q %q", gotParams.Path, gotParams.PathTemplate, seen, hit), c)
			}
			if len(g.segs) > 0 && len(gotVars) > 0 {
				rec.Count("dispatch_with_vars_checked", 1)
			}
		}
	}

	// ---- PRNG part
	n := vr.Scale(12000, 1000000)
	workers := runtime.GOMAXPROCS(0)
	var wg sync.WaitGroup
	for w := 0; w < workers; w++ {
		wg.Add(1)
		go func(w int) {
			defer wg.Done()
			r := rand.New(rand.NewSource(seed*997 + int64(w)))
			for it := w; it < n; it += workers {
				vid := 0
				k := 1 + r.Intn(8)
				seen := map[string]bool{}
				var regs []pat
				for i := 0; i < k; i++ {
					p := genPattern(r, &vid)
					if seen[p.text] {
						continue
					}
					seen[p.text] = true
					regs = append(regs, p)
				}
				for q := 0; q < 8; q++ {
					check(regs, genPath(r, regs), "")
				}
				if it < 2 {
					var names []string
					for _, g := range regs {
						names = append(names, g.text)
					}
					rec.Sample(map[string]any{"patterns": names, "example_path": genPath(r, regs)})
				}
			}
		}(w)
	}
	wg.Wait()

	// ---- exhaustive part: sets of <= 2 patterns x paths of <= 3 segments over 4 symbols
	small := []pat{
		{"/", []seg{{lit: "/"}}},
		{"/a", []seg{{lit: "/"}, {lit: "a"}}},
		{"/a/b", []seg{{lit: "/"}, {lit: "a"}, {lit: "/"}, {lit: "b"}}},
		{"/{x}", []seg{{lit: "/"}, {name: "x", re: "[^/]+"}}},
		{"/a/{y}", []seg{{lit: "/"}, {lit: "a"}, {lit: "/"}, {name: "y", re: "[^/]+"}}},
		{"/{x}/b", []seg{{lit: "/"}, {name: "x", re: "[^/]+"}, {lit: "/"}, {lit: "b"}}},
		{"/{z:.*}", []seg{{lit: "/"}, {name: "z", re: ".*"}}},
		{"/a.b", []seg{{lit: "/"}, {lit: "a.b"}}},
		{"/{n:[0-9]+}", []seg{{lit: "/"}, {name: "n", re: "[0-9]+"}}},
		{"/a/{w:[a-z]*}", []seg{{lit: "/"}, {lit: "a"}, {lit: "/"}, {name: "w", re: "[a-z]*"}}},
		{"/{p}/{q}", []seg{{lit: "/"}, {name: "p", re: "[^/]+"}, {lit: "/"}, {name: "q", re: "[^/]+"}}},
		{"/b+", []seg{{lit: "/"}, {lit: "b+"}}},
	}
	syms := []string{"a", "b", "a.b", "7"}
	var paths []string
	paths = append(paths, "", "/")
	for _, s1 := range syms {
		paths = append(paths, "/"+s1)
		for _, s2 := range syms {
			paths = append(paths, "/"+s1+"/"+s2)
			for _, s3 := range syms {
				paths = append(paths, "/"+s1+"/"+s2+"/"+s3)
			}
		}
	}
	paths = append(paths, "/axb", "/bb", "/b+", "/a/")
	for i := 0; i < len(small); i++ {
		for j := i; j < len(small); j++ {
			regs := []pat{small[i]}
			if j != i {
				regs = append(regs, small[j])
			}
			for _, p := range paths {
				check(regs, p, "ex:")
				rec.Count("exhaustive_dispatches", 1)
			}
		}
	}

	// ---- middleware order
	{
		router := mux.NewRouter()
		var mu sync.Mutex
		var trace []string
		mk := func(name string) mux.MiddlewareFunc {
			return func(next mux.Handler) mux.Handler {
				return mux.HandlerFunc(func(w mux.ResponseWriter, r *mux.Message) {
					mu.Lock()
					trace = append(trace, name+">")
					mu.Unlock()
					next.ServeCOAP(w, r)
					mu.Lock()
					trace = append(trace, "<"+name)
					mu.Unlock()
				})
			}
		}
		router.Use(mk("m1"), mk("m2"))
		router.Use(mk("m3"))
		_ = router.Handle("/x", mux.HandlerFunc(func(w mux.ResponseWriter, r *mux.Message) { trace = append(trace, "H") }))
		router.DefaultHandle(mux.HandlerFunc(func(w mux.ResponseWriter, r *mux.Message) { trace = append(trace, "D") }))
		for _, tc := range []struct{ path, want string }{{"/x", "m1> m2> m3> H <m3 <m2 <m1"}, {"/nope", "m1> m2> m3> D <m3 <m2 <m1"}} {
			trace = nil
			m, _, _ := mkMsg(tc.path)
			router.ServeCOAP(rw{}, m)
			got := strings.Join(trace, " ")
			rec.Eval("mw:" + tc.path)
			if got != tc.want {
				rec.Violation("C17/middleware/order", fmt.Sprintf("path %s: %q want %q", tc.path, got, tc.want), tc.path)
			}
		}
	}

	// ---- concurrency: mutation concurrent with dispatch
	concurrent(rec, seed)
	histories(rec, vr.Scale(3000, 100000), seed)
	throughAdapter(rec, vr.Scale(2000, 60000), seed)
	rec.Count("requests_decoded_from_the_wire", wireDecoded.Load())
	rec.Assume("reference matcher: literals verbatim, {v} = one or more non-slash bytes, {v:re} = ^(?:re)$ for that variable alone; ties between equal-length patterns accept either")
}

func keys(m map[string]pat) []string {
	var out []string
	for k := range m {
		out = append(out, k)
	}
	return out
}

// interval bookkeeping on a logical clock
type regState struct {
	mu sync.Mutex
	// maybe: pattern may be registered in [from,to]; sure: certainly registered in [from,to]
	maybe [][2]int64
	sure  [][2]int64
}

const open = int64(1) << 62

func intersects(iv [][2]int64, a, b int64) bool {
	for _, x := range iv {
		if x[0] <= b && a <= x[1] {
			return true
		}
	}
	return false
}

func covers(iv [][2]int64, a, b int64) bool {
	for _, x := range iv {
		if x[0] <= a && b <= x[1] {
			return true
		}
	}
	return false
}

func concurrent(rec *vr.Rec, seed int64) {
	rounds := vr.Scale(6, 200)
	for round := 0; round < rounds; round++ {
		r := rand.New(rand.NewSource(seed*131 + int64(round)))
		vid := 0
		var pats []pat
		seen := map[string]bool{}
		for len(pats) < 6 {
			p := genPattern(r, &vid)
			if !seen[p.text] {
				seen[p.text] = true
				pats = append(pats, p)
			}
		}
		router := mux.NewRouter()
		var clock atomic.Int64
		states := make([]*regState, len(pats))
		type inv struct {
			idx  int // -1 default
			path string
		}
		handlers := make([]mux.Handler, len(pats))
		var cur sync.Map // goroutine id -> *inv
		for i := range pats {
			states[i] = &regState{}
			i := i
			handlers[i] = mux.HandlerFunc(func(w mux.ResponseWriter, m *mux.Message) {
				if v, ok := cur.Load(m.Message); ok {
					v.(*inv).idx = i
				}
			})
		}
		def := mux.HandlerFunc(func(w mux.ResponseWriter, m *mux.Message) {
			if v, ok := cur.Load(m.Message); ok {
				v.(*inv).idx = -1
			}
		})
		router.DefaultHandle(def)
		stop := make(chan struct{})
		var wg sync.WaitGroup
		// mutators
		for g := 0; g < 3; g++ {
			wg.Add(1)
			go func(g int) {
				defer wg.Done()
				rr := rand.New(rand.NewSource(seed*17 + int64(round*10+g)))
				own := []int{g * 2, g*2 + 1}
				reg := map[int]bool{}
				for {
					select {
					case <-stop:
						return
					default:
					}
					i := own[rr.Intn(2)]
					st := states[i]
					if !reg[i] {
						t0 := clock.Add(1)
						st.mu.Lock()
						st.maybe = append(st.maybe, [2]int64{t0, open})
						st.mu.Unlock()
						func() {
							defer func() {
								if e := recover(); e != nil {
									rec.Violation("C17/handle-panic", fmt.Sprintf("Handle(%q) panicked: %v", pats[i].text, e), nil)
								}
							}()
							_ = router.Handle(pats[i].text, handlers[i])
						}()
						t1 := clock.Add(1)
						st.mu.Lock()
						st.sure = append(st.sure, [2]int64{t1, open})
						st.mu.Unlock()
						reg[i] = true
					} else {
						t0 := clock.Add(1)
						st.mu.Lock()
						st.sure[len(st.sure)-1][1] = t0
						st.mu.Unlock()
						_ = router.HandleRemove(pats[i].text)
						t1 := clock.Add(1)
						st.mu.Lock()
						st.maybe[len(st.maybe)-1][1] = t1
						st.mu.Unlock()
						reg[i] = false
					}
					if rr.Intn(4) == 0 {
						router.DefaultHandle(def)
					}
					runtime.Gosched()
				}
			}(g)
		}
		// dispatchers
		var dispatched atomic.Int64
		per := vr.Scale(1500, 5000)
		var dwg sync.WaitGroup
		for g := 0; g < 5; g++ {
			dwg.Add(1)
			go func(g int) {
				defer dwg.Done()
				rr := rand.New(rand.NewSource(seed*19 + int64(round*10+g)))
				for k := 0; k < per; k++ {
					path := genPath(rr, pats)
					m, seenPath, ok := mkMsg(path)
					if !ok {
						continue
					}
					iv := &inv{idx: -2, path: seenPath}
					cur.Store(m.Message, iv)
					t0 := clock.Add(1)
					if e := serveRecovered(router, m); e != nil {
						rec.Violation("C17/panic", fmt.Sprint(e), map[string]any{"part": "concurrent", "path": seenPath})
						cur.Delete(m.Message)
						return
					}
					t1 := clock.Add(1)
					cur.Delete(m.Message)
					dispatched.Add(1)
					c := map[string]any{"path": seenPath, "invoked_index": iv.idx}
					if iv.idx == -2 {
						rec.Violation("C17/concurrent/handler-count", "no handler invoked", c)
						continue
					}
					// longest certainly-registered matching pattern during the whole call
					bestSure := -1
					for i, p := range pats {
						if refMatch(p.segs, seenPath) {
							states[i].mu.Lock()
							cv := covers(states[i].sure, t0, t1)
							states[i].mu.Unlock()
							if cv && len(p.text) > bestSure {
								bestSure = len(p.text)
							}
						}
					}
					if iv.idx == -1 {
						if bestSure >= 0 {
							rec.Violation("C17/concurrent/default-although-match", fmt.Sprintf("path %q: default ran although a matching pattern was registered during the whole call", seenPath), c)
						}
						continue
					}
					p := pats[iv.idx]
					c["invoked"] = p.text
					if !refMatch(p.segs, seenPath) {
						rec.Violation("C17/concurrent/non-matching-pattern-invoked", fmt.Sprintf("path %q dispatched to %q", seenPath, p.text), c)
						continue
					}
					states[iv.idx].mu.Lock()
					mayb := intersects(states[iv.idx].maybe, t0, t1)
					states[iv.idx].mu.Unlock()
					if !mayb {
						rec.Violation("C17/concurrent/unregistered-pattern-invoked", fmt.Sprintf("path %q dispatched to %q which was not registered at any instant of the call", seenPath, p.text), c)
					}
					if len(p.text) < bestSure {
						rec.Violation("C17/concurrent/not-longest", fmt.Sprintf("path %q dispatched to %q although a longer matching pattern was registered during the whole call", seenPath, p.text), c)
					}
				}
			}(g)
		}
		dwg.Wait()
		close(stop)
		wg.Wait()
		rec.EvalN(dispatched.Load(), fmt.Sprintf("concurrent-round-%d", round))
		rec.Count("concurrent_dispatches", dispatched.Load())
		rec.Count("concurrent_registration_changes", clock.Load())
	}
}

// serveRecovered dispatches m and turns a panic of the router into a value: one broken dispatch must not take the
// verdicts of all the others with it.
func serveRecovered(router *mux.Router, m *mux.Message) (p any) {
	defer func() { p = recover() }()
	router.ServeCOAP(rw{}, m)
	return nil
}
