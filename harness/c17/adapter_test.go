package c17

import (
	"fmt"
	"math/rand"
	"sort"
	"strings"
	"sync"
	"time"

	"github.com/plgd-dev/go-coap/v3/mux"
	udpclient "github.com/plgd-dev/go-coap/v3/udp/client"

	"verifharness/ref"
	"verifharness/sim"
	"verifharness/vr"
)

// throughAdapter: requests reach the router the way a server delivers them - through mux.ToHandler installed as the
// handler of a real connection - one after the other on the same connection. Each handler invocation must see the route
// variables of ITS request and nothing else: exactly the variables of the winning pattern, with values taken from this
// request's path (no leftovers of earlier requests), and an empty set for variable-less routes and the default handler.
func throughAdapter(rec *vr.Rec, n int, seed int64) {
	r := rand.New(rand.NewSource(seed*8861 + 5))
	type seenT struct {
		pattern string
		vars    map[string]string
		path    string
	}
	var mu sync.Mutex
	var seen []seenT
	router := mux.NewRouter()
	record := func(p string) mux.HandlerFunc {
		return func(w mux.ResponseWriter, m *mux.Message) {
			cp := map[string]string{}
			for k, v := range m.RouteParams.Vars {
				cp[k] = v
			}
			mu.Lock()
			seen = append(seen, seenT{p, cp, m.RouteParams.Path})
			mu.Unlock()
		}
	}
	pats := []string{"/dev/{id}", "/dev/{id}/res/{res}", "/plain-route-x", "/z/{a}/{b}/{c}", "/{only}"}
	for _, p := range pats {
		_ = router.Handle(p, record(p))
	}
	router.DefaultHandle(record("<default>"))
	s := sim.NewMemSession()
	cc := sim.NewUDPConn(s, sim.UDPOpts{Handler: mux.ToHandler[*udpclient.Conn](router)})
	defer cc.Close()
	type want struct {
		path    string
		pattern string
		vars    map[string]string
	}
	mk := func() want {
		x := fmt.Sprint(r.Intn(90) + 10)
		y := []string{"temp", "hum", "p"}[r.Intn(3)]
		switch r.Intn(6) {
		case 0:
			return want{"/dev/" + x, "/dev/{id}", map[string]string{"id": x}}
		case 1:
			return want{"/dev/" + x + "/res/" + y, "/dev/{id}/res/{res}", map[string]string{"id": x, "res": y}}
		case 2:
			return want{"/plain-route-x", "/plain-route-x", map[string]string{}}
		case 3:
			return want{"/z/" + x + "/" + y + "/q", "/z/{a}/{b}/{c}", map[string]string{"a": x, "b": y, "c": "q"}}
		case 4:
			return want{"/" + y, "/{only}", map[string]string{"only": y}}
		}
		return want{"/no/such/route/" + x + "/here", "<default>", map[string]string{}}
	}
	show := func(m map[string]string) string {
		var ks []string
		for k, v := range m {
			ks = append(ks, k+"="+v)
		}
		sort.Strings(ks)
		return "{" + strings.Join(ks, ",") + "}"
	}
	var hist []string
	for i := 0; i < n; i++ {
		w := mk()
		var opts []ref.Opt
		for _, seg := range strings.Split(strings.TrimPrefix(w.path, "/"), "/") {
			opts = append(opts, ref.Opt{ID: 11, Val: []byte(seg)})
		}
		_ = cc.Process(nil, ref.EncodeUDP(ref.Msg{Type: 1, Code: 1, MID: uint16(1000 + i), Token: []byte{byte(i), byte(i >> 8), 7}, Opts: opts}))
		if !sim.WaitFor(10*time.Second, func() bool { mu.Lock(); defer mu.Unlock(); return len(seen) > i }) {
			rec.Inconclusive("adapter: handler not invoked")
			return
		}
		mu.Lock()
		g := seen[i]
		mu.Unlock()
		hist = append(hist, w.path)
		if len(hist) > 6 {
			hist = hist[1:]
		}
		rec.Eval(fmt.Sprintf("adapter|%d", i))
		rec.Count("adapter_dispatches", 1)
		c := map[string]any{"scenario": "consecutive requests through mux.ToHandler on one connection", "recent_paths": strings.Join(hist, " ")}
		if g.pattern != w.pattern {
			rec.Violation("C17/adapter/wrong-route", fmt.Sprintf("path %q: handler of %q ran, want %q", w.path, g.pattern, w.pattern), c)
			return
		}
		if show(g.vars) != show(w.vars) {
			rec.Violation("C17/adapter/route-variables-not-of-this-request", fmt.Sprintf("path %q matched %q: handler saw variables %s, this request's are %s", w.path, g.pattern, show(g.vars), show(w.vars)), c)
			return
		}
	}
}

var _ = vr.Seed
