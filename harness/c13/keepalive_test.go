package c13

import (
	"context"
	"errors"
	"fmt"
	"sync/atomic"
	"time"

	"github.com/plgd-dev/go-coap/v3/message/pool"
	"github.com/plgd-dev/go-coap/v3/net/responsewriter"
	"github.com/plgd-dev/go-coap/v3/options"
	tcpclient "github.com/plgd-dev/go-coap/v3/tcp/client"
	udpclient "github.com/plgd-dev/go-coap/v3/udp/client"

	"verifharness/ref"
	"verifharness/sim"
	"verifharness/vr"
)

// keepAliveLeftovers: a keep-alive ping is an exchange too. The peer ignores the pings but is alive (it sends other
// messages), so every inactive period produces a new ping that supersedes the previous one; in the end one ping is
// answered. Afterwards nothing of the superseded pings may be left in the connection's tables (token continuations on
// streams, pending confirmables on datagrams).
func keepAliveLeftovers(rec *vr.Rec, reps int) {
	for rep := 0; rep < reps; rep++ {
		kind := []string{"tcp", "udp"}[rep%2]
		rounds := 2 + rep%4
		period := time.Minute
		c := map[string]any{"scenario": "keep-alive pings superseded while the peer sends other traffic", "transport": kind, "superseded_pings": rounds}
		var tick func(now time.Time)
		var sizes func() map[string]int
		var inject func(m ref.Msg)
		var sent func() []ref.Msg
		var closef func()
		if kind == "tcp" {
			sc := sim.NewScriptConn()
			cc, err := sim.NewTCPConn(sc, sim.TCPOpts{
				Handler: func(w *responsewriter.ResponseWriter[*tcpclient.Conn], r *pool.Message) {},
				Mutate: func(cfg *tcpclient.Config) {
					options.WithKeepAlive(8, period*9, func(cc *tcpclient.Conn) { _ = cc.Close() }).TCPClientApply(cfg)
				}})
			if err != nil {
				rec.Inconclusive("keep-alive leftovers: " + err.Error())
				continue
			}
			tick, sizes, closef = cc.CheckExpirations, cc.VerifSizes, func() { _ = cc.Close() }
			inject = func(m ref.Msg) { sc.Feed(ref.EncodeTCP(m)); sc.WaitConsumed(5 * time.Second) }
			sent = func() []ref.Msg { ms, _ := ref.ParseTCPStream(sc.Written()); return ms }
		} else {
			s := sim.NewMemSession()
			cfg := udpclient.DefaultConfig
			options.WithKeepAlive(8, period*9, func(cc *udpclient.Conn) { _ = cc.Close() }).UDPClientApply(&cfg)
			mon := cfg.CreateInactivityMonitor()
			cc := sim.NewUDPConn(s, sim.UDPOpts{
				Handler:     func(w *responsewriter.ResponseWriter[*udpclient.Conn], r *pool.Message) {},
				ConnOptions: []udpclient.Option{udpclient.WithInactivityMonitor(mon)},
			})
			tick, sizes, closef = cc.CheckExpirations, cc.VerifSizes, func() { _ = cc.Close() }
			inject = func(m ref.Msg) { _ = cc.Process(nil, ref.EncodeUDP(m)) }
			sent = func() []ref.Msg {
				var out []ref.Msg
				for _, d := range s.Log() {
					if m, err := ref.ParseUDP(d.Data); err == nil {
						out = append(out, m)
					}
				}
				return out
			}
		}
		isPing := func(m ref.Msg) bool {
			if kind == "tcp" {
				return m.Code == 7<<5|2
			}
			return m.Type == 0 && m.Code == 0
		}
		pings := func() []ref.Msg {
			var out []ref.Msg
			for _, m := range sent() {
				if isPing(m) {
					out = append(out, m)
				}
			}
			return out
		}
		ok := true
		for k := 1; k <= rounds+1 && ok; k++ {
			before := len(pings())
			tick(time.Now().Add(period + 10*time.Second))
			if !sim.WaitFor(5*time.Second, func() bool { return len(pings()) > before }) {
				rec.Inconclusive(fmt.Sprintf("keep-alive leftovers: ping %d not sent", k))
				ok = false
				break
			}
			if k <= rounds {
				// the peer ignores the ping but shows that it is alive: an unrelated message
				if kind == "tcp" {
					inject(ref.Msg{Code: 0x45, Token: []byte{0xee, byte(k)}, Payload: []byte("x")})
				} else {
					inject(ref.Msg{Type: 1, Code: 0x45, MID: uint16(500 + k), Token: []byte{0xee, byte(k)}, Payload: []byte("x")})
				}
				time.Sleep(300 * time.Microsecond)
			} else {
				p := pings()[len(pings())-1]
				if kind == "tcp" {
					inject(ref.Msg{Code: 7<<5 | 3, Token: p.Token})
				} else {
					inject(ref.Msg{Type: 3, Code: 0, MID: p.MID})
				}
				time.Sleep(300 * time.Microsecond)
			}
		}
		if ok {
			rec.Eval(fmt.Sprintf("keepalive-leftovers|%s|%d", kind, rounds))
			rec.Count("keepalive_leftover_cases", 1)
			sz := sizes()
			sim.WaitFor(2*time.Second, func() bool {
				if sz["token_handlers"]+sz["mid_handlers"] == 0 {
					return true
				}
				time.Sleep(5 * time.Millisecond)
				sz = sizes()
				return false
			})
			for _, table := range []string{"token_handlers", "mid_handlers"} {
				if n := sz[table]; n != 0 {
					rec.Violation("C13/"+kind+"/keepalive/superseded-ping-leftover/"+table, fmt.Sprintf("%d keep-alive pings were superseded while the peer sent other traffic, the last one was answered; still registered: %s", rounds, sizesStr(sz)), c)
					break
				}
			}
		}
		closef()
	}
}

var _ = vr.Seed

// unsendablePings: a ping the peer never answers is given up after MAX_RETRANSMIT retransmissions - also when those
// retransmissions cannot be written (the transport refuses writes while the connection stays open). Its message-ID
// continuation and its copy of the ping must be gone after housekeeping has run often enough, whatever the writes did.
func unsendablePings(rec *vr.Rec, reps int) {
	for rep := 0; rep < reps; rep++ {
		failFrom := rep % 3 // the first write succeeds; retransmission number failFrom and all later ones are refused
		c := map[string]any{"scenario": "unanswered ping whose retransmissions are refused by the transport", "writes_refused_from_retransmission": failFrom, "direct_async_ping": rep%2 == 0}
		s := sim.NewMemSession()
		var writes atomic.Int32
		s.OnWrite = func([]byte) error {
			if int(writes.Add(1)) > 1+failFrom {
				return errors.New("injected: transport refuses the write")
			}
			return nil
		}
		cc := sim.NewUDPConn(s, sim.UDPOpts{Mutate: func(cfg *udpclient.Config) {
			cfg.TransmissionMaxRetransmit = 3
			cfg.TransmissionAcknowledgeTimeout = 2 * time.Second
		}})
		var pingErr atomic.Value
		done := make(chan struct{})
		if rep%2 == 0 {
			_, err := cc.AsyncPing(func() {})
			if err != nil {
				rec.Inconclusive("unsendable pings: " + err.Error())
				_ = cc.Close()
				continue
			}
			close(done)
		} else {
			go func() {
				defer close(done)
				ctx, cancel := context.WithCancel(context.Background())
				defer cancel()
				go func() {
					// the caller gives up only after housekeeping has had its say
					time.Sleep(50 * time.Millisecond)
					cancel()
				}()
				if err := cc.Ping(ctx); err != nil {
					pingErr.Store(err.Error())
				}
			}()
		}
		base := time.Now()
		for k := 1; k <= 40; k++ {
			cc.CheckExpirations(base.Add(time.Duration(k) * time.Hour))
		}
		<-done
		sz := cc.VerifSizes()
		sim.WaitFor(2*time.Second, func() bool {
			if sz["mid_handlers"] == 0 {
				return true
			}
			time.Sleep(5 * time.Millisecond)
			cc.CheckExpirations(time.Now().Add(100 * time.Hour))
			sz = cc.VerifSizes()
			return false
		})
		rec.Eval(fmt.Sprintf("unsendable-ping|%d|%d", failFrom, rep))
		rec.Count("unsendable_ping_cases", 1)
		rec.Count("unsendable_ping_write_attempts", int64(writes.Load()))
		if sz["mid_handlers"] != 0 {
			rec.Violation("C13/udp/ping/pending-entry-survives-refused-retransmissions", fmt.Sprintf("40 housekeeping runs far beyond every retransmission time (%d write attempts): %s", writes.Load(), sizesStr(sz)), c)
		} else if w := int(writes.Load()); w > 1+3+2 {
			rec.Violation("C13/udp/ping/retried-beyond-max-retransmit", fmt.Sprintf("%d write attempts for one ping with MAX_RETRANSMIT 3", w), c)
		}
		_ = cc.Close()
	}
}

// abandonedPing: a Ping whose caller gave up (its context ended) while the ping was still being written - the stream
// peer had stopped reading for a while. The write completes later, the peer never answers: nothing of that ping may stay
// registered on the connection.
func abandonedPing(rec *vr.Rec, reps int) {
	for rep := 0; rep < reps; rep++ {
		c := map[string]any{"scenario": "Ping given up while its write was blocked; the write completes later, no pong ever comes", "transport": "tcp", "pings": 1 + rep%3}
		sc := sim.NewScriptConn()
		cc, err := sim.NewTCPConn(sc, sim.TCPOpts{})
		if err != nil {
			continue
		}
		sc.WaitWritten(1, 2*time.Second) // the connection's own capabilities message is out
		sc.StallWrites(true)
		for k := 0; k < 1+rep%3; k++ {
			ctx, cancel := context.WithTimeout(context.Background(), 40*time.Millisecond)
			perr := cc.Ping(ctx)
			cancel()
			if perr == nil {
				rec.Violation("C13/tcp/ping/succeeded-without-pong", "", c)
			}
		}
		sc.StallWrites(false)
		sz := cc.VerifSizes()
		sim.WaitFor(3*time.Second, func() bool {
			sz = cc.VerifSizes()
			return sz["token_handlers"] == 0
		})
		rec.Eval(fmt.Sprintf("abandoned-ping|%d", rep))
		rec.Count("abandoned_ping_cases", 1)
		if sz["token_handlers"] != 0 {
			rec.Violation("C13/tcp/ping/abandoned-ping-leaves-token-handler", fmt.Sprintf("every Ping call has returned (deadline exceeded while its write was blocked), the writes have completed since, no pong will come: %s", sizesStr(sz)), c)
		}
		_ = cc.Close()
	}
}

// answeredAsyncPing: AsyncPing calls on a stream connection whose pongs arrive; the caller never invokes the returned
// cancel function (the callback has run, there is nothing to cancel). Half of the connections have been told by the peer's
// capabilities message that it supports block-wise transfer (a go-coap peer never says so, a foreign peer may). After the
// last callback nothing of the answered pings may be registered on the connection.
func answeredAsyncPing(rec *vr.Rec, reps int) {
	for rep := 0; rep < reps; rep++ {
		peerBlockwise := rep%2 == 0
		pings := 1 + rep%5
		c := map[string]any{"scenario": "AsyncPing answered by a pong, returned cancel never called", "transport": "tcp", "peer_announced_blockwise": peerBlockwise, "pings": pings}
		sc := sim.NewScriptConn()
		cc, err := sim.NewTCPConn(sc, sim.TCPOpts{})
		if err != nil {
			continue
		}
		sc.WaitWritten(1, 2*time.Second) // the connection's own capabilities message is out
		if peerBlockwise {
			if !sim.AnnounceBlockwise(sc, cc, ref.EncodeTCP(ref.Msg{Code: 7<<5 | 1, Opts: []ref.Opt{{ID: 2, Val: ref.Uint(1152)}, {ID: 4, Val: nil}}})) {
				rec.Inconclusive("answered pings: the capabilities message was not processed")
				_ = cc.Close()
				continue
			}
		}
		answered := 0
		seen := map[string]bool{}
		for k := 0; k < pings; k++ {
			got := make(chan struct{}, 8)
			if _, err := cc.AsyncPing(func() { got <- struct{}{} }); err != nil {
				break
			}
			// the scripted peer answers the ping it finds on the wire with a pong that echoes its token
			var ping *ref.Msg
			sim.WaitFor(2*time.Second, func() bool {
				ms, perr := ref.ParseTCPStream(sc.Written())
				if perr != nil {
					return false
				}
				for i := range ms {
					if ms[i].Code == 7<<5|2 && !seen[string(ms[i].Token)] {
						ping = &ms[i]
						return true
					}
				}
				return false
			})
			if ping == nil {
				break
			}
			seen[string(ping.Token)] = true
			sc.Feed(ref.EncodeTCP(ref.Msg{Code: 7<<5 | 3, Token: ping.Token}))
			select {
			case <-got:
				answered++
			case <-time.After(3 * time.Second):
			}
		}
		if answered != pings {
			rec.Inconclusive(fmt.Sprintf("answered pings: %d of %d callbacks ran", answered, pings))
			_ = cc.Close()
			continue
		}
		sz := cc.VerifSizes()
		sim.WaitFor(time.Second, func() bool {
			sz = cc.VerifSizes()
			return sz["token_handlers"] == 0
		})
		rec.Eval(fmt.Sprintf("answered-async-ping|%v|%d|%d", peerBlockwise, pings, rep))
		rec.Count("answered_async_ping_cases", 1)
		rec.Count("answered_async_pings", int64(answered))
		if sz["token_handlers"] != 0 {
			rec.Violation("C13/tcp/ping/answered-ping-leaves-token-handler", fmt.Sprintf("%d AsyncPing calls, every callback has run: %s", pings, sizesStr(sz)), c)
		}
		_ = cc.Close()
	}
}
