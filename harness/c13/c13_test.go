// C13 — no per-exchange state outlives the exchange.
//
// Monitor: quiescent-point invariant on the verif-tagged size accessors of every
// per-exchange table (token and message-ID continuations, per-ID locks, reply cache,
// block-wise caches, limiter entries, observation table) of BOTH real connections of a
// pair, after PRNG histories of exchanges with all outcomes and housekeeping sweeps at
// virtual times beyond every deadline; plus growth over repeated histories, and the udp
// server's peer/discovery tables over real loopback sockets.
package c13

import (
	"context"
	"fmt"
	"math/rand"
	"net"
	"sort"
	"sync"
	"sync/atomic"
	"testing"
	"time"

	"github.com/plgd-dev/go-coap/v3/message"
	"github.com/plgd-dev/go-coap/v3/message/codes"
	"github.com/plgd-dev/go-coap/v3/message/pool"
	"github.com/plgd-dev/go-coap/v3/mux"
	coapNet "github.com/plgd-dev/go-coap/v3/net"
	"github.com/plgd-dev/go-coap/v3/options"
	"github.com/plgd-dev/go-coap/v3/udp"
	udpclient "github.com/plgd-dev/go-coap/v3/udp/client"

	"verifharness/sim"
	"verifharness/vr"
	"verifharness/wl"
)

type hcase struct {
	Kind      string        `json:"transport"`
	Exchanges []wl.Exchange `json:"exchanges"`
	Parallel  int           `json:"parallel"`
	Repeat    int           `json:"repeat"`
	Seed      int64         `json:"seed"`
	NStart    uint32        `json:"client_nstart,omitempty"`
	NoBW      bool          `json:"connections_without_blockwise_layer,omitempty"`
}

func sizesStr(m map[string]int) string {
	var ks []string
	for k, v := range m {
		if v != 0 {
			ks = append(ks, fmt.Sprintf("%s=%d", k, v))
		}
	}
	sort.Strings(ks)
	return fmt.Sprint(ks)
}

func genHistory(rnd *rand.Rand, kind string, n int, id *int) []wl.Exchange {
	ks := wl.Kinds(kind)
	var out []wl.Exchange
	for i := 0; i < n; i++ {
		k := ks[rnd.Intn(len(ks))]
		os := wl.Outcomes(kind, k)
		o := os[rnd.Intn(len(os))]
		if rnd.Intn(3) == 0 {
			o = "ok"
		}
		*id++
		x := wl.Exchange{Kind: k, Outcome: o, ID: *id, NoDeadline: rnd.Intn(3) == 0}
		if k == "bigget" || k == "bigpost" || k == "oneway-big" {
			x.Size = []int{65, 128, 200, 700, 1500}[rnd.Intn(5)]
		}
		out = append(out, x)
	}
	return out
}

func runHistory(rec *vr.Rec, c hcase) {
	var p *wl.Pair
	if c.Kind == "udp" {
		p = wl.NewUDPPairB(64, nil, c.NStart, !c.NoBW)
	} else {
		var err error
		p, err = wl.NewTCPPair(64)
		if err != nil {
			rec.Violation("C13/harness/tcp-pair", err.Error(), c)
			return
		}
	}
	defer p.Close()
	rnd := rand.New(rand.NewSource(c.Seed))
	var prev map[string]int
	for rep := 0; rep < c.Repeat; rep++ {
		var wg sync.WaitGroup
		sem := make(chan struct{}, c.Parallel)
		var mu sync.Mutex
		outcomes := map[string]int{}
		for _, x := range c.Exchanges {
			x := x
			x.ID += rep * 100000
			wg.Add(1)
			sem <- struct{}{}
			r := rand.New(rand.NewSource(rnd.Int63()))
			go func() {
				defer wg.Done()
				defer func() { <-sem }()
				res := p.Run(x, r, nil)
				mu.Lock()
				if res.Err != nil {
					outcomes["error"]++
				} else {
					outcomes["returned-ok"]++
				}
				mu.Unlock()
			}()
			if rnd.Intn(4) == 0 {
				p.Notify(uint32(10 + rep))
			}
		}
		done := make(chan struct{})
		go func() { wg.Wait(); close(done) }()
		select {
		case <-done:
		case <-time.After(60 * time.Second):
			if st := p.Storm(); st != nil {
				rec.Violation("C13/"+c.Kind+"/message-storm", fmt.Sprintf("more than %d datagrams between the two endpoints; after the limit: %v", wl.StormLimit, st), c)
				return
			}
			rec.Inconclusive("history did not finish within the watchdog")
			return
		}
		if st := p.Storm(); st != nil {
			rec.Violation("C13/"+c.Kind+"/message-storm", fmt.Sprintf("more than %d datagrams between the two endpoints; after the limit: %v", wl.StormLimit, st), c)
			return
		}
		if p.Cli.Context().Err() != nil || p.Srv.Context().Err() != nil {
			// a connection-level error closed a connection: nothing more to measure on it
			rec.Count("histories_ended_by_connection_close", 1)
			return
		}
		p.Drain()
		// before any housekeeping: state that belongs to a CALL (its token continuation, its pending-confirmable entry,
		// its limiter slot, its observation) must be gone as soon as every call has returned and
		// nothing is in flight any more; only caches with a lifetime of their own may wait for the housekeeping
		pre := p.Cli.VerifSizes()
		// (read again for a while before calling it a leftover: "nothing in flight" is judged from outside, and on a busy
		// machine a goroutine of the connection may not have run for milliseconds)
		sim.WaitFor(2*time.Second, func() bool {
			if pre["token_handlers"]+pre["mid_handlers"]+pre["limiter_entries"]+pre["observations"] == 0 {
				return true
			}
			p.Drain()
			time.Sleep(5 * time.Millisecond)
			pre = p.Cli.VerifSizes()
			return false
		})
		// (the per-message-ID lock table is not in this list: an entry exists while ANY received message is being
		// processed, e.g. a late duplicate the default handler is looking at right now - transient, not per call)
		for _, table := range []string{"token_handlers", "mid_handlers", "limiter_entries", "observations"} {
			if n := pre[table]; n != 0 {
				rec.Violation("C13/"+c.Kind+"/client/outlives-the-call/"+table, fmt.Sprintf("all %d exchanges have returned and nothing is in flight, housekeeping has not run yet (repeat %d): %s", len(c.Exchanges), rep, sizesStr(pre)), c)
				return
			}
		}
		rec.Count("pre_housekeeping_points_checked", 1)
		p.Sweep()
		p.Drain()
		p.Sweep()
		for k, v := range outcomes {
			rec.Count("exchanges_"+k, int64(v))
		}
		rec.Count("quiescent_points_checked", 1)
		for side, cc := range map[string]wl.Conn{"client": p.Cli, "server": p.Srv} {
			sz := cc.VerifSizes()
			// what outlives the exchange stays; what is merely in use this instant (a lock taken while a late datagram is
			// being looked at) is gone a moment later: read again before calling it a leftover
			// the same goes for what a late goroutine of the connection stored AFTER the housekeeping runs above (a handler
			// that was still about to cache its response): housekeeping runs again - a leftover is what survives that
			sim.WaitFor(2*time.Second, func() bool {
				if sizesStr(sz) == "[]" {
					return true
				}
				p.Drain()
				time.Sleep(5 * time.Millisecond)
				p.Sweep()
				sz = cc.VerifSizes()
				return false
			})
			for table, n := range sz {
				if n != 0 {
					rec.Violation("C13/"+c.Kind+"/"+side+"/leftover/"+table, fmt.Sprintf("after all %d exchanges returned and the housekeeping ran beyond every deadline (repeat %d): %s", len(c.Exchanges), rep, sizesStr(sz)), c)
					return
				}
			}
			if side == "client" {
				if prev != nil {
					for table, n := range sz {
						if n > prev[table] {
							rec.Violation("C13/"+c.Kind+"/growth/"+table, fmt.Sprintf("repeat %d: %d -> %d", rep, prev[table], n), c)
							return
						}
					}
				}
				prev = sz
			}
		}
	}
}

// liveObservation: a live observation is the only thing that may remain.
func liveObservation(rec *vr.Rec, kind string) {
	var p *wl.Pair
	if kind == "udp" {
		p = wl.NewUDPPair(64, nil)
	} else {
		p, _ = wl.NewTCPPair(64)
	}
	defer p.Close()
	rnd := rand.New(rand.NewSource(5))
	var live []wl.Observation
	for i := 0; i < 3; i++ {
		r := p.Run(wl.Exchange{Kind: "observe-live", Outcome: "ok", ID: 900 + i}, rnd, nil)
		if r.Err != nil {
			rec.Violation("C13/"+kind+"/observe-failed", r.Err.Error(), nil)
			return
		}
		live = append(live, r.LiveObs)
	}
	p.Notify(5)
	p.Drain()
	p.Sweep()
	sz := p.Cli.VerifSizes()
	rec.Eval("live|" + kind)
	if sz["observations"] != 3 {
		rec.Violation("C13/"+kind+"/live-observation-lost", fmt.Sprintf("3 live observations, table has %d", sz["observations"]), nil)
	}
	for i, o := range live {
		ctx, cancel := context.WithTimeout(context.Background(), 5*time.Second)
		_ = o.Cancel(ctx)
		cancel()
		p.Drain()
		p.Sweep()
		if n := p.Cli.VerifSizes()["observations"]; n != 2-i {
			rec.Violation("C13/"+kind+"/client/leftover/observations", fmt.Sprintf("after cancelling %d of 3 observations the table has %d entries", i+1, n), nil)
			return
		}
	}
	sz = p.Cli.VerifSizes()
	sim.WaitFor(2*time.Second, func() bool {
		if sizesStr(sz) == "[]" {
			return true
		}
		p.Drain()
		time.Sleep(5 * time.Millisecond)
		p.Sweep()
		sz = p.Cli.VerifSizes()
		return false
	})
	for table, n := range sz {
		if n != 0 {
			rec.Violation("C13/"+kind+"/client/leftover/"+table, sizesStr(sz), nil)
			return
		}
	}
}

// udpServerTables: peer table and discovery tables of a real udp server on loopback.
func udpServerTables(rec *vr.Rec, rounds int) {
	for round := 0; round < rounds; round++ {
		l, err := coapNet.NewListenUDP("udp4", "127.0.0.1:0")
		if err != nil {
			rec.Inconclusive("cannot listen on loopback: " + err.Error())
			return
		}
		var tick atomic.Pointer[func(now time.Time) bool]
		r := mux.NewRouter()
		_ = r.Handle("/a", mux.HandlerFunc(func(w mux.ResponseWriter, m *mux.Message) {
			_ = w.SetResponse(codes.Content, message.TextPlain, nil)
		}))
		srv := udp.NewServer(options.WithMux(r),
			options.WithInactivityMonitor(10*time.Second, func(cc *udpclient.Conn) { _ = cc.Close() }),
			options.WithPeriodicRunner(func(f func(now time.Time) bool) { tick.Store(&f) }),
			options.WithMessagePool(pool.New(16, 2048)))
		served := make(chan error, 1)
		go func() { served <- srv.Serve(l) }()
		addr := l.LocalAddr().String()
		nClients := 3 + round%4
		var conns []*udpclient.Conn
		for i := 0; i < nClients; i++ {
			cc, err := udp.Dial(addr)
			if err != nil {
				rec.Inconclusive("dial: " + err.Error())
				continue
			}
			ctx, cancel := context.WithTimeout(context.Background(), 5*time.Second)
			resp, err := cc.Get(ctx, "/a")
			cancel()
			if err == nil {
				cc.ReleaseMessage(resp)
			}
			conns = append(conns, cc)
		}
		sz := srv.VerifSizes()
		if sz["peers"] != len(conns) {
			rec.Violation("C13/udp-server/peer-table", fmt.Sprintf("%d clients exchanged a request, peer table has %d", len(conns), sz["peers"]), nil)
		}
		// discovery: unicast to a closed port: returns at the deadline; tables must be empty afterwards
		ctx, cancel := context.WithTimeout(context.Background(), 30*time.Millisecond)
		_ = srv.Discover(ctx, "127.0.0.1:9", "/x", func(cc *udpclient.Conn, resp *pool.Message) {})
		cancel()
		// discoveries that fail while being sent: the context is over before the datagram is written / the address
		// cannot be resolved; a failed discovery leaves nothing behind either
		dead, cancelDead := context.WithCancel(context.Background())
		cancelDead()
		derr1 := srv.Discover(dead, "127.0.0.1:9", "/x", func(cc *udpclient.Conn, resp *pool.Message) {})
		ctx3, cancel3 := context.WithTimeout(context.Background(), 30*time.Millisecond)
		derr2 := srv.Discover(ctx3, "not-an-address:::1", "/x", func(cc *udpclient.Conn, resp *pool.Message) {})
		cancel3()
		if derr1 != nil {
			rec.Count("udp_server_discoveries_failed_in_send", 1)
		}
		if derr2 != nil {
			rec.Count("udp_server_discoveries_failed_in_resolve", 1)
		}
		for _, cc := range conns {
			_ = cc.Close()
		}
		// the peers time out: one tick far beyond the inactivity period closes them, the next removes them
		if f := tick.Load(); f != nil {
			(*f)(time.Now().Add(time.Hour))
			(*f)(time.Now().Add(2 * time.Hour))
		}
		sz = srv.VerifSizes()
		rec.Eval(fmt.Sprintf("udpserver|%d", nClients))
		rec.Count("udp_server_rounds", 1)
		for table, n := range sz {
			if n != 0 {
				rec.Violation("C13/udp-server/leftover/"+table, fmt.Sprintf("after all peers went inactive and discovery returned: %v", sz), nil)
			}
		}
		srv.Stop()
		select {
		case <-served:
		case <-time.After(10 * time.Second):
			rec.Inconclusive("Serve did not return after Stop")
		}
		_ = net.IPv4len
	}
}

func TestRun(t *testing.T) {
	rec := vr.New("C13", "PRNG histories of 10..120 exchanges (kinds: plain GET, block-wise download/upload, observe+cancel, ping, one-way write small/large, duplicate token; outcomes: success, peer silence with deadline, cancel, reset, malformed block, garbage datagram, duplication, write error, not found) on udp and tcp pairs of real connections, 1..8 exchanges in flight, each history repeated 1..5 times on the same connections; after each repeat: all calls returned, relay drained, housekeeping at +2h..+16h virtual time, then every size accessor of client and server must be 0; live observations separately; udp server peer/discovery tables over loopback sockets. Distinct = distinct histories.")
	defer rec.Flush(true)
	seed := vr.Seed()
	rnd := rand.New(rand.NewSource(seed))
	var cases []hcase
	id := 0
	for i := 0; i < vr.Scale(60, 3000); i++ {
		kind := []string{"udp", "udp", "tcp"}[i%3]
		n := 10 + rnd.Intn(111)
		hc := hcase{Kind: kind, Exchanges: genHistory(rnd, kind, n, &id), Parallel: 1 + rnd.Intn(8), Repeat: 1 + rnd.Intn(5), Seed: rnd.Int63()}
		if kind == "udp" && len(cases)%3 == 1 {
			hc.NStart = uint32(1 + rnd.Intn(2)) // exchanges queue up behind unacknowledged ones
			hc.Parallel = 3 + rnd.Intn(6)
		}
		if kind == "udp" && len(cases)%3 == 0 {
			// connections built without a block-wise layer: only exchanges that fit one message
			hc.NoBW = true
			var xs []wl.Exchange
			for _, x := range hc.Exchanges {
				switch x.Kind {
				case "bigget", "bigpost", "oneway-big":
					x.Kind, x.Size = "get", 0
					if x.Outcome == "badblock" {
						x.Outcome = "ok"
					}
				}
				xs = append(xs, x)
			}
			hc.Exchanges = xs
		}
		cases = append(cases, hc)
	}
	// every (kind, outcome) alone, repeated: pinpoints the leaking path
	for _, kind := range []string{"udp", "tcp"} {
		for _, k := range wl.Kinds(kind) {
			for _, o := range wl.Outcomes(kind, k) {
				var xs []wl.Exchange
				for j := 0; j < 6; j++ {
					id++
					xs = append(xs, wl.Exchange{Kind: k, Outcome: o, ID: id, Size: 300, NoDeadline: j%2 == 1})
				}
				cases = append(cases, hcase{Kind: kind, Exchanges: xs, Parallel: 2, Repeat: 2, Seed: rnd.Int63()})
			}
		}
	}
	var wg sync.WaitGroup
	var next atomic.Int64
	for w := 0; w < 8; w++ {
		wg.Add(1)
		go func() {
			defer wg.Done()
			for {
				i := int(next.Add(1)) - 1
				if i >= len(cases) {
					return
				}
				if rec.NViolations() > 25 {
					continue
				}
				c := cases[i]
				runHistory(rec, c)
				rec.Eval(fmt.Sprintf("%s|%d|%d|%d", c.Kind, c.Seed, len(c.Exchanges), c.Repeat))
				rec.Count("histories_"+c.Kind, 1)
				if i < 2 {
					cc := c
					if len(cc.Exchanges) > 8 {
						cc.Exchanges = cc.Exchanges[:8]
					}
					rec.Sample(cc)
				}
			}
		}()
	}
	wg.Wait()
	liveObservation(rec, "udp")
	liveObservation(rec, "tcp")
	udpServerTables(rec, vr.Scale(4, 60))
	keepAliveLeftovers(rec, vr.Scale(8, 200))
	unsendablePings(rec, vr.Scale(12, 120))
	abandonedPing(rec, vr.Scale(9, 90))
	answeredAsyncPing(rec, vr.Scale(10, 100))
	rec.Assume("checked at quiescent points only: all calls returned, the relay moved nothing for several polls, housekeeping ran at +2h..+16h (beyond the 247 s reply lifetime, the block-wise timeouts and the retransmission budget)")
	rec.Assume("a history in which a connection-level error closed a connection ends there (tables of a closed connection are not measured)")
}
