package c09

import (
	"bytes"
	"context"
	"errors"
	"fmt"
	"net"
	"sync"
	"sync/atomic"
	"time"

	"github.com/plgd-dev/go-coap/v3/dtls"
	"github.com/plgd-dev/go-coap/v3/message"
	"github.com/plgd-dev/go-coap/v3/message/pool"

	"verifharness/netenv"
	"verifharness/sim"
	"verifharness/vr"
)

// silentHandshake: "whatever the peer does - silence" includes a dtls peer that is silent from the very first datagram
// on. dtls.Dial returns at once (the handshake happens with the first read or write); the peer here is a bound udp socket
// that never answers, so the handshake never completes. Every blocking operation started on that connection must still
// return within a bounded delay once its context expires / is cancelled, and Close must end whatever is left.
func silentHandshake(rec *vr.Rec, reps int) {
	ops := []string{"get", "post", "observe", "ping", "write-con", "write-non"}
	for rep := 0; rep < reps; rep++ {
		op := ops[rep%len(ops)]
		action := []string{"deadline", "cancel", "close"}[(rep/len(ops))%3]
		c := map[string]any{"scenario": "dtls peer silent from the first datagram on (handshake never completes)", "op": op, "action": action}
		pc, err := net.ListenPacket("udp4", "127.0.0.1:0")
		if err != nil {
			rec.Inconclusive("silent handshake: " + err.Error())
			return
		}
		cc, err := dtls.Dial(pc.LocalAddr().String(), netenv.PSK())
		if err != nil {
			rec.Inconclusive("silent handshake: dial: " + err.Error())
			_ = pc.Close()
			continue
		}
		ctx, cancel := context.WithCancel(context.Background())
		if action == "deadline" {
			cancel()
			ctx, cancel = context.WithTimeout(context.Background(), 150*time.Millisecond)
		}
		done := make(chan error, 1)
		go func() {
			var err error
			switch op {
			case "get":
				var m *pool.Message
				if m, err = cc.Get(ctx, "/a"); err == nil {
					cc.ReleaseMessage(m)
				}
			case "post":
				var m *pool.Message
				if m, err = cc.Post(ctx, "/a", message.TextPlain, bytes.NewReader([]byte("x"))); err == nil {
					cc.ReleaseMessage(m)
				}
			case "observe":
				_, err = cc.Observe(ctx, "/a", func(*pool.Message) {})
			case "ping":
				err = cc.Ping(ctx)
			case "write-con", "write-non":
				req := cc.AcquireMessage(ctx)
				tok, _ := message.GetToken()
				_ = req.SetupPost("/a", tok, message.TextPlain, bytes.NewReader([]byte("w")))
				req.SetType(message.NonConfirmable)
				if op == "write-con" {
					req.SetType(message.Confirmable)
				}
				err = cc.WriteMessage(req)
				cc.ReleaseMessage(req)
			}
			done <- err
		}()
		time.Sleep(150 * time.Millisecond)
		closed := make(chan struct{})
		switch action {
		case "cancel":
			cancel()
		case "close":
			go func() { _ = cc.Close(); close(closed) }()
		}
		rec.Eval(fmt.Sprintf("silent-handshake|%s|%s", op, action))
		rec.Count("silent_handshake_cases", 1)
		returned := false
		select {
		case <-done:
			returned = true
			rec.Count("silent_handshake_calls_returned", 1)
		case <-time.After(watchdog):
			what := map[string]string{"deadline": "deadline", "cancel": "cancel", "close": "close"}[action]
			rec.Violation(fmt.Sprintf("C09/dtls/handshake-pending/%s/does-not-return-after-%s", op, what), fmt.Sprintf("the dtls peer never answered the handshake; %s was blocked and had not returned %v after its context ended / the connection was closed", op, watchdog), c)
		}
		cancel()
		if action != "close" {
			go func() { _ = cc.Close(); close(closed) }()
		}
		select {
		case <-closed:
		case <-time.After(watchdog):
			rec.Violation("C09/dtls/handshake-pending/close-does-not-return", "Close() on a connection whose handshake never completed", c)
		}
		if !returned {
			select {
			case <-done:
			case <-time.After(watchdog):
				rec.Violation(fmt.Sprintf("C09/dtls/handshake-pending/%s/does-not-return-after-close", op), "still blocked after Close() had returned", c)
			}
		}
		select {
		case <-cc.Done():
		case <-time.After(watchdog):
			rec.Violation("C09/dtls/handshake-pending/done-not-signalled", "Close() returned but Done() is not closed", c)
		}
		_ = pc.Close()
	}
}

// brokenAtSetup: a stream connection whose very first write - the capabilities message every stream connection starts with -
// fails (the other end is already gone, a tls peer that talks garbage). The connection object is still handed to the
// application (tcp.Client returns it, servers announce it through OnNewConn), which registers on-close callbacks, closes it
// and waits for its done signal like for any other connection: Close must complete the done signal and run every
// callback exactly once.
func brokenAtSetup(rec *vr.Rec, reps int) {
	for rep := 0; rep < reps; rep++ {
		closers := 1 + rep%3
		c := map[string]any{"scenario": "stream connection whose first write (capabilities message) fails", "concurrent_closers": closers, "close_before_callbacks_registered": rep%2 == 1}
		sc := sim.NewScriptConn()
		sc.WriteErr = errors.New("write: broken pipe")
		cc, err := sim.NewTCPConn(sc, sim.TCPOpts{})
		rec.Eval(fmt.Sprintf("broken-at-setup|%d", rep))
		rec.Count("broken_at_setup_cases", 1)
		if err != nil || cc == nil {
			// refusing to hand out such a connection is clean too
			rec.Count("broken_at_setup_refused_by_constructor", 1)
			continue
		}
		var ran atomic.Int32
		cc.AddOnClose(func() { ran.Add(1) })
		cc.AddOnClose(func() { ran.Add(1) })
		closed := make(chan struct{})
		go func() {
			var wg sync.WaitGroup
			for k := 0; k < closers; k++ {
				wg.Add(1)
				go func() { defer wg.Done(); _ = cc.Close() }()
			}
			wg.Wait()
			close(closed)
		}()
		select {
		case <-closed:
		case <-time.After(watchdog):
			rec.Violation("C09/tcp/broken-at-setup/close-does-not-return", "Close() on a connection whose capabilities message could not be written", c)
			continue
		}
		select {
		case <-cc.Done():
		case <-time.After(watchdog):
			rec.Violation("C09/tcp/broken-at-setup/done-not-signalled", fmt.Sprintf("Close() returned, the done signal had not completed %v later (on-close callbacks run so far: %d of 2)", watchdog, ran.Load()), c)
			continue
		}
		// callbacks run before the done signal completes
		if n := ran.Load(); n != 2 {
			rec.Violation("C09/tcp/broken-at-setup/on-close-callbacks", fmt.Sprintf("2 callbacks registered, %d invocations after the done signal", n), c)
			continue
		}
		ctx, cancel := context.WithTimeout(context.Background(), time.Second)
		_, gerr := cc.Get(ctx, "/a")
		cancel()
		if gerr == nil {
			rec.Violation("C09/tcp/broken-at-setup/request-succeeds-on-closed-connection", "", c)
		}
		rec.Count("broken_at_setup_closed_cleanly", 1)
	}
}
