package c09

import (
	"bytes"
	"context"
	"errors"
	"fmt"
	"net"
	"sync"
	"sync/atomic"
	"time"

	"github.com/plgd-dev/go-coap/v3/dtls"
	"github.com/plgd-dev/go-coap/v3/message"
	"github.com/plgd-dev/go-coap/v3/message/codes"
	"github.com/plgd-dev/go-coap/v3/message/pool"
	"github.com/plgd-dev/go-coap/v3/mux"
	"github.com/plgd-dev/go-coap/v3/options"
	udpclient "github.com/plgd-dev/go-coap/v3/udp/client"

	"verifharness/netenv"
	"verifharness/ref"
	"verifharness/sim"
	"verifharness/vr"
)

// silentHandshake: "whatever the peer does - silence" includes a dtls peer that is silent from the very first datagram
// on. dtls.Dial returns at once (the handshake happens with the first read or write); the peer here is a bound udp socket
// that never answers, so the handshake never completes. Every blocking operation started on that connection must still
// return within a bounded delay once its context expires / is cancelled, and Close must end whatever is left.
func silentHandshake(rec *vr.Rec, reps int) {
	ops := []string{"get", "post", "observe", "ping", "write-con", "write-non"}
	for rep := 0; rep < reps; rep++ {
		op := ops[rep%len(ops)]
		action := []string{"deadline", "cancel", "close"}[(rep/len(ops))%3]
		c := map[string]any{"scenario": "dtls peer silent from the first datagram on (handshake never completes)", "op": op, "action": action}
		pc, err := net.ListenPacket("udp4", "127.0.0.1:0")
		if err != nil {
			rec.Inconclusive("silent handshake: " + err.Error())
			return
		}
		cc, err := dtls.Dial(pc.LocalAddr().String(), netenv.PSK())
		if err != nil {
			rec.Inconclusive("silent handshake: dial: " + err.Error())
			_ = pc.Close()
			continue
		}
		ctx, cancel := context.WithCancel(context.Background())
		if action == "deadline" {
			cancel()
			ctx, cancel = context.WithTimeout(context.Background(), 150*time.Millisecond)
		}
		done := make(chan error, 1)
		go func() {
			var err error
			switch op {
			case "get":
				var m *pool.Message
				if m, err = cc.Get(ctx, "/a"); err == nil {
					cc.ReleaseMessage(m)
				}
			case "post":
				var m *pool.Message
				if m, err = cc.Post(ctx, "/a", message.TextPlain, bytes.NewReader([]byte("x"))); err == nil {
					cc.ReleaseMessage(m)
				}
			case "observe":
				_, err = cc.Observe(ctx, "/a", func(*pool.Message) {})
			case "ping":
				err = cc.Ping(ctx)
			case "write-con", "write-non":
				req := cc.AcquireMessage(ctx)
				tok, _ := message.GetToken()
				_ = req.SetupPost("/a", tok, message.TextPlain, bytes.NewReader([]byte("w")))
				req.SetType(message.NonConfirmable)
				if op == "write-con" {
					req.SetType(message.Confirmable)
				}
				err = cc.WriteMessage(req)
				cc.ReleaseMessage(req)
			}
			done <- err
		}()
		time.Sleep(150 * time.Millisecond)
		closed := make(chan struct{})
		switch action {
		case "cancel":
			cancel()
		case "close":
			go func() { _ = cc.Close(); close(closed) }()
		}
		rec.Eval(fmt.Sprintf("silent-handshake|%s|%s", op, action))
		rec.Count("silent_handshake_cases", 1)
		returned := false
		select {
		case <-done:
			returned = true
			rec.Count("silent_handshake_calls_returned", 1)
		case <-time.After(watchdog):
			what := map[string]string{"deadline": "deadline", "cancel": "cancel", "close": "close"}[action]
			rec.Violation(fmt.Sprintf("C09/dtls/handshake-pending/%s/does-not-return-after-%s", op, what), fmt.Sprintf("the dtls peer never answered the handshake; %s was blocked and had not returned %v after its context ended / the connection was closed", op, watchdog), c)
		}
		cancel()
		if action != "close" {
			go func() { _ = cc.Close(); close(closed) }()
		}
		select {
		case <-closed:
		case <-time.After(watchdog):
			rec.Violation("C09/dtls/handshake-pending/close-does-not-return", "Close() on a connection whose handshake never completed", c)
		}
		if !returned {
			select {
			case <-done:
			case <-time.After(watchdog):
				rec.Violation(fmt.Sprintf("C09/dtls/handshake-pending/%s/does-not-return-after-close", op), "still blocked after Close() had returned", c)
			}
		}
		select {
		case <-cc.Done():
		case <-time.After(watchdog):
			rec.Violation("C09/dtls/handshake-pending/done-not-signalled", "Close() returned but Done() is not closed", c)
		}
		_ = pc.Close()
	}
}

// brokenAtSetup: a stream connection whose very first write - the capabilities message every stream connection starts with -
// fails (the other end is already gone, a tls peer that talks garbage). The connection object is still handed to the
// application (tcp.Client returns it, servers announce it through OnNewConn), which registers on-close callbacks, closes it
// and waits for its done signal like for any other connection: Close must complete the done signal and run every
// callback exactly once.
func brokenAtSetup(rec *vr.Rec, reps int) {
	for rep := 0; rep < reps; rep++ {
		closers := 1 + rep%3
		c := map[string]any{"scenario": "stream connection whose first write (capabilities message) fails", "concurrent_closers": closers, "close_before_callbacks_registered": rep%2 == 1}
		sc := sim.NewScriptConn()
		sc.WriteErr = errors.New("write: broken pipe")
		cc, err := sim.NewTCPConn(sc, sim.TCPOpts{})
		rec.Eval(fmt.Sprintf("broken-at-setup|%d", rep))
		rec.Count("broken_at_setup_cases", 1)
		if err != nil || cc == nil {
			// refusing to hand out such a connection is clean too
			rec.Count("broken_at_setup_refused_by_constructor", 1)
			continue
		}
		// (the connection may already have ended by itself - its run loop saw the failed write - before the application gets
		// to register anything: callbacks registered after the end are not owed a call. What is checked is "never twice".)
		var ran, ranA, ranB atomic.Int32
		cc.AddOnClose(func() { ran.Add(1); ranA.Add(1) })
		cc.AddOnClose(func() { ran.Add(1); ranB.Add(1) })
		closed := make(chan struct{})
		go func() {
			var wg sync.WaitGroup
			for k := 0; k < closers; k++ {
				wg.Add(1)
				go func() { defer wg.Done(); _ = cc.Close() }()
			}
			wg.Wait()
			close(closed)
		}()
		select {
		case <-closed:
		case <-time.After(watchdog):
			rec.Violation("C09/tcp/broken-at-setup/close-does-not-return", "Close() on a connection whose capabilities message could not be written", c)
			continue
		}
		select {
		case <-cc.Done():
		case <-time.After(watchdog):
			rec.Violation("C09/tcp/broken-at-setup/done-not-signalled", fmt.Sprintf("Close() returned, the done signal had not completed %v later (on-close callbacks run so far: %d of 2)", watchdog, ran.Load()), c)
			continue
		}
		time.Sleep(300 * time.Microsecond)
		if ranA.Load() > 1 || ranB.Load() > 1 {
			rec.Violation("C09/tcp/broken-at-setup/on-close-callback-ran-twice", fmt.Sprintf("invocations: %d and %d", ranA.Load(), ranB.Load()), c)
			continue
		}
		if ran.Load() == 2 {
			rec.Count("broken_at_setup_callbacks_ran", 1)
		}
		ctx, cancel := context.WithTimeout(context.Background(), time.Second)
		_, gerr := cc.Get(ctx, "/a")
		cancel()
		if gerr == nil {
			rec.Violation("C09/tcp/broken-at-setup/request-succeeds-on-closed-connection", "", c)
		}
		rec.Count("broken_at_setup_closed_cleanly", 1)
	}
}

type ctxKey struct{ name string }

// serverPeerWithContextValue: on a udp server the connection to a peer is the server's own object, and applications
// decorate it: OnNewConn stores values in its context (SetContextValue) and registers on-close callbacks. Closing such a
// connection - by the application, or with the server - must do what closing any connection does: run every callback
// exactly once, complete the done signal, and let the same remote address be served again afterwards.
func serverPeerWithContextValue(rec *vr.Rec, reps int) {
	for rep := 0; rep < reps; rep++ {
		values := rep % 3 // how many values the application stores
		how := []string{"closed-by-application", "server-stopped"}[(rep/3)%2]
		c := map[string]any{"scenario": "udp server-side peer connection decorated with context values", "values_set": values, "ended_by": how}
		var mu sync.Mutex
		var conns []*udpclient.Conn
		var ran atomic.Int32
		r := mux.NewRouter()
		_ = r.Handle("/a", mux.HandlerFunc(func(w mux.ResponseWriter, m *mux.Message) {
			_ = w.SetResponse(codes.Content, message.TextPlain, bytes.NewReader([]byte("ok")))
		}))
		so := netenv.ServerOpts{Router: r}
		// (a udp server reaps closed peer connections with its housekeeping: let that run every 40 ms, not every 4 s)
		so.Udp = append(so.Udp, options.WithPeriodicRunner(func(f func(now time.Time) bool) {
			go func() {
				for f(time.Now()) {
					time.Sleep(40 * time.Millisecond)
				}
			}()
		}), options.WithOnNewConn(func(cc *udpclient.Conn) {
			for k := 0; k < values; k++ {
				cc.SetContextValue(ctxKey{fmt.Sprintf("k%d", k)}, k)
			}
			cc.AddOnClose(func() { ran.Add(1) })
			mu.Lock()
			conns = append(conns, cc)
			mu.Unlock()
		}))
		srv, err := netenv.Start("udp", so)
		if err != nil {
			rec.Inconclusive("server peer with context value: " + err.Error())
			return
		}
		pc, derr := net.Dial("udp4", srv.Addr)
		if derr != nil {
			srv.Stop()
			continue
		}
		ask := func(mid uint16) bool {
			_, _ = pc.Write(ref.EncodeUDP(ref.Msg{Type: 0, Code: 1, MID: mid, Token: []byte{0x09, byte(mid)}, Opts: []ref.Opt{{ID: 11, Val: []byte("a")}}}))
			buf := make([]byte, 256)
			_ = pc.SetReadDeadline(time.Now().Add(2 * time.Second))
			n, rerr := pc.Read(buf)
			if rerr != nil {
				return false
			}
			m, perr := ref.ParseUDP(buf[:n])
			return perr == nil && m.Code == 0x45
		}
		rec.Eval(fmt.Sprintf("server-peer-ctx-value|%d|%s", values, how))
		rec.Count("server_peer_context_value_cases", 1)
		if !ask(10) {
			rec.Inconclusive("server peer with context value: first request not answered")
			_ = pc.Close()
			srv.Stop()
			continue
		}
		mu.Lock()
		var cc *udpclient.Conn
		if len(conns) > 0 {
			cc = conns[0]
		}
		mu.Unlock()
		if cc == nil {
			rec.Inconclusive("server peer with context value: OnNewConn not called")
			_ = pc.Close()
			srv.Stop()
			continue
		}
		if how == "closed-by-application" {
			var wg sync.WaitGroup
			for k := 0; k < 3; k++ {
				wg.Add(1)
				go func() { defer wg.Done(); _ = cc.Close() }()
			}
			wg.Wait()
		} else {
			srv.Stop()
		}
		bad := false
		select {
		case <-cc.Done():
		case <-time.After(watchdog):
			rec.Violation("C09/udp-server/peer-connection/done-not-signalled", fmt.Sprintf("the connection was %s; its done signal had not completed %v later (on-close callbacks run: %d of 1)", how, watchdog, ran.Load()), c)
			bad = true
		}
		if !bad {
			time.Sleep(300 * time.Microsecond)
			if n := ran.Load(); n != 1 {
				rec.Violation("C09/udp-server/peer-connection/on-close-callbacks", fmt.Sprintf("one callback registered, %d invocations after the connection was %s", n, how), c)
				bad = true
			}
		}
		if !bad && how == "closed-by-application" {
			if !ask(11) {
				rec.Violation("C09/udp-server/peer-connection/remote-not-served-after-close", "the application closed the connection to a peer; a new request from the same remote address got no answer (the closed connection is still in the server's table)", c)
				bad = true
			}
		}
		if !bad {
			rec.Count("server_peer_connections_closed_cleanly", 1)
		}
		_ = pc.Close()
		srv.Stop()
		select {
		case <-srv.Served:
		case <-time.After(10 * time.Second):
		}
	}
}
