// C09 — blocking calls always end on cancellation or close; close is clean.
//
// Monitor: every (transport, operation, interruption point, action, peer behaviour) case
// runs the operation in a goroutine, waits (on events, not sleeps) until the interruption
// point is reached, performs the action and requires the operation to return within a
// bounded-progress watchdog; on every connection the done signal must close and every
// registered on-close callback must have run exactly once, also with Close called from
// several goroutines at once. In-memory transports script silent / garbage / half-open /
// ack-only peers and mid-transfer stalls; udp, dtls, tcp and tls run over loopback sockets
// against a real server (incl. server Stop).
package c09

import (
	"bytes"
	"context"
	"fmt"
	"net"
	"os"
	"runtime"
	"strings"
	"sync"
	"sync/atomic"
	"testing"
	"time"

	"github.com/plgd-dev/go-coap/v3/message"
	"github.com/plgd-dev/go-coap/v3/message/codes"
	"github.com/plgd-dev/go-coap/v3/message/pool"
	"github.com/plgd-dev/go-coap/v3/mux"
	"github.com/plgd-dev/go-coap/v3/net/responsewriter"
	"github.com/plgd-dev/go-coap/v3/options"
	"github.com/plgd-dev/go-coap/v3/tcp"
	tcpclient "github.com/plgd-dev/go-coap/v3/tcp/client"
	"github.com/plgd-dev/go-coap/v3/udp"
	udpclient "github.com/plgd-dev/go-coap/v3/udp/client"

	"verifharness/netenv"
	"verifharness/ref"
	"verifharness/sim"
	"verifharness/vr"
)

const watchdog = 6 * time.Second

type ccase struct {
	Transport string `json:"transport"`
	Op        string `json:"operation"`
	Point     string `json:"interruption_point"`
	Action    string `json:"action"`
	Peer      string `json:"peer"`
	Closers   int    `json:"concurrent_closers,omitempty"`
}

// env is one client connection plus the control surface over its peer.
type env struct {
	c         ccase
	cc        netenv.Conn
	seen      func(path string) bool // wait until the peer has seen a request for path
	ack       func(path string)      // udp: acknowledge (empty ACK) the request for path
	answer    func(path string, body string)
	continue1 func(path string) // answer the first Block1 block with 2.31
	peerClose func()
	// peerConnClose: the peer closes THIS connection (server-side Close of the per-peer connection: FIN / close_notify)
	peerConnClose func()
	stall         func() // stream: the peer stops reading
	cleanup       func()
	closeCnt      [3]atomic.Int32
}

// ---------------------------------------------------------------- in-memory transports

func newMemEnv(c ccase, limit int64, nstart uint32) (*env, error) {
	e := &env{c: c}
	switch c.Transport {
	case "udp-mem":
		s := sim.NewMemSession()
		cc := sim.NewUDPConn(s, sim.UDPOpts{Blockwise: true, SZX: 2, Mutate: func(cfg *udpclient.Config) {
			cfg.LimitClientParallelRequests = limit
			cfg.LimitClientEndpointParallelRequests = limit
			cfg.TransmissionNStart = nstart
			cfg.GetMID = func() int32 { return int32((40000 + 0xffff/2) & 0xffff) }
		}})
		e.cc = cc
		find := func(path string) (ref.Msg, bool) {
			for _, d := range s.Log() {
				if m, err := ref.ParseUDP(d.Data); err == nil && m.Code >= 1 && m.Code <= 4 && strings.HasPrefix(ref.PathOf(m), path) {
					return m, true
				}
			}
			return ref.Msg{}, false
		}
		e.seen = func(path string) bool {
			return sim.WaitFor(watchdog, func() bool { _, ok := find(path); return ok })
		}
		e.ack = func(path string) {
			if m, ok := find(path); ok {
				_ = cc.Process(nil, ref.EncodeUDP(ref.Msg{Type: 2, Code: 0, MID: m.MID}))
			}
		}
		e.answer = func(path, body string) {
			if m, ok := find(path); ok {
				opts := []ref.Opt(nil)
				if v, has := m.GetUint(6); has && v == 0 {
					opts = []ref.Opt{{ID: 6, Val: []byte{3}}}
				}
				_ = cc.Process(nil, ref.EncodeUDP(ref.Msg{Type: 2, Code: 0x45, MID: m.MID, Token: m.Token, Opts: opts, Payload: []byte(body)}))
			}
		}
		e.continue1 = func(path string) {
			if m, ok := find(path); ok {
				b1, _ := m.GetUint(27)
				_ = cc.Process(nil, ref.EncodeUDP(ref.Msg{Type: 2, Code: 2<<5 | 31, MID: m.MID, Token: m.Token, Opts: []ref.Opt{{ID: 27, Val: ref.Uint(b1)}}}))
			}
		}
		if c.Peer == "garbage" {
			go func() {
				for i := 0; i < 50 && cc.Context().Err() == nil; i++ {
					_ = cc.Process(nil, []byte{0x40 | byte(i), 0xff, byte(i), 1, 0xff})
					_ = cc.Process(nil, ref.EncodeUDP(ref.Msg{Type: 2, Code: 0x45, MID: uint16(i), Token: []byte{9, 9, byte(i)}, Payload: []byte("unsolicited")}))
					time.Sleep(100 * time.Microsecond)
				}
			}()
		}
		e.peerClose = func() {}
		e.cleanup = func() {}
	case "tcp-mem":
		sc := sim.NewScriptConn()
		cc, err := sim.NewTCPConn(sc, sim.TCPOpts{Mutate: func(cfg *tcpclient.Config) {
			cfg.LimitClientParallelRequests = limit
			cfg.LimitClientEndpointParallelRequests = limit
			cfg.BlockwiseSZX = 2
		}})
		if err != nil {
			return nil, err
		}
		sim.AnnounceBlockwise(sc, cc, ref.EncodeTCP(ref.Msg{Code: 7<<5 | 1, Opts: []ref.Opt{{ID: 2, Val: ref.Uint(1152)}, {ID: 4, Val: nil}}}))
		e.cc = cc
		find := func(path string) (ref.Msg, bool) {
			ms, _ := ref.ParseTCPStream(sc.Written())
			for _, m := range ms {
				if m.Code >= 1 && m.Code <= 4 && strings.HasPrefix(ref.PathOf(m), path) {
					return m, true
				}
			}
			return ref.Msg{}, false
		}
		e.seen = func(path string) bool {
			return sim.WaitFor(watchdog, func() bool { _, ok := find(path); return ok })
		}
		e.ack = func(string) {}
		e.answer = func(path, body string) {
			if m, ok := find(path); ok {
				opts := []ref.Opt(nil)
				if v, has := m.GetUint(6); has && v == 0 {
					opts = []ref.Opt{{ID: 6, Val: []byte{3}}}
				}
				sc.Feed(ref.EncodeTCP(ref.Msg{Code: 0x45, Token: m.Token, Opts: opts, Payload: []byte(body)}))
			}
		}
		e.continue1 = func(path string) {
			if m, ok := find(path); ok {
				b1, _ := m.GetUint(27)
				sc.Feed(ref.EncodeTCP(ref.Msg{Code: 2<<5 | 31, Token: m.Token, Opts: []ref.Opt{{ID: 27, Val: ref.Uint(b1)}}}))
			}
		}
		if c.Peer == "garbage" {
			// well-framed but meaningless traffic (a framing error would close the connection, which is a different case)
			go func() {
				for i := 0; i < 50 && cc.Context().Err() == nil; i++ {
					sc.Feed(ref.EncodeTCP(ref.Msg{Code: 0x45, Token: []byte{9, 9, byte(i)}, Payload: []byte("unsolicited")}))
					sc.Feed(ref.EncodeTCP(ref.Msg{Code: 7<<5 | 3, Token: []byte{byte(i)}}))
					time.Sleep(100 * time.Microsecond)
				}
			}()
		}
		e.stall = func() { sc.StallWrites(true) }
		e.peerClose = func() {
			if c.Closers%2 == 0 {
				sc.FeedEOF()
			} else {
				sc.FeedErr(sim.ErrReset)
			}
		}
		e.cleanup = func() {}
	}
	return e, nil
}

// ---------------------------------------------------------------- loopback sockets

type sockServer struct {
	conns sync.Map // server-side connections seen by the handler

	srv     *netenv.Server
	mu      sync.Mutex
	seenCh  map[string]chan struct{}
	release chan struct{}
}

func (ss *sockServer) mark(path string) {
	ss.mu.Lock()
	ch, ok := ss.seenCh[path]
	if !ok {
		ch = make(chan struct{})
		ss.seenCh[path] = ch
	}
	select {
	case <-ch:
	default:
		close(ch) // under the mutex: two handlers may mark the same path at the same time
	}
	ss.mu.Unlock()
}

func (ss *sockServer) wait(path string) bool {
	ss.mu.Lock()
	ch, ok := ss.seenCh[path]
	if !ok {
		ch = make(chan struct{})
		ss.seenCh[path] = ch
	}
	ss.mu.Unlock()
	select {
	case <-ch:
		return true
	case <-time.After(watchdog):
		return false
	}
}

func newSockServer(kind string) (*sockServer, error) {
	ss := &sockServer{seenCh: map[string]chan struct{}{}, release: make(chan struct{})}
	r := mux.NewRouter()
	r.DefaultHandle(mux.HandlerFunc(func(w mux.ResponseWriter, m *mux.Message) {
		path, _ := m.Options().Path()
		ss.conns.Store(w.Conn(), true)
		ss.mark(path)
		switch {
		case strings.HasPrefix(path, "/hang"):
			<-ss.release // silent peer: neither acknowledgement nor response while the case runs
		case strings.HasPrefix(path, "/ackonly"):
			// no response: a confirmable request only gets its empty acknowledgement
		case strings.HasPrefix(path, "/obs"):
			if v, err := m.Observe(); err == nil && v == 0 {
				_ = w.SetResponse(codes.Content, message.TextPlain, bytes.NewReader([]byte("o")), message.Option{ID: message.Observe, Value: []byte{2}})
				return
			}
			<-ss.release // cancellation request: silent
		default:
			_ = w.SetResponse(codes.Content, message.TextPlain, bytes.NewReader([]byte("ok")))
		}
	}))
	srv, err := netenv.Start(kind, netenv.ServerOpts{Router: r, HandshakeTimeout: 2 * time.Second})
	if err != nil {
		return nil, err
	}
	ss.srv = srv
	return ss, nil
}

func newSockEnv(c ccase, limit int64, nstart uint32) (*env, error) {
	ss, err := newSockServer(c.Transport)
	if err != nil {
		return nil, err
	}
	e := &env{c: c}
	var co netenv.ClientOpts
	co.Udp = []udp.Option{options.WithLimitClientParallelRequest(limit), options.WithLimitClientEndpointParallelRequest(limit), options.WithTransmission(nstart, time.Hour, 2)}
	co.Tcp = []tcp.Option{options.WithLimitClientParallelRequest(limit), options.WithLimitClientEndpointParallelRequest(limit)}
	cc, err := ss.srv.Dial(co)
	if err != nil {
		ss.srv.Stop()
		return nil, err
	}
	e.cc = cc
	e.seen = ss.wait
	e.ack = func(string) {}
	e.answer = func(string, string) {}
	e.continue1 = func(string) {}
	stopped := false
	var smu sync.Mutex
	stop := func() {
		smu.Lock()
		defer smu.Unlock()
		if stopped {
			return
		}
		stopped = true
		select {
		case <-ss.release:
		default:
			close(ss.release)
		}
		ss.srv.Stop()
	}
	e.peerClose = stop
	e.peerConnClose = func() {
		select {
		case <-ss.release:
		default:
			// handlers parked in "/hang" stay parked: the peer connection is closed under them
		}
		ss.conns.Range(func(k, _ any) bool {
			if c, ok := k.(interface{ Close() error }); ok {
				_ = c.Close()
			}
			return true
		})
	}
	e.cleanup = func() {
		stop()
		select {
		case <-ss.srv.Served:
		case <-time.After(watchdog):
		}
	}
	return e, nil
}

// ---------------------------------------------------------------- operations

func pathFor(c ccase, what string) string {
	switch c.Peer {
	case "ackonly":
		return "/ackonly/" + what
	}
	return "/hang/" + what
}

// runOp performs the blocking operation; it returns when the library call returned.
// closeBounded runs n concurrent Close() calls (twice each when twice is set) and waits for them with the watchdog: a Close
// that does not return is a verdict of its own (and must not take the monitor down with it).
func closeBounded(rec *vr.Rec, e *env, c ccase, n int, twice bool) bool {
	var wg sync.WaitGroup
	for i := 0; i < n; i++ {
		wg.Add(1)
		go func() {
			defer wg.Done()
			defer func() {
				if r := recover(); r != nil {
					rec.Violation("C09/"+c.Transport+"/close-panics", fmt.Sprint(r), c)
				}
			}()
			_ = e.cc.Close()
			if twice {
				_ = e.cc.Close()
			}
		}()
	}
	ch := make(chan struct{})
	go func() { wg.Wait(); close(ch) }()
	select {
	case <-ch:
		return true
	case <-time.After(watchdog):
		what := "close-does-not-return"
		if c.Peer == "noread" {
			what = "close-does-not-return-while-peer-never-reads"
		}
		rec.Violation("C09/"+strings.TrimSuffix(c.Transport, "-mem")+"/"+what, fmt.Sprintf("%d concurrent Close() call(s) had not returned after %v (%s at point %s, %s peer, action %s)", n, watchdog, c.Op, c.Point, c.Peer, c.Action), c)
		return false
	}
}

func runOp(e *env, ctx context.Context, op string) error {
	cc := e.cc
	switch op {
	case "get":
		m, err := cc.Get(ctx, pathFor(e.c, "get"))
		if err == nil {
			cc.ReleaseMessage(m)
		}
		return err
	case "post-blockwise":
		m, err := cc.Post(ctx, pathFor(e.c, "post"), message.AppOctets, bytes.NewReader(make([]byte, 900)))
		if err == nil {
			cc.ReleaseMessage(m)
		}
		return err
	case "observe":
		o, err := cc.Observe(ctx, pathFor(e.c, "observe"), func(*pool.Message) {})
		if err == nil {
			_ = o
		}
		return err
	case "observe-cancel":
		// registration succeeds (peer answers), cancellation is what blocks
		done := make(chan struct{})
		var o interface {
			Cancel(context.Context, ...message.Option) error
		}
		var err error
		go func() {
			defer close(done)
			rctx, rc := context.WithTimeout(context.Background(), watchdog)
			defer rc()
			o, err = cc.Observe(rctx, "/obs/x", func(*pool.Message) {})
		}()
		if strings.HasSuffix(e.c.Transport, "-mem") {
			if e.seen("/obs/x") {
				e.answer("/obs/x", "first")
			}
		}
		<-done
		if err != nil {
			return fmt.Errorf("registration failed: %w", err)
		}
		return o.Cancel(ctx)
	case "ping":
		return cc.Ping(ctx)
	case "write-con", "write-non":
		req := cc.AcquireMessage(ctx)
		defer cc.ReleaseMessage(req)
		tok, _ := message.GetToken()
		_ = req.SetupPost(pathFor(e.c, "write"), tok, message.TextPlain, bytes.NewReader([]byte("w")))
		if op == "write-con" {
			req.SetType(message.Confirmable)
		} else {
			req.SetType(message.NonConfirmable)
		}
		return cc.WriteMessage(req)
	}
	return fmt.Errorf("unknown op")
}

func seenPath(c ccase) string {
	switch c.Op {
	case "get":
		return pathFor(c, "get")
	case "post-blockwise":
		return pathFor(c, "post")
	case "observe":
		return pathFor(c, "observe")
	case "observe-cancel":
		return "/obs/x"
	case "write-con", "write-non":
		return pathFor(c, "write")
	}
	return ""
}

func stackOf(sub ...string) bool {
	buf := make([]byte, 8<<20)
	n := runtime.Stack(buf, true)
	s := string(buf[:n])
	for _, x := range sub {
		if strings.Contains(s, x) {
			return true
		}
	}
	return false
}

func runCase(rec *vr.Rec, c ccase) {
	limit := int64(1 << 20)
	nstart := uint32(1 << 20)
	if c.Point == "limiter" {
		limit = 1
	}
	if c.Point == "nstart" {
		nstart = 1
	}
	var e *env
	var err error
	if strings.HasSuffix(c.Transport, "-mem") {
		e, err = newMemEnv(c, limit, nstart)
	} else {
		e, err = newSockEnv(c, limit, nstart)
	}
	if err != nil {
		rec.Inconclusive("cannot set up " + c.Transport + ": " + err.Error())
		return
	}
	defer e.cleanup()
	for i := range e.closeCnt {
		i := i
		e.cc.AddOnClose(func() { e.closeCnt[i].Add(1) })
	}
	ctx, cancel := context.WithCancel(context.Background())
	defer cancel()
	if c.Action == "deadline" {
		// the deadline is the action: it fires on its own
		ctx, cancel = context.WithTimeout(context.Background(), 60*time.Millisecond)
		defer cancel()
	}
	act := func() {
		switch c.Action {
		case "cancel":
			cancel()
		case "deadline":
		case "close":
			n := c.Closers
			if n < 1 {
				n = 1
			}
			closeBounded(rec, e, c, n, true)
		case "peer-conn-close":
			if e.peerConnClose != nil {
				e.peerConnClose()
			}
		case "peer-close", "stop":
			e.peerClose()
		}
	}
	// blockers for the queued points
	var blockers sync.WaitGroup
	bctx, bcancel := context.WithCancel(context.Background())
	defer func() { bcancel(); blockers.Wait() }()
	if c.Point == "limiter" || c.Point == "nstart" {
		blockers.Add(1)
		go func() {
			defer blockers.Done()
			// same path as the operation under test: the per-endpoint limiter queues by path
			bc := c
			switch c.Op {
			case "get", "observe", "ping", "observe-cancel":
				bc.Op = "get"
			}
			m, err := e.cc.Get(bctx, seenPath(bc)+"")
			if err == nil {
				e.cc.ReleaseMessage(m)
			}
		}()
		if p := seenPath(ccase{Op: "get", Peer: c.Peer}); !e.seen(p) {
			rec.Inconclusive("blocker request not seen")
			return
		}
	}
	if c.Peer == "noread" && e.stall != nil {
		e.stall()
	}
	if c.Point == "before" {
		act()
	}
	done := make(chan error, 1)
	// an on-close callback that waits (bounded) for the connection's users, as applications do: by the time on-close
	// callbacks run the connection context is cancelled, so a blocked operation is already on its way out
	opReturned := make(chan struct{})
	var opStarted, blockedAtOnClose atomic.Bool
	e.cc.AddOnClose(func() {
		if !opStarted.Load() {
			return
		}
		select {
		case <-opReturned:
		case <-time.After(3 * time.Second):
			blockedAtOnClose.Store(true)
		}
	})
	opStarted.Store(true)
	go func() { err := runOp(e, ctx, c.Op); close(opReturned); done <- err }()
	reached := true
	switch c.Point {
	case "after-send":
		if p := seenPath(c); p != "" && c.Peer != "noread" {
			reached = e.seen(p)
		} else {
			time.Sleep(2 * time.Millisecond)
		}
	case "after-ack":
		if p := seenPath(c); p != "" {
			reached = e.seen(p)
			e.ack(p)
			time.Sleep(300 * time.Microsecond)
		}
	case "mid-blockwise":
		if p := seenPath(c); p != "" {
			reached = e.seen(p)
			e.continue1(p)
			time.Sleep(500 * time.Microsecond)
		}
	case "limiter", "nstart":
		time.Sleep(2 * time.Millisecond) // the operation is queued behind the blocker (no event to wait for)
	}
	if !reached {
		select {
		case err := <-done:
			// the operation ended before the interruption point (e.g. refused at once): nothing to interrupt
			_ = err
			rec.Count("cases_ended_before_interruption_point", 1)
		default:
			rec.Inconclusive(fmt.Sprintf("interruption point %s not reached for %+v", c.Point, c))
		}
		return
	}
	if c.Point != "before" {
		act()
	}
	t0 := time.Now()
	select {
	case <-done:
		rec.Count("operations_returned_after_action", 1)
		rec.Max("max_return_latency_us", time.Since(t0).Microseconds())
		if blockedAtOnClose.Load() {
			rec.Violation(fmt.Sprintf("C09/%s/%s/released-only-after-on-close-callbacks", strings.TrimSuffix(c.Transport, "-mem"), c.Op), fmt.Sprintf("%s at point %s, action %s: the connection was closed and its on-close callbacks ran, but the blocked call was still blocked 3 s later; it returned only after the callbacks had finished (an on-close callback that waits for the connection's users deadlocks)", c.Op, c.Point, c.Action), c)
			return
		}
	case <-time.After(watchdog):
		// second stage: is the call parked inside the library?
		if stackOf("client.(*Conn).doInternal", "client.(*Conn).waitForAcknowledge", "observation.(*Handler", "client.(*Client[", "limitParallelRequests", "net.(*Conn).WriteWithContext", "acquireOutstandingInteraction") {
			sig := fmt.Sprintf("C09/%s/%s/does-not-return-after-%s", strings.TrimSuffix(c.Transport, "-mem"), c.Op, c.Action)
			if c.Peer == "noread" {
				sig = fmt.Sprintf("C09/stream-peer-never-reads/%s/%s", c.Action, c.Op)
			}
			noticed := false
			select {
			case <-e.cc.Done():
				noticed = true
			default:
			}
			if os.Getenv("VERIF_DBG") != "" {
				buf := make([]byte, 1<<22)
				buf = buf[:runtime.Stack(buf, true)]
				_ = os.WriteFile(fmt.Sprintf("/tmp/c09dump.%d.%s.%s.%s.txt", os.Getpid(), c.Transport, c.Op, c.Action), buf, 0o644)
			}
			if c.Transport == "dtls" && c.Action == "peer-conn-close" && !noticed {
				// On a datagram transport the peer's close exists for this endpoint only if the close_notify record
				// arrives and is accepted; here it did not (the connection's own done signal is not set either, the read
				// loop is still waiting for records). Nothing has been "closed by either side" as far as this endpoint
				// can know: no verdict. (Seen only with many copies of the check running at once.)
				rec.Inconclusive("dtls: the peer's close_notify never reached the client; the blocked call is not judged")
				rec.Count("dtls_peer_close_not_noticed_by_client", 1)
			} else {
				rec.Violation(sig, fmt.Sprintf("%s at point %s against a %s peer: the call had not returned %v after the %s (the connection's done signal is set: %v)", c.Op, c.Point, c.Peer, watchdog, c.Action, noticed), c)
			}
		} else {
			rec.Inconclusive("watchdog fired but no goroutine is parked in the library")
		}
		cancel()
		if closeBounded(rec, e, c, 1, false) {
			select {
			case <-done:
			case <-time.After(watchdog):
			}
		}
		return
	}
	// close must be clean
	if !closeBounded(rec, e, c, 1+c.Closers%4, false) {
		return
	}
	select {
	case <-e.cc.Done():
	case <-time.After(watchdog):
		rec.Violation("C09/"+strings.TrimSuffix(c.Transport, "-mem")+"/done-never-closes", "Done() did not close after Close()", c)
		return
	}
	time.Sleep(200 * time.Microsecond)
	for i := range e.closeCnt {
		if v := e.closeCnt[i].Load(); v != 1 {
			rec.Violation("C09/"+strings.TrimSuffix(c.Transport, "-mem")+"/on-close-count", fmt.Sprintf("on-close callback %d ran %d times", i, v), c)
			return
		}
	}
	rec.Count("connections_closed_cleanly", 1)
}

func TestRun(t *testing.T) {
	rec := vr.New("C09", "fault enumeration: operations {GET, block-wise POST, observe registration, observation cancel, ping, confirmable and non-confirmable one-way write} x transports {udp and tcp in memory with scripted peers; udp, dtls, tcp, tls over loopback against a real server} x interruption points {before the call, after the request reached the peer, after the empty ACK, mid block-wise transfer, queued behind the parallel-request limiter, queued behind NSTART} x actions {context cancel, context deadline, local Close (1..8 goroutines, twice each), peer close/reset, server Stop} x peers {silent, garbage, never-reading stream, ack-without-response}; every valid combination once. Distinct = distinct case tuples.")
	defer rec.Flush(true)
	var cases []ccase
	add := func(c ccase) { cases = append(cases, c) }
	ops := []string{"get", "post-blockwise", "observe", "observe-cancel", "ping", "write-con", "write-non"}
	closers := 0
	for _, tr := range []string{"udp-mem", "tcp-mem", "udp", "dtls", "tcp", "tls"} {
		mem := strings.HasSuffix(tr, "-mem")
		datagram := tr == "udp-mem" || tr == "udp" || tr == "dtls"
		for _, op := range ops {
			if op == "write-con" && !datagram {
				continue
			}
			points := []string{"before", "after-send"}
			if datagram && op != "ping" && op != "write-non" {
				points = append(points, "after-ack")
			}
			if mem && op == "post-blockwise" {
				points = append(points, "mid-blockwise")
			}
			if op == "get" || op == "observe" {
				points = append(points, "limiter")
				if datagram {
					points = append(points, "nstart")
				}
			}
			if op == "observe-cancel" {
				points = []string{"after-send"} // the cancellation needs a registered observation first
			}
			for _, pt := range points {
				actions := []string{"cancel", "deadline", "close"}
				// plain udp has no connection the peer could close; a stopped server is just a silent peer
				// (dtls: whether a stopping server's close_notify reaches the client is not guaranteed; without it a
				// stopped dtls server is a silent peer as well)
				if tr != "udp-mem" && tr != "udp" && tr != "dtls" {
					actions = append(actions, "peer-close")
				}
				// the peer closes this very connection (server-side Close: FIN on streams, close_notify on dtls) once it
				// has seen the request
				if (tr == "dtls" || tr == "tcp" || tr == "tls") && (pt == "after-send" || pt == "after-ack") && op != "observe-cancel" {
					actions = append(actions, "peer-conn-close")
				}
				for _, ac := range actions {
					peers := []string{"silent"}
					if mem {
						peers = append(peers, "garbage")
					}
					if pt == "after-ack" {
						peers = []string{"ackonly"}
					}
					if op == "write-non" {
						// a non-confirmable write only blocks against a stream peer that stopped reading
						if tr != "tcp-mem" {
							continue
						}
						peers = []string{"noread"}
					}
					if op == "ping" && pt == "after-send" {
						peers = []string{"silent"}
					}
					for _, pe := range peers {
						if !mem && pe == "ackonly" && pt != "after-ack" {
							continue
						}
						closers++
						add(ccase{Transport: tr, Op: op, Point: pt, Action: ac, Peer: pe, Closers: 1 + closers%8})
					}
				}
			}
		}
	}
	// stream peer that never reads, with a body large enough to need many writes
	for _, ac := range []string{"cancel", "deadline", "close", "peer-close"} {
		add(ccase{Transport: "tcp-mem", Op: "post-blockwise", Point: "after-send", Action: ac, Peer: "noread", Closers: 2})
		add(ccase{Transport: "tcp-mem", Op: "get", Point: "after-send", Action: ac, Peer: "noread", Closers: 3})
	}
	rec.Count("cases_enumerated", int64(len(cases)))
	var wg sync.WaitGroup
	var next atomic.Int64
	workers := 6
	for w := 0; w < workers; w++ {
		wg.Add(1)
		go func() {
			defer wg.Done()
			for {
				i := int(next.Add(1)) - 1
				if i >= len(cases) {
					return
				}
				if rec.NViolations() > 12 {
					rec.Count("cases_skipped_after_many_violations", 1)
					continue
				}
				c := cases[i]
				vr.CaseLog(c)
				runCase(rec, c)
				rec.Eval(fmt.Sprintf("%+v", c))
				rec.Count("cases_"+c.Transport, 1)
				if i%97 == 0 {
					rec.Sample(c)
				}
			}
		}()
	}
	wg.Wait()
	serverStop(rec)
	parentContext(rec)
	closeWithFullQueue(rec)
	silentHandshake(rec, vr.Scale(18, 72))
	brokenAtSetup(rec, vr.Scale(12, 120))
	serverPeerWithContextValue(rec, vr.Scale(12, 120))
	rec.SetExhaustive(true)
	rec.Assume("liveness is bounded progress: after the action the call must return within 6 s (typical latency: microseconds); a firing watchdog is a violation only if a goroutine is parked in the library's wait points, otherwise inconclusive")
	rec.Assume("'queued behind the limiter / NSTART' has no observable event; the harness gives the call 2 ms to queue up before acting")
}

// serverStop: Stop is idempotent and safe from several goroutines while requests are in flight; Serve returns.
func serverStop(rec *vr.Rec) {
	for _, kind := range netenv.Kinds {
		for rep := 0; rep < vr.Scale(2, 30); rep++ {
			ss, err := newSockServer(kind)
			if err != nil {
				rec.Inconclusive("server " + kind + ": " + err.Error())
				continue
			}
			var conns []netenv.Conn
			var wg sync.WaitGroup
			for i := 0; i < 3; i++ {
				cc, err := ss.srv.Dial(netenv.ClientOpts{})
				if err != nil {
					continue
				}
				conns = append(conns, cc)
				wg.Add(1)
				go func(cc netenv.Conn, i int) {
					defer wg.Done()
					ctx, cancel := context.WithTimeout(context.Background(), 2*time.Second)
					defer cancel()
					path := "/ok"
					if i == 0 {
						path = "/hang/stop"
					}
					if m, err := cc.Get(ctx, path); err == nil {
						cc.ReleaseMessage(m)
					}
				}(cc, i)
			}
			ss.wait("/hang/stop")
			var swg sync.WaitGroup
			for g := 0; g < 4; g++ {
				swg.Add(1)
				go func() {
					defer swg.Done()
					defer func() {
						if r := recover(); r != nil {
							rec.Violation("C09/"+kind+"/stop-panics", fmt.Sprint(r), nil)
						}
					}()
					ss.srv.Stop()
					ss.srv.Stop()
				}()
			}
			close(ss.release)
			swg.Wait()
			select {
			case <-ss.srv.Served:
				rec.Count("servers_stopped_cleanly", 1)
			case <-time.After(watchdog):
				rec.Violation("C09/"+kind+"/serve-does-not-return-after-stop", "", nil)
			}
			for _, cc := range conns {
				_ = cc.Close()
			}
			wg.Wait()
			rec.Eval(fmt.Sprintf("stop|%s|%d", kind, rep%2))
		}
	}
}

// parentContext: a client dialed under a parent context (options.WithContext). The parent ends while an operation is
// blocked; the operation must return, and a Close() afterwards (several at once) must still complete the connection's done
// signal and run every on-close callback exactly once - the connection is not "already closed" just because its context is.
func parentContext(rec *vr.Rec) {
	for _, kind := range netenv.Kinds {
		for rep := 0; rep < vr.Scale(2, 20); rep++ {
			c := map[string]any{"scenario": "parent-context-ends-then-close", "transport": kind, "closers": 1 + rep%4}
			ss, err := newSockServer(kind)
			if err != nil {
				rec.Inconclusive("server " + kind + ": " + err.Error())
				continue
			}
			parent, cancelParent := context.WithCancel(context.Background())
			cc, err := ss.srv.Dial(netenv.ClientOpts{Udp: []udp.Option{options.WithContext(parent)}, Tcp: []tcp.Option{options.WithContext(parent)}})
			if err != nil {
				rec.Inconclusive("parent-context dial " + kind + ": " + err.Error())
				cancelParent()
				ss.srv.Stop()
				continue
			}
			var onClose atomic.Int32
			cc.AddOnClose(func() { onClose.Add(1) })
			opDone := make(chan error, 1)
			go func() {
				m, err := cc.Get(context.Background(), "/hang/parent")
				if err == nil {
					cc.ReleaseMessage(m)
				}
				opDone <- err
			}()
			if !ss.wait("/hang/parent") {
				rec.Inconclusive("parent-context: request not seen by the server")
			}
			cancelParent()
			rec.Eval(fmt.Sprintf("parent|%s|%d", kind, rep%4))
			rec.Count("parent_context_cases_"+kind, 1)
			select {
			case <-opDone:
			case <-time.After(watchdog):
				rec.Violation("C09/"+kind+"/get/does-not-return-after-parent-context-ended", "the connection's parent context was cancelled; the blocked request had not returned after the watchdog", c)
			}
			var cwg sync.WaitGroup
			for g := 0; g < 1+rep%4; g++ {
				cwg.Add(1)
				go func() { defer cwg.Done(); _ = cc.Close() }()
			}
			closed := make(chan struct{})
			go func() { cwg.Wait(); close(closed) }()
			select {
			case <-closed:
			case <-time.After(watchdog):
				rec.Violation("C09/"+kind+"/close-does-not-return", "Close() after the parent context had ended", c)
			}
			select {
			case <-cc.Done():
				time.Sleep(200 * time.Microsecond)
				if n := onClose.Load(); n != 1 {
					rec.Violation("C09/"+kind+"/on-close-count", fmt.Sprintf("on-close callback ran %d times after parent-context end + Close", n), c)
				} else {
					rec.Count("parent_context_connections_closed_cleanly", 1)
				}
			case <-time.After(watchdog):
				rec.Violation("C09/"+kind+"/done-never-closes", fmt.Sprintf("parent context ended, then Close() returned, but Done() did not complete within the watchdog (on-close callbacks run: %d)", onClose.Load()), c)
			}
			select {
			case <-ss.release:
			default:
				close(ss.release)
			}
			ss.srv.Stop()
			select {
			case <-ss.srv.Served:
			case <-time.After(watchdog):
			}
		}
	}
}

// closeWithFullQueue: the connection's handler is busy, the peer keeps sending and the receive queue is full - the socket
// reader is parked handing the next message over. Close() (several at once) must still end the reader: the done signal
// completes and the on-close callback runs exactly once.
func closeWithFullQueue(rec *vr.Rec) {
	for rep := 0; rep < vr.Scale(4, 60); rep++ {
		kind := []string{"tcp-mem", "udp"}[rep%2]
		queue := []int{0, 1, 4}[rep%3]
		c := map[string]any{"scenario": "close-while-receive-queue-is-full", "transport": kind, "queue_size": queue, "closers": 1 + rep%3}
		gate := make(chan struct{})
		var entered atomic.Int32
		var onClose atomic.Int32
		var closeFn func() error
		var doneCh <-chan struct{}
		cleanup := func() {}
		switch kind {
		case "tcp-mem":
			sc := sim.NewScriptConn()
			cc, err := sim.NewTCPConn(sc, sim.TCPOpts{
				Mutate: func(cfg *tcpclient.Config) { cfg.ReceivedMessageQueueSize = queue },
				Handler: func(w *responsewriter.ResponseWriter[*tcpclient.Conn], r *pool.Message) {
					entered.Add(1)
					<-gate
				}})
			if err != nil {
				rec.Inconclusive("close-with-full-queue: " + err.Error())
				continue
			}
			cc.AddOnClose(func() { onClose.Add(1) })
			for i := 0; i < queue+6; i++ {
				sc.Feed(ref.EncodeTCP(ref.Msg{Code: 1, Token: []byte{byte(i), 1}, Opts: []ref.Opt{{ID: 11, Val: []byte("q")}}}))
			}
			closeFn, doneCh = cc.Close, cc.Done()
		case "udp":
			pc, err := net.ListenUDP("udp4", &net.UDPAddr{IP: net.IPv4(127, 0, 0, 1)})
			if err != nil {
				rec.Inconclusive("close-with-full-queue: " + err.Error())
				continue
			}
			cc, err := udp.Dial(pc.LocalAddr().String(), options.WithReceivedMessageQueueSize(queue),
				options.WithHandlerFunc(func(w *responsewriter.ResponseWriter[*udpclient.Conn], r *pool.Message) {
					entered.Add(1)
					<-gate
				}))
			if err != nil {
				_ = pc.Close()
				rec.Inconclusive("close-with-full-queue: " + err.Error())
				continue
			}
			cc.AddOnClose(func() { onClose.Add(1) })
			// the client says hello so that the raw peer learns its address, then the peer floods it
			hello := cc.AcquireMessage(context.Background())
			tok, _ := message.GetToken()
			_ = hello.SetupGet("/hello", tok)
			hello.SetType(message.NonConfirmable)
			_ = cc.WriteMessage(hello)
			cc.ReleaseMessage(hello)
			buf := make([]byte, 1500)
			_ = pc.SetReadDeadline(time.Now().Add(5 * time.Second))
			_, from, rerr := pc.ReadFromUDP(buf)
			if rerr != nil {
				_ = cc.Close()
				_ = pc.Close()
				rec.Inconclusive("close-with-full-queue: raw peer got nothing")
				continue
			}
			for i := 0; i < queue+8; i++ {
				_, _ = pc.WriteToUDP(ref.EncodeUDP(ref.Msg{Type: 1, Code: 1, MID: uint16(100 + i), Token: []byte{byte(i), 2}, Opts: []ref.Opt{{ID: 11, Val: []byte("q")}}}), from)
			}
			closeFn, doneCh = cc.Close, cc.Done()
			cleanup = func() { _ = pc.Close() }
		}
		sim.WaitFor(5*time.Second, func() bool { return entered.Load() >= 1 })
		time.Sleep(3 * time.Millisecond) // the reader fills the queue and parks on the next hand-over
		rec.Eval(fmt.Sprintf("close-full-queue|%s|%d|%d", kind, queue, rep))
		rec.Count("close_with_full_queue_cases", 1)
		var cwg sync.WaitGroup
		for g := 0; g < 1+rep%3; g++ {
			cwg.Add(1)
			go func() { defer cwg.Done(); _ = closeFn() }()
		}
		closed := make(chan struct{})
		go func() { cwg.Wait(); close(closed) }()
		select {
		case <-closed:
		case <-time.After(watchdog):
			rec.Violation("C09/"+strings.TrimSuffix(kind, "-mem")+"/close-does-not-return", "Close() while the receive queue is full and the handler busy", c)
		}
		select {
		case <-doneCh:
			time.Sleep(200 * time.Microsecond)
			if n := onClose.Load(); n != 1 {
				rec.Violation("C09/"+strings.TrimSuffix(kind, "-mem")+"/on-close-count", fmt.Sprintf("on-close callback ran %d times (close with a full receive queue)", n), c)
			} else {
				rec.Count("full_queue_connections_closed_cleanly", 1)
			}
		case <-time.After(watchdog):
			rec.Violation("C09/"+strings.TrimSuffix(kind, "-mem")+"/done-never-closes", fmt.Sprintf("Close() returned, but with the receive queue full (size %d, handler busy) Done() did not complete within the watchdog; on-close callbacks run: %d", queue, onClose.Load()), c)
		}
		close(gate)
		cleanup()
	}
}
