// Package wl is the shared connection-level workload engine: two real connections (udp over
// in-memory sessions, or tcp over scripted net.Conns) joined by a relay that can drop,
// duplicate, reset or corrupt units by rule, a server-side handler with well-known paths,
// and a set of exchange kinds with selectable outcomes. C13 (no leftover state) and C12
// (pool ownership) run histories of these exchanges under their own monitors.
package wl

import (
	"bytes"
	"context"
	"errors"
	"fmt"
	"io"
	"math/rand"
	"regexp"
	"strconv"
	"strings"
	"sync"
	"sync/atomic"
	"time"

	"github.com/plgd-dev/go-coap/v3/message"
	"github.com/plgd-dev/go-coap/v3/message/codes"
	"github.com/plgd-dev/go-coap/v3/message/pool"
	"github.com/plgd-dev/go-coap/v3/net/blockwise"
	"github.com/plgd-dev/go-coap/v3/net/responsewriter"
	"github.com/plgd-dev/go-coap/v3/options"
	"github.com/plgd-dev/go-coap/v3/options/config"
	"github.com/plgd-dev/go-coap/v3/tcp"
	tcpclient "github.com/plgd-dev/go-coap/v3/tcp/client"
	udpclient "github.com/plgd-dev/go-coap/v3/udp/client"

	"verifharness/ref"
	"verifharness/sim"
)

// Observation is what Observe returns on both transports.
type Observation interface {
	Cancel(ctx context.Context, opts ...message.Option) error
	Canceled() bool
}

// Conn is the part of the client API both transports share.
type Conn interface {
	Post(ctx context.Context, path string, cf message.MediaType, payload io.ReadSeeker, opts ...message.Option) (*pool.Message, error)
	Get(ctx context.Context, path string, opts ...message.Option) (*pool.Message, error)
	Do(req *pool.Message) (*pool.Message, error)
	Ping(ctx context.Context) error
	WriteMessage(req *pool.Message) error
	AcquireMessage(ctx context.Context) *pool.Message
	ReleaseMessage(m *pool.Message)
	CheckExpirations(now time.Time)
	VerifSizes() map[string]int
	Close() error
	Context() context.Context
	Done() <-chan struct{}
}

type Pair struct {
	Kind     string
	Cli, Srv Conn
	observe  func(ctx context.Context, path string, cb func(*pool.Message)) (Observation, error)
	Errs     struct {
		sync.Mutex
		L []string
		// Classes: error texts with digits and hex strings blanked -> count
		Classes map[string]int
	}
	Units    atomic.Int64
	stop     chan struct{}
	wg       sync.WaitGroup
	slowGate chan struct{}
	// counters observed by the server handler
	Handled atomic.Int64
	// write-error injection on the client side (udp): fail the next n writes
	FailWrites  atomic.Int64
	obsTokens   sync.Map // token string -> struct{} (server side registered observers)
	srvNotify   func(tok []byte, seq uint32, body []byte) error
	busy        atomic.Int64
	stormMu     sync.Mutex
	storm       map[string]int
	wireMu      sync.Mutex
	wireGarbage []string
	// optional monitors around the server-side application handler
	HandlerEnter func(r *pool.Message) any
	HandlerExit  func(r *pool.Message, state any)
	// HoldAfterHijack (udp client side): the receive path that handed a message to a waiting caller
	// waits (bounded) until the application has released that message before it goes on - the
	// interleaving in which a wrong "is it still mine?" decision of the library shows.
	HoldAfterHijack atomic.Bool
	// RespondViaSetMessage: server handlers answer with a message of their own (ResponseWriter.SetMessage)
	RespondViaSetMessage atomic.Bool
	hijackWait           sync.Map // *pool.Message -> chan struct{}
}

// WireGarbage returns the datagrams emitted by one of the two real endpoints that are not CoAP messages.
func (p *Pair) WireGarbage() []string {
	p.wireMu.Lock()
	defer p.wireMu.Unlock()
	return append([]string(nil), p.wireGarbage...)
}

// StormLimit is the number of relayed datagrams after which a pair stops delivering.
var StormLimit int64 = 200000

// Storm returns the histogram of the datagrams seen after the storm limit was hit (nil if it was not).
func (p *Pair) Storm() map[string]int {
	p.stormMu.Lock()
	defer p.stormMu.Unlock()
	if p.storm == nil {
		return nil
	}
	out := map[string]int{}
	for k, v := range p.storm {
		out[k] = v
	}
	return out
}

func (p *Pair) errf(side string) func(error) {
	return func(err error) {
		p.Errs.Lock()
		if len(p.Errs.L) < 100 {
			p.Errs.L = append(p.Errs.L, side+": "+err.Error())
		}
		if p.Errs.Classes == nil {
			p.Errs.Classes = map[string]int{}
		}
		p.Errs.Classes[side+": "+errClass(err.Error())]++
		p.Errs.Unlock()
	}
}

var errClassRe = regexp.MustCompile(`[0-9a-fA-F]{6,}|[0-9]+`)

func errClass(s string) string {
	s = errClassRe.ReplaceAllString(s, "N")
	if len(s) > 120 {
		s = s[:120]
	}
	return s
}

// ErrClasses returns a copy of the error-class histogram reported through the two endpoints' Errors callbacks.
func (p *Pair) ErrClasses() map[string]int {
	p.Errs.Lock()
	defer p.Errs.Unlock()
	out := map[string]int{}
	for k, v := range p.Errs.Classes {
		out[k] = v
	}
	return out
}

func Body(id int, n int) []byte {
	b := make([]byte, n)
	r := rand.New(rand.NewSource(int64(id)*7919 + 17))
	r.Read(b)
	return b
}

// serverLogic implements the well-known paths.
func (p *Pair) serverLogic(code codes.Code, tok []byte, opts message.Options, body []byte, respond func(code codes.Code, b []byte, opts ...message.Option)) {
	if code < codes.GET || code > codes.DELETE {
		return
	}
	p.Handled.Add(1)
	p.busy.Add(1)
	defer p.busy.Add(-1)
	path, _ := opts.Path()
	parts := strings.Split(strings.TrimPrefix(path, "/"), "/")
	switch parts[0] {
	case "ok":
		respond(codes.Content, []byte("ok:"+strings.Join(parts[1:], "/")))
	case "big":
		n := 0
		id := 0
		if len(parts) >= 3 {
			id, _ = strconv.Atoi(parts[1])
			n, _ = strconv.Atoi(parts[2])
		}
		respond(codes.Content, Body(id, n), message.Option{ID: message.ETag, Value: []byte{byte(id), byte(id >> 8)}})
	case "up":
		respond(codes.Changed, []byte(strconv.Itoa(len(body))))
	case "obs":
		if v, err := opts.Observe(); err == nil && v == 0 {
			p.obsTokens.Store(string(tok), struct{}{})
			respond(codes.Content, []byte("obs-first"), message.Option{ID: message.Observe, Value: []byte{1}})
			return
		}
		p.obsTokens.Delete(string(tok))
		respond(codes.Content, []byte("obs-cancelled"))
	case "obsx":
		if v, err := opts.Observe(); err == nil && v == 0 {
			p.obsTokens.Store(string(tok), struct{}{})
			respond(codes.Content, []byte("obs-first"), message.Option{ID: message.Observe, Value: []byte{1}})
			return
		}
		p.obsTokens.Delete(string(tok))
		respond(codes.NotFound, nil)
	case "slow":
		time.Sleep(2 * time.Millisecond) // longer than any cancel delay used by the workloads
		respond(codes.Content, []byte("slow"))
	case "noresp":
		// no response at all (a confirmable request still gets its empty ACK)
	default:
		respond(codes.NotFound, nil)
	}
}

// Rule decides what the relay does with one datagram (udp) travelling in direction dir.
type Action int

const (
	Deliver Action = iota
	Drop
	DupSame
	AnswerReset  // do not deliver; send a RST with the same message ID back to the sender
	CorruptBlock // deliver with the block number of Block1/Block2 increased by one
	Garbage      // deliver, then deliver 5 bytes of garbage too
)

type Rule func(dir string, m ref.Msg) Action

// PathOf returns the Uri-Path of a message as a string.
func PathOf(m ref.Msg) string {
	var sb strings.Builder
	for _, o := range m.Opts {
		if o.ID == 11 {
			sb.WriteString("/" + string(o.Val))
		}
	}
	return sb.String()
}

// DefaultRule: the outcome is selected by a marker in the request path (the response side is
// matched by token through the markers map).
func (p *Pair) defaultRule() Rule {
	var marks sync.Map // token -> marker
	var dupDone sync.Map
	return func(dir string, m ref.Msg) Action {
		if dir == "c>s" {
			path := PathOf(m)
			for _, mk := range []string{"silent", "rst", "badblock", "garbage", "dup"} {
				if strings.Contains(path, mk) {
					marks.Store(string(m.Token), mk)
				}
			}
		}
		mk, _ := marks.Load(string(m.Token))
		switch mk {
		case "silent":
			if dir == "c>s" {
				return Drop
			}
		case "rst":
			if dir == "c>s" && m.Type == 0 {
				return AnswerReset
			}
		case "badblock":
			if dir == "s>c" {
				if _, ok := m.GetOpt(23); ok {
					return CorruptBlock
				}
			}
		case "garbage":
			return Garbage
		case "dup":
			// duplicate requests only: they are answered from the reply cache. Duplicated
			// acknowledgements are processed twice by the receiver (no de-duplication applies to
			// them), which doubles the remaining traffic of a block-wise transfer at every block.
			// ... and only once per exchange: every duplicate answer makes a block-wise receiver issue
			// one more request, so duplicating all of them grows the traffic exponentially.
			if dir == "c>s" && m.Type <= 1 {
				if _, done := dupDone.LoadOrStore(string(m.Token), true); !done {
					return DupSame
				}
			}
		}
		return Deliver
	}
}

type udpOpts struct {
	queue int
	szx   blockwise.SZX
}

// NewUDPPair builds client and server udp connections over in-memory sessions.
func NewUDPPair(poolSize int, rule Rule) *Pair { return NewUDPPairN(poolSize, rule, 0) }

// NewUDPPairN: as NewUDPPair, with the client's NSTART (number of simultaneously outstanding confirmable exchanges) set to
// nstart (0: practically unlimited). With a small NSTART, exchanges queue inside the transmission layer, and the ones whose
// context ends there never reach the wire.
func NewUDPPairN(poolSize int, rule Rule, nstart uint32) *Pair {
	return NewUDPPairB(poolSize, rule, nstart, true)
}

// NewUDPPairB: as NewUDPPairN; bw=false builds both connections without a block-wise layer (what
// options.WithBlockwise(false, ...) gives): everything that is per connection - the response cache, the pending
// confirmables, the housekeeping - must work the same without it.
func NewUDPPairB(poolSize int, rule Rule, nstart uint32, bw bool) *Pair {
	p := &Pair{Kind: "udp", stop: make(chan struct{}), slowGate: make(chan struct{})}
	cs, ss := sim.NewMemSession(), sim.NewMemSession()
	cs.Out = make(chan []byte, 1<<14)
	ss.Out = make(chan []byte, 1<<14)
	cs.OnWrite = func([]byte) error {
		if p.FailWrites.Load() > 0 && p.FailWrites.Add(-1) >= 0 {
			return errors.New("injected write failure")
		}
		return nil
	}
	if rule == nil {
		rule = p.defaultRule()
	}
	mk := func(s *sim.MemSession, side string, own int, h udpclient.HandlerFunc) *udpclient.Conn {
		return sim.NewUDPConn(s, sim.UDPOpts{Blockwise: bw, SZX: blockwise.SZX64, BWTimeout: 3 * time.Second, Pool: pool.New(uint32(poolSize), 2048), Handler: h, Errors: p.errf(side),
			Mutate: func(cfg *udpclient.Config) {
				cfg.GetMID = func() int32 { return int32((own + 0xffff/2) & 0xffff) }
				cfg.TransmissionMaxRetransmit = 2
			}})
	}
	srv := mk(ss, "srv", 10000, func(w *responsewriter.ResponseWriter[*udpclient.Conn], r *pool.Message) {
		if p.HandlerEnter != nil {
			st := p.HandlerEnter(r)
			defer func() { p.HandlerExit(r, st) }()
		}
		body, _ := r.ReadBody()
		p.serverLogic(r.Code(), r.Token(), r.Options(), body, func(code codes.Code, b []byte, opts ...message.Option) {
			var rd io.ReadSeeker
			if b != nil {
				rd = bytes.NewReader(b)
			}
			if p.RespondViaSetMessage.Load() {
				// the application builds the response message itself and hands it over (ResponseWriter.SetMessage): the
				// writer gives the message it had prepared back to the pool, the new one is released after sending
				m := w.Conn().AcquireMessage(r.Context())
				m.SetCode(code)
				m.SetToken(r.Token())
				m.SetContentFormat(message.AppOctets)
				for _, o := range opts {
					m.SetOptionBytes(o.ID, o.Value)
				}
				if rd != nil {
					m.SetBody(rd)
				}
				w.SetMessage(m)
				return
			}
			_ = w.SetResponse(code, message.AppOctets, rd, opts...)
		})
	})
	cli := sim.NewUDPConn(cs, sim.UDPOpts{Blockwise: bw, SZX: blockwise.SZX64, BWTimeout: 3 * time.Second, Pool: pool.New(uint32(poolSize), 2048), Errors: p.errf("cli"),
		Mutate: func(cfg *udpclient.Config) {
			cfg.GetMID = func() int32 { return int32((40000 + 0xffff/2) & 0xffff) }
			cfg.TransmissionMaxRetransmit = 2
			if nstart > 0 {
				cfg.TransmissionNStart = nstart
			}
			cfg.ProcessReceivedMessage = func(req *pool.Message, cc *udpclient.Conn, handler config.HandlerFunc[*udpclient.Conn]) {
				cc.ProcessReceivedMessageWithHandler(req, func(w *responsewriter.ResponseWriter[*udpclient.Conn], r *pool.Message) {
					handler(w, r)
					if p.HoldAfterHijack.Load() && r.IsHijacked() {
						ch := make(chan struct{})
						if prev, loaded := p.hijackWait.LoadOrStore(r, ch); loaded {
							ch = prev.(chan struct{})
						}
						select {
						case <-ch:
						case <-time.After(400 * time.Microsecond):
						}
						p.hijackWait.Delete(r)
					}
				})
			}
		}})
	p.Cli, p.Srv = cli, srv
	p.observe = func(ctx context.Context, path string, cb func(*pool.Message)) (Observation, error) {
		o, err := cli.Observe(ctx, path, cb)
		if err != nil {
			return nil, err
		}
		return o, nil
	}
	p.srvNotify = func(tok []byte, seq uint32, body []byte) error {
		m := srv.AcquireMessage(context.Background())
		defer srv.ReleaseMessage(m)
		m.SetCode(codes.Content)
		m.SetToken(tok)
		m.SetType(message.NonConfirmable)
		m.SetObserve(seq)
		m.SetBody(bytes.NewReader(body))
		return srv.WriteMessage(m)
	}
	handle := func(dir string, d []byte, to, back *udpclient.Conn) {
		n := p.Units.Add(1)
		m, err := ref.ParseUDP(d)
		if err != nil {
			// every datagram here was emitted by a real endpoint: one the reference parser rejects is not a CoAP
			// message (e.g. the poisoned encode buffer of a released message that something still aliased)
			p.wireMu.Lock()
			if len(p.wireGarbage) < 20 {
				h := d
				if len(h) > 24 {
					h = h[:24]
				}
				p.wireGarbage = append(p.wireGarbage, fmt.Sprintf("%s %d bytes %x: %v", dir, len(d), h, err))
			}
			p.wireMu.Unlock()
		}
		if n > StormLimit {
			// safety valve: a message storm between the two endpoints; stop delivering and keep a histogram
			if err == nil {
				b1, _ := m.GetUint(27)
				b2, _ := m.GetUint(23)
				p.stormMu.Lock()
				if p.storm == nil {
					p.storm = map[string]int{}
				}
				p.storm[fmt.Sprintf("%s T%d %d.%02d path=%s b1=%#x b2=%#x", dir, m.Type, m.Code>>5, m.Code&31, PathOf(m), b1, b2)]++
				p.stormMu.Unlock()
			}
			return
		}
		act := Deliver
		if err == nil {
			act = rule(dir, m)
		}
		switch act {
		case Deliver:
			_ = to.Process(nil, d)
		case Drop:
		case DupSame:
			_ = to.Process(nil, d)
			_ = to.Process(nil, d)
		case AnswerReset:
			_ = back.Process(nil, ref.EncodeUDP(ref.Msg{Type: 3, Code: 0, MID: m.MID}))
		case CorruptBlock:
			for i, o := range m.Opts {
				if o.ID == 23 || o.ID == 27 {
					v, _ := m.GetUint(o.ID)
					m.Opts[i].Val = ref.Uint(v + 0x20)
				}
			}
			_ = to.Process(nil, ref.EncodeUDP(m))
		case Garbage:
			_ = to.Process(nil, d)
			_ = to.Process(nil, []byte{0x7f, 0xff, 0x00, 0x01, 0xfe})
		}
	}
	p.wg.Add(1)
	go func() {
		defer p.wg.Done()
		for {
			select {
			case d := <-cs.Out:
				p.busy.Add(1)
				handle("c>s", d, srv, cli)
				p.busy.Add(-1)
			case d := <-ss.Out:
				p.busy.Add(1)
				handle("s>c", d, cli, srv)
				p.busy.Add(-1)
			case <-p.stop:
				return
			}
		}
	}()
	return p
}

type mutateOpt struct{ f func(cfg *tcpclient.Config) }

func (m mutateOpt) TCPClientApply(cfg *tcpclient.Config) { m.f(cfg) }

// NewTCPPair builds client and server tcp connections over scripted net.Conns joined by a relay.
func NewTCPPair(poolSize int) (*Pair, error) {
	p := &Pair{Kind: "tcp", stop: make(chan struct{}), slowGate: make(chan struct{})}
	csc, ssc := sim.NewScriptConn(), sim.NewScriptConn()
	mk := func(sc *sim.ScriptConn, side string, h tcpclient.HandlerFunc) (*tcpclient.Conn, error) {
		return sim.NewTCPConn(sc, sim.TCPOpts{Handler: h, Errors: p.errf(side), Pool: pool.New(uint32(poolSize), 2048),
			Extra: []tcp.Option{options.WithBlockwise(true, blockwise.SZX64, 3*time.Second)}})
	}
	srv, err := mk(ssc, "srv", func(w *responsewriter.ResponseWriter[*tcpclient.Conn], r *pool.Message) {
		if p.HandlerEnter != nil {
			st := p.HandlerEnter(r)
			defer func() { p.HandlerExit(r, st) }()
		}
		body, _ := r.ReadBody()
		p.serverLogic(r.Code(), r.Token(), r.Options(), body, func(code codes.Code, b []byte, opts ...message.Option) {
			var rd io.ReadSeeker
			if b != nil {
				rd = bytes.NewReader(b)
			}
			if p.RespondViaSetMessage.Load() {
				// the application builds the response message itself and hands it over (ResponseWriter.SetMessage): the
				// writer gives the message it had prepared back to the pool, the new one is released after sending
				m := w.Conn().AcquireMessage(r.Context())
				m.SetCode(code)
				m.SetToken(r.Token())
				m.SetContentFormat(message.AppOctets)
				for _, o := range opts {
					m.SetOptionBytes(o.ID, o.Value)
				}
				if rd != nil {
					m.SetBody(rd)
				}
				w.SetMessage(m)
				return
			}
			_ = w.SetResponse(code, message.AppOctets, rd, opts...)
		})
	})
	if err != nil {
		return nil, err
	}
	cli, err := mk(csc, "cli", nil)
	if err != nil {
		return nil, err
	}
	p.Cli, p.Srv = cli, srv
	p.observe = func(ctx context.Context, path string, cb func(*pool.Message)) (Observation, error) {
		o, err := cli.Observe(ctx, path, cb)
		if err != nil {
			return nil, err
		}
		return o, nil
	}
	p.srvNotify = func(tok []byte, seq uint32, body []byte) error {
		m := srv.AcquireMessage(context.Background())
		defer srv.ReleaseMessage(m)
		m.SetCode(codes.Content)
		m.SetToken(tok)
		m.SetObserve(seq)
		m.SetBody(bytes.NewReader(body))
		return srv.WriteMessage(m)
	}
	csm := ref.EncodeTCP(ref.Msg{Code: 7<<5 | 1, Opts: []ref.Opt{{ID: 2, Val: ref.Uint(1152)}, {ID: 4, Val: nil}}})
	// (in effect before the first exchange: sim.AnnounceBlockwise waits until each connection has processed it)
	sim.AnnounceBlockwise(csc, cli, csm)
	sim.AnnounceBlockwise(ssc, srv, csm)
	p.wg.Add(1)
	go func() {
		defer p.wg.Done()
		for {
			select {
			case <-p.stop:
				return
			default:
			}
			moved := false
			if b := csc.DrainWritten(); len(b) > 0 {
				p.busy.Add(1)
				ssc.Feed(b)
				p.Units.Add(1)
				moved = true
				p.busy.Add(-1)
			}
			if b := ssc.DrainWritten(); len(b) > 0 {
				p.busy.Add(1)
				csc.Feed(b)
				p.Units.Add(1)
				moved = true
				p.busy.Add(-1)
			}
			if !moved {
				time.Sleep(20 * time.Microsecond)
			}
		}
	}()
	csc.WaitConsumed(5 * time.Second)
	ssc.WaitConsumed(5 * time.Second)
	time.Sleep(300 * time.Microsecond)
	return p, nil
}

func (p *Pair) Close() {
	_ = p.Cli.Close()
	_ = p.Srv.Close()
	close(p.stop)
	p.wg.Wait()
}

// Drain waits until the relay has been idle (no unit moved) for a short while.
func (p *Pair) Drain() {
	last := p.Units.Load()
	idle := 0
	for i := 0; i < 8000 && idle < 12; i++ {
		time.Sleep(150 * time.Microsecond)
		if u := p.Units.Load(); u == last && p.busy.Load() == 0 {
			idle++
		} else {
			last = u
			idle = 0
		}
	}
}

// ------------------------------------------------------------------------- exchanges

type Exchange struct {
	Kind    string `json:"kind"`    // get / bigget / bigpost / observe / observe-live / ping / oneway / oneway-big / duptoken
	Outcome string `json:"outcome"` // ok / silent / cancel / rst / badblock / garbage / dup / werr / notfound
	ID      int    `json:"id"`
	Size    int    `json:"size,omitempty"`
	// NoDeadline: the caller's context carries no deadline (cancel-only; the harness cancels it when the same time has
	// passed) - state whose lifetime is derived from the request's deadline must then fall back to its own expiry
	NoDeadline bool `json:"context_without_deadline,omitempty"`
}

type Result struct {
	Err      error
	OK       bool
	LiveObs  Observation
	Notified int
}

func marker(o string) string {
	switch o {
	case "silent", "rst", "badblock", "garbage", "dup":
		return "/" + o
	}
	return ""
}

// Hooks lets a monitor observe messages handed to application code.
type Hooks struct {
	OnResponse func(m *pool.Message) // called with a response returned from a call, before it is released
	OnNotify   func(m *pool.Message) // inside an observe callback
}

// Run executes one exchange on the client connection and returns when the call(s) returned.
func (p *Pair) Run(x Exchange, rnd *rand.Rand, hk *Hooks) Result {
	var res Result
	timeout := 150 * time.Millisecond
	if x.Outcome == "silent" || x.Outcome == "rst" || x.Outcome == "badblock" || x.Outcome == "werr" {
		timeout = time.Duration(20+rnd.Intn(40)) * time.Millisecond
	}
	ctx, cancel := context.WithTimeout(context.Background(), timeout)
	if x.NoDeadline {
		cancel()
		ctx, cancel = context.WithCancel(context.Background())
		t := time.AfterFunc(timeout, cancel)
		defer t.Stop()
	}
	defer cancel()
	if x.Outcome == "cancel" {
		d := time.Duration(rnd.Intn(300)) * time.Microsecond
		time.AfterFunc(d, cancel)
	}
	if x.Outcome == "werr" {
		p.FailWrites.Store(1)
	}
	mk := marker(x.Outcome)
	release := func(m *pool.Message) {
		if hk != nil && hk.OnResponse != nil {
			hk.OnResponse(m)
		}
		p.Cli.ReleaseMessage(m)
		if p.HoldAfterHijack.Load() {
			ch := make(chan struct{})
			if prev, loaded := p.hijackWait.LoadOrStore(m, ch); loaded {
				ch = prev.(chan struct{})
			}
			select {
			case <-ch:
			default:
				close(ch)
			}
		}
	}
	switch x.Kind {
	case "get":
		path := fmt.Sprintf("/ok%s/%d", mk, x.ID)
		if x.Outcome == "notfound" {
			path = fmt.Sprintf("/nothing/%d", x.ID)
		}
		if x.Outcome == "cancel" {
			path = fmt.Sprintf("/slow/%d", x.ID)
		}
		resp, err := p.Cli.Get(ctx, path)
		res.Err = err
		if err == nil {
			b, _ := resp.ReadBody()
			res.OK = (x.Outcome == "notfound" && resp.Code() == codes.NotFound) || bytes.HasPrefix(b, []byte("ok:")) || string(b) == "slow"
			release(resp)
		}
	case "bigget":
		resp, err := p.Cli.Get(ctx, fmt.Sprintf("/big%s/%d/%d", mk, x.ID, x.Size))
		res.Err = err
		if err == nil {
			b, _ := resp.ReadBody()
			res.OK = resp.Code() == codes.Content && bytes.Equal(b, Body(x.ID, x.Size))
			release(resp)
		}
	case "bigpost":
		resp, err := p.Cli.Post(ctx, fmt.Sprintf("/up%s/%d", mk, x.ID), message.AppOctets, bytes.NewReader(Body(x.ID, x.Size)))
		res.Err = err
		if err == nil {
			b, _ := resp.ReadBody()
			res.OK = resp.Code() == codes.Changed && string(b) == strconv.Itoa(x.Size)
			release(resp)
		}
	case "observe", "observe-live":
		var n atomic.Int64
		opath := fmt.Sprintf("/obs%s/%d", mk, x.ID)
		switch x.Outcome {
		case "notfound": // the registration is refused with an error code
			opath = fmt.Sprintf("/missing/%d", x.ID)
		case "unsupported": // 2.05 without an Observe option: the resource is not observable
			opath = fmt.Sprintf("/ok/obs/%d", x.ID)
		case "cancelfail": // registration fine, the deregistration is refused
			opath = fmt.Sprintf("/obsx/%d", x.ID)
		}
		o, err := p.observe(ctx, opath, func(m *pool.Message) {
			n.Add(1)
			if hk != nil && hk.OnNotify != nil {
				hk.OnNotify(m)
			}
		})
		res.Err = err
		if err != nil {
			break
		}
		// a few notifications from the server side
		var tok []byte
		p.obsTokens.Range(func(k, _ any) bool { tok = []byte(k.(string)); return true })
		_ = tok
		res.OK = true
		if x.Kind == "observe-live" {
			res.LiveObs = o
			break
		}
		cctx, cc := context.WithTimeout(context.Background(), timeout)
		res.Err = o.Cancel(cctx)
		cc()
		res.Notified = int(n.Load())
	case "ping":
		res.Err = p.Cli.Ping(ctx)
		res.OK = res.Err == nil
	case "oneway", "oneway-big":
		req := p.Cli.AcquireMessage(ctx)
		size := 10
		if x.Kind == "oneway-big" {
			size = x.Size
		}
		tok, _ := message.GetToken()
		_ = req.SetupPost(fmt.Sprintf("/up%s/%d", mk, x.ID), tok, message.AppOctets, bytes.NewReader(Body(x.ID, size)))
		if x.ID%2 == 0 || p.Kind == "tcp" {
			req.SetType(message.NonConfirmable)
		} else {
			req.SetType(message.Confirmable)
		}
		res.Err = p.Cli.WriteMessage(req)
		p.Cli.ReleaseMessage(req)
		res.OK = res.Err == nil
	case "duptoken":
		tok := message.Token{0xdd, byte(x.ID), byte(x.ID >> 8), 0x01}
		var wg sync.WaitGroup
		errs := make([]error, 2)
		for i := 0; i < 2; i++ {
			wg.Add(1)
			go func(i int) {
				defer wg.Done()
				req := p.Cli.AcquireMessage(ctx)
				_ = req.SetupGet(fmt.Sprintf("/ok/%d", x.ID), tok)
				resp, err := p.Cli.Do(req)
				p.Cli.ReleaseMessage(req)
				errs[i] = err
				if err == nil {
					release(resp)
				}
			}(i)
		}
		wg.Wait()
		res.OK = errs[0] == nil || errs[1] == nil
		if errs[0] != nil {
			res.Err = errs[0]
		}
	}
	return res
}

// Notify lets the server side send a notification for every registered observer token.
func (p *Pair) Notify(seq uint32) int {
	n := 0
	p.obsTokens.Range(func(k, _ any) bool {
		if err := p.srvNotify([]byte(k.(string)), seq, []byte("n")); err == nil {
			n++
		}
		return true
	})
	return n
}

// ReleaseSlow lets blocked /slow handlers continue.
func (p *Pair) ReleaseSlow() {
	select {
	case <-p.slowGate:
	default:
		close(p.slowGate)
	}
}

// Sweep drives the housekeeping of both connections at virtual times far beyond every
// deadline (response cache 247 s, block-wise caches, retransmission budget).
func (p *Pair) Sweep() {
	base := time.Now()
	for k := 1; k <= 8; k++ {
		now := base.Add(time.Duration(k) * 2 * time.Hour)
		p.Cli.CheckExpirations(now)
		p.Srv.CheckExpirations(now)
	}
}

// Kinds and outcomes available per transport.
func Kinds(kind string) []string {
	if kind == "tcp" {
		return []string{"get", "bigget", "bigpost", "observe", "ping", "oneway", "duptoken"}
	}
	return []string{"get", "bigget", "bigpost", "observe", "ping", "oneway", "oneway-big", "duptoken"}
}

func Outcomes(kind, xkind string) []string {
	if kind == "tcp" {
		if xkind == "get" {
			return []string{"ok", "cancel", "notfound"}
		}
		if xkind == "observe" {
			return []string{"ok", "cancel", "notfound", "unsupported", "cancelfail"}
		}
		return []string{"ok", "cancel"}
	}
	switch xkind {
	case "get":
		return []string{"ok", "silent", "cancel", "rst", "garbage", "dup", "werr", "notfound"}
	case "bigget":
		return []string{"ok", "silent", "cancel", "rst", "badblock", "garbage", "dup", "werr"}
	case "bigpost":
		return []string{"ok", "silent", "cancel", "rst", "garbage", "dup", "werr"}
	case "observe":
		return []string{"ok", "silent", "cancel", "rst", "dup", "notfound", "unsupported", "cancelfail"}
	case "ping":
		return []string{"ok"}
	case "oneway", "oneway-big":
		return []string{"ok", "silent", "dup", "werr"}
	}
	return []string{"ok"}
}
