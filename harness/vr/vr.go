// Package vr is the result/evidence recorder shared by all property packages.
//
// A property package is a Go test binary with one entry point (TestRun). It reads
// VERIF_TIER / VERIF_SEED / VERIF_OUT / VERIF_REPLAY from the environment, runs its
// workload under its monitors and writes one JSON result to VERIF_OUT. The python
// driver (/verif/check) turns that into evidence/<id>.json and the exit status.
package vr

import (
	"encoding/json"
	"fmt"
	"hash/fnv"
	"os"
	"runtime"
	"sort"
	"strconv"
	"sync"
	"time"
)

type Violation struct {
	Signature string `json:"signature"`
	Detail    string `json:"detail"`
	Case      any    `json:"case,omitempty"`
}

type Result struct {
	Property     string           `json:"property"`
	Tier         string           `json:"tier"`
	Seed         int64            `json:"seed"`
	Evaluations  int64            `json:"evaluations"`
	Distinct     int64            `json:"distinct_nontrivial"`
	Rule         string           `json:"rule"`
	Samples      []any            `json:"samples"`
	Counters     map[string]int64 `json:"counters"`
	Violations   []Violation      `json:"violations"`
	NViolations  int64            `json:"n_violations"`
	Inconclusive int64            `json:"inconclusive"`
	Exhaustive   bool             `json:"exhaustive"`
	Assumptions  []string         `json:"assumptions"`
	Notes        []string         `json:"notes,omitempty"`
	WallS        float64          `json:"wall_s"`
	Complete     bool             `json:"complete"`
}

type Rec struct {
	mu       sync.Mutex
	res      Result
	distinct map[uint64]struct{}
	sigSeen  map[string]int
	start    time.Time
	out      string
	maxViol  int
}

// Tier returns "quick" or "thorough".
func Tier() string {
	t := os.Getenv("VERIF_TIER")
	if t != "thorough" {
		return "quick"
	}
	return t
}

func Thorough() bool { return Tier() == "thorough" }

func Seed() int64 {
	s, err := strconv.ParseInt(os.Getenv("VERIF_SEED"), 10, 64)
	if err != nil {
		return 1
	}
	return s
}

// Scale returns q in the quick tier and t in the thorough tier.
func Scale(q, t int) int {
	if Thorough() {
		return t
	}
	return q
}

func New(property, rule string) *Rec {
	r := &Rec{
		distinct: map[uint64]struct{}{},
		sigSeen:  map[string]int{},
		start:    time.Now(),
		out:      os.Getenv("VERIF_OUT"),
		maxViol:  40,
	}
	r.res.Property = property
	r.res.Tier = Tier()
	r.res.Seed = Seed()
	r.res.Rule = rule
	r.res.Counters = map[string]int64{}
	r.res.Violations = []Violation{}
	r.res.Samples = []any{}
	r.res.Assumptions = []string{}
	return r
}

// Eval counts one evaluated case. sig identifies the case class for the
// distinct_nontrivial count; an empty sig marks the case as trivial.
func (r *Rec) Eval(sig string) {
	r.mu.Lock()
	r.res.Evaluations++
	if sig != "" {
		h := fnv.New64a()
		h.Write([]byte(sig))
		r.distinct[h.Sum64()] = struct{}{}
	}
	r.mu.Unlock()
}

// EvalN counts n evaluations that share one signature class.
func (r *Rec) EvalN(n int64, sig string) {
	r.mu.Lock()
	r.res.Evaluations += n
	if sig != "" {
		h := fnv.New64a()
		h.Write([]byte(sig))
		r.distinct[h.Sum64()] = struct{}{}
	}
	r.mu.Unlock()
}

// DistinctAdd adds n to the distinct count for cases that are distinct by construction
// (exhaustive enumerations, where hashing every case would only cost time).
func (r *Rec) DistinctAdd(n int64) {
	r.mu.Lock()
	r.res.Distinct += n
	r.mu.Unlock()
}

func (r *Rec) Count(name string, n int64) {
	r.mu.Lock()
	r.res.Counters[name] += n
	r.mu.Unlock()
}

func (r *Rec) Max(name string, v int64) {
	r.mu.Lock()
	if r.res.Counters[name] < v {
		r.res.Counters[name] = v
	}
	r.mu.Unlock()
}

func (r *Rec) Counter(name string) int64 {
	r.mu.Lock()
	defer r.mu.Unlock()
	return r.res.Counters[name]
}

// Sample keeps up to 8 written-out cases.
func (r *Rec) Sample(s any) {
	r.mu.Lock()
	if len(r.res.Samples) < 8 {
		r.res.Samples = append(r.res.Samples, s)
	}
	r.mu.Unlock()
}

func (r *Rec) Assume(s string) {
	r.mu.Lock()
	r.res.Assumptions = append(r.res.Assumptions, s)
	r.mu.Unlock()
}

func (r *Rec) Note(s string) {
	r.mu.Lock()
	if len(r.res.Notes) < 50 {
		r.res.Notes = append(r.res.Notes, s)
	}
	r.mu.Unlock()
}

func (r *Rec) SetExhaustive(b bool) {
	r.mu.Lock()
	r.res.Exhaustive = b
	r.mu.Unlock()
}

func (r *Rec) Inconclusive(why string) {
	r.mu.Lock()
	r.res.Inconclusive++
	if len(r.res.Notes) < 50 {
		r.res.Notes = append(r.res.Notes, "inconclusive: "+why)
	}
	r.mu.Unlock()
}

// Violation records a violation. signature names the failing class (stable across runs,
// derived from the failing case, used for the known-findings file); at most 3 witnesses
// are kept per signature.
func (r *Rec) Violation(signature, detail string, c any) {
	r.mu.Lock()
	r.res.NViolations++
	r.sigSeen[signature]++
	if r.sigSeen[signature] <= 3 && len(r.res.Violations) < r.maxViol {
		r.res.Violations = append(r.res.Violations, Violation{signature, detail, c})
	}
	r.mu.Unlock()
}

func (r *Rec) NViolations() int64 {
	r.mu.Lock()
	defer r.mu.Unlock()
	return r.res.NViolations
}

func (r *Rec) Elapsed() time.Duration { return time.Since(r.start) }

// Flush writes the result; complete=false marks a partial result written by a watchdog.
func (r *Rec) Flush(complete bool) {
	r.mu.Lock()
	defer r.mu.Unlock()
	res := r.res
	res.Distinct += int64(len(r.distinct))
	res.WallS = time.Since(r.start).Seconds()
	res.Complete = complete
	// signature totals
	keys := make([]string, 0, len(r.sigSeen))
	for k := range r.sigSeen {
		keys = append(keys, k)
	}
	sort.Strings(keys)
	for _, k := range keys {
		res.Counters["violations["+k+"]"] = int64(r.sigSeen[k])
	}
	data, err := json.MarshalIndent(&res, "", " ")
	if err != nil {
		fmt.Fprintln(os.Stderr, "vr: cannot marshal result:", err)
		os.Exit(3)
	}
	if r.out == "" {
		os.Stdout.Write(data)
		os.Stdout.Write([]byte("\n"))
		return
	}
	tmp := r.out + ".tmp"
	if err := os.WriteFile(tmp, data, 0o644); err != nil {
		fmt.Fprintln(os.Stderr, "vr: cannot write result:", err)
		os.Exit(3)
	}
	_ = os.Rename(tmp, r.out)
}

// Watchdog runs f; if f does not return within d it records a violation with the given
// signature (the case is what the caller logged last), dumps goroutines to stderr,
// flushes a partial result and exits the process (a spinning goroutine cannot be stopped).
func (r *Rec) Watchdog(d time.Duration, signature string, c func() any, f func()) {
	done := make(chan struct{})
	go func() {
		defer close(done)
		f()
	}()
	select {
	case <-done:
	case <-time.After(d):
		buf := make([]byte, 1<<20)
		n := runtime.Stack(buf, true)
		os.Stderr.Write(buf[:n])
		r.Violation(signature, fmt.Sprintf("no return within %v", d), c())
		r.Flush(false)
		os.Exit(4)
	}
}

// CaseLog writes a CASE line to stderr so that a crash of the process names its witness.
func CaseLog(c any) {
	data, _ := json.Marshal(c)
	fmt.Fprintf(os.Stderr, "CASE %s\n", data)
}
