// C19 — block option value codec is the RFC 7959 §2.2 mapping on its whole domain.
//
// Monitor: a specification function written from the RFC text is compared with
// DecodeBlockOption / EncodeBlockOption on the complete domain (exhaustive), plus the
// out-of-domain arguments the statement names; SZX.Size and BERT first-block sizing are
// observed through BlockWise.Do with a capturing do().
package c19

import (
	"bytes"
	"context"
	"fmt"
	"math/rand"
	"runtime"
	"sync"
	"testing"
	"time"

	"github.com/plgd-dev/go-coap/v3/message"
	"github.com/plgd-dev/go-coap/v3/message/codes"
	"github.com/plgd-dev/go-coap/v3/message/pool"
	"github.com/plgd-dev/go-coap/v3/net/blockwise"

	"verifharness/vr"
)

// RFC 7959 §2.2: value = NUM<<4 | M<<3 | SZX, 0..3 bytes, NUM is 20 bits.
func specDecode(v uint32) (szx uint8, num int64, more bool, ok bool) {
	if v > 0xffffff {
		return 0, 0, false, false
	}
	return uint8(v & 7), int64(v >> 4), v&8 != 0, true
}

func specEncode(szx int, num int64, more bool) (uint32, bool) {
	if szx < 0 || szx > 7 || num < 0 || num >= 1<<20 {
		return 0, false
	}
	v := uint32(num)<<4 | uint32(szx)
	if more {
		v |= 8
	}
	return v, true
}

type poolClient struct{ p *pool.Pool }

func (c poolClient) AcquireMessage(ctx context.Context) *pool.Message { return c.p.AcquireMessage(ctx) }
func (c poolClient) ReleaseMessage(m *pool.Message)                   { c.p.ReleaseMessage(m) }

func TestRun(t *testing.T) {
	rec := vr.New("C19", "exhaustive enumeration of the block option domain: every decoder input in [0,2^24) plus out-of-domain inputs (quick: 2^24..2^24+4096 and a PRNG sample of 2^20 32-bit values; thorough: all 2^32), every encoder triple szx 0..7 x num 0..2^20-1 x more, plus out-of-range exponents 8..255, block numbers 2^20..2^20+16, 2^63-1, negatives; BERT first-block size through BlockWise.Do for a grid of max message sizes. A case is non-trivial/distinct by construction (each input value is visited once).")
	defer rec.Flush(true)
	seed := vr.Seed()
	workers := runtime.GOMAXPROCS(0)

	type bad struct {
		sig, detail string
		c           any
	}
	var mu sync.Mutex
	report := func(b bad) {
		mu.Lock()
		rec.Violation(b.sig, b.detail, b.c)
		mu.Unlock()
	}

	checkDecode := func(v uint32) {
		szx, num, more, err := blockwise.DecodeBlockOption(v)
		sszx, snum, smore, ok := specDecode(v)
		if !ok {
			if err == nil {
				report(bad{"C19/decode/out-of-domain-accepted", fmt.Sprintf("DecodeBlockOption(%#x) accepted", v), v})
			}
			return
		}
		if err != nil {
			cls := "other"
			if snum > 0xffff7 {
				cls = "num>0xffff7"
			}
			report(bad{"C19/decode/in-domain-refused/" + cls, fmt.Sprintf("DecodeBlockOption(%#x) refused: %v (spec: szx=%d num=%d more=%v)", v, err, sszx, snum, smore), v})
			return
		}
		if uint8(szx) != sszx || num != snum || more != smore {
			report(bad{"C19/decode/wrong-triple", fmt.Sprintf("DecodeBlockOption(%#x) = (%d,%d,%v), spec (%d,%d,%v)", v, szx, num, more, sszx, snum, smore), v})
			return
		}
		// inverse
		back, err := blockwise.EncodeBlockOption(szx, num, more)
		if err != nil || back != v {
			report(bad{"C19/decode-encode/not-inverse", fmt.Sprintf("Encode(Decode(%#x)) = %#x, %v", v, back, err), v})
		}
	}

	// ---- decoder: whole 24-bit domain
	var wg sync.WaitGroup
	decRange := func(lo, hi uint64) {
		chunk := (hi - lo + uint64(workers) - 1) / uint64(workers)
		for w := 0; w < workers; w++ {
			a := lo + uint64(w)*chunk
			b := a + chunk
			if b > hi {
				b = hi
			}
			if a >= b {
				continue
			}
			wg.Add(1)
			go func(a, b uint64) {
				defer wg.Done()
				for v := a; v < b; v++ {
					checkDecode(uint32(v))
				}
			}(a, b)
		}
		wg.Wait()
	}
	decRange(0, 1<<24)
	rec.EvalN(1<<24, "")
	rec.DistinctAdd(1 << 24)
	rec.Count("decoder_inputs_in_domain", 1<<24)
	if vr.Thorough() {
		decRange(1<<24, 1<<32)
		rec.EvalN((1<<32)-(1<<24), "")
		rec.DistinctAdd((1 << 32) - (1 << 24))
		rec.Count("decoder_inputs_out_of_domain", (1<<32)-(1<<24))
	} else {
		decRange(1<<24, 1<<24+4096)
		rnd := rand.New(rand.NewSource(seed))
		n := 1 << 20
		for i := 0; i < n; i++ {
			checkDecode(rnd.Uint32() | 1<<24<<uint(rnd.Intn(8)))
		}
		for _, v := range []uint32{0xffffffff, 0x80000000, 0x1000000, 0x1000008, 0xfffffff} {
			checkDecode(v)
		}
		rec.EvalN(int64(4096+n+5), "")
		rec.DistinctAdd(4096)
		rec.Count("decoder_inputs_out_of_domain", int64(4096+n+5))
	}

	// ---- encoder: all triples in the domain
	for szx := 0; szx < 8; szx++ {
		wg.Add(1)
		go func(szx int) {
			defer wg.Done()
			for num := int64(0); num < 1<<20; num++ {
				for _, more := range []bool{false, true} {
					want, _ := specEncode(szx, num, more)
					got, err := blockwise.EncodeBlockOption(blockwise.SZX(szx), num, more)
					if err != nil {
						cls := "other"
						if num > 0xffff7 {
							cls = "num>0xffff7"
						}
						report(bad{"C19/encode/in-domain-refused/" + cls, fmt.Sprintf("EncodeBlockOption(%d,%d,%v) refused: %v", szx, num, more, err), []any{szx, num, more}})
						continue
					}
					if got != want {
						report(bad{"C19/encode/wrong-value", fmt.Sprintf("EncodeBlockOption(%d,%d,%v) = %#x, spec %#x", szx, num, more, got, want), []any{szx, num, more}})
						continue
					}
					ds, dn, dm, derr := blockwise.DecodeBlockOption(got)
					if derr != nil || int(ds) != szx || dn != num || dm != more {
						report(bad{"C19/encode-decode/not-inverse", fmt.Sprintf("Decode(Encode(%d,%d,%v)) = (%d,%d,%v,%v)", szx, num, more, ds, dn, dm, derr), []any{szx, num, more}})
					}
				}
			}
		}(szx)
	}
	wg.Wait()
	rec.EvalN(8*(1<<20)*2, "")
	rec.DistinctAdd(8 * (1 << 20) * 2)
	rec.Count("encoder_triples_in_domain", 8*(1<<20)*2)

	// ---- encoder: out of domain
	nOut := int64(0)
	outNums := []int64{1 << 20, 1<<20 + 1, 1<<20 + 16, 1 << 24, 1 << 28, 1<<31 - 1, 1 << 31, 1 << 32, 1<<32 + 5, 1<<63 - 1, -1, -2, -(1 << 20), -(1 << 62), -1 << 63}
	for szx := 0; szx < 256; szx++ {
		for _, more := range []bool{false, true} {
			for _, num := range append([]int64{0, 1, 1<<20 - 1}, outNums...) {
				_, ok := specEncode(szx, num, more)
				if ok {
					continue
				}
				nOut++
				got, err := blockwise.EncodeBlockOption(blockwise.SZX(szx), num, more)
				if err == nil {
					report(bad{"C19/encode/out-of-domain-accepted", fmt.Sprintf("EncodeBlockOption(%d,%d,%v) = %#x accepted", szx, num, more, got), []any{szx, num, more}})
				}
			}
		}
	}
	rec.EvalN(nOut, "")
	rec.DistinctAdd(nOut)
	rec.Count("encoder_triples_out_of_domain", nOut)

	// ---- sizes
	for s := 0; s < 8; s++ {
		want := int64(1) << uint(s+4)
		if s == 7 {
			want = 1024
		}
		if got := blockwise.SZX(s).Size(); got != want {
			report(bad{"C19/size/wrong", fmt.Sprintf("SZX(%d).Size() = %d, want %d", s, got, want), s})
		}
		rec.Eval(fmt.Sprintf("size-%d", s))
	}
	// exponents outside 0-7 have no size: "arguments outside that domain are refused ... instead of being wrapped" - a size
	// accessor that answers with the size of some other exponent is wrapping
	for s := 8; s <= 255; s++ {
		if got := blockwise.SZX(s).Size(); got > 0 {
			report(bad{"C19/size/out-of-domain-exponent-has-a-size", fmt.Sprintf("SZX(%d).Size() = %d: no exponent outside 0-7 has a block size", s, got), s})
		}
		rec.Eval(fmt.Sprintf("size-%d", s))
	}
	rec.Count("size_checks_out_of_domain", 248)

	// ---- BERT sizing observed through Do
	rnd := rand.New(rand.NewSource(seed ^ 0x19))
	sizes := []uint32{1152, 1153, 2047, 2048, 2049, 3071, 3072, 4096, 5000, 65535, 65536, 65537, 1 << 20, 1<<20 + 1023, 1<<24 - 1, 1 << 24}
	nr := vr.Scale(40, 400)
	for i := 0; i < nr; i++ {
		sizes = append(sizes, 1152+uint32(rnd.Intn(1<<uint(11+rnd.Intn(11)))))
	}
	cc := poolClient{pool.New(0, 0)}
	for _, max := range sizes {
		bw := blockwise.New(cc, time.Hour, func(error) {}, nil)
		want := int64(max/1024) * 1024
		bodyLen := want*2 + 17
		body := make([]byte, bodyLen)
		for i := range body {
			body[i] = byte(i * 7)
		}
		req := pool.NewMessage(context.Background())
		req.SetCode(codes.POST)
		req.SetToken(message.Token{1, 2, 3, byte(max)})
		req.SetBody(bytes.NewReader(body))
		var firstLen int64 = -1
		var blockVal uint32
		var hasBlock bool
		var firstBody []byte
		_, _ = bw.Do(req, blockwise.SZXBERT, max, func(r *pool.Message) (*pool.Message, error) {
			b, _ := r.ReadBody()
			firstLen = int64(len(b))
			firstBody = b
			v, err := r.GetOptionUint32(message.Block1)
			hasBlock = err == nil
			blockVal = v
			return nil, fmt.Errorf("stop")
		})
		rec.Eval(fmt.Sprintf("bert-%d", max/1024))
		rec.Count("bert_do_observed", 1)
		if firstLen != want {
			report(bad{"C19/bert/first-block-size", fmt.Sprintf("max message size %d: first BERT block %d bytes, want %d", max, firstLen, want), max})
			continue
		}
		if !bytes.Equal(firstBody, body[:want]) {
			report(bad{"C19/bert/first-block-content", fmt.Sprintf("max message size %d: first block content differs", max), max})
		}
		if !hasBlock || blockVal != 0xf {
			report(bad{"C19/bert/first-block-option", fmt.Sprintf("max message size %d: Block1 = %#x present=%v, want 0xf (NUM 0, M, SZX 7)", max, blockVal, hasBlock), max})
		}
	}
	rec.SetExhaustive(true)
	rec.Sample(map[string]any{"decode": "0xfffff8 -> szx 0 num 0xfffff more true", "encode": "(7, 0xfffff, true) -> 0xffffff", "bert_max_sizes": sizes[:8]})
	rec.Assume("the specification function (6 lines) is a faithful reading of RFC 7959 section 2.2")
}
