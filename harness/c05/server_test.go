package c05

import (
	"bytes"
	"fmt"
	"net"
	"strconv"
	"sync"
	"sync/atomic"
	"time"

	"github.com/plgd-dev/go-coap/v3/message"
	"github.com/plgd-dev/go-coap/v3/message/codes"
	"github.com/plgd-dev/go-coap/v3/mux"
	coapNet "github.com/plgd-dev/go-coap/v3/net"
	"github.com/plgd-dev/go-coap/v3/options"
	"github.com/plgd-dev/go-coap/v3/udp"

	"verifharness/ref"
	"verifharness/vr"
)

// serverDuplicates: the same statement on a real udp server, where "the same peer" is decided by the server's own peer
// table. The server is bound to a wildcard or to a loopback address; a raw peer sends a confirmable or non-confirmable
// request; between the first copy and its duplicates the application does what applications do with a server - asks it
// for the connection to that very peer (Server.NewConn, e.g. to push something), lets other peers talk to it, or
// nothing. Every copy must get the same reply and the handler must have run once.
func serverDuplicates(rec *vr.Rec, reps int) {
	for rep := 0; rep < reps; rep++ {
		bind := []string{"0.0.0.0:0", "127.0.0.1:0"}[rep%2]
		between := []string{"NewConn(peer)", "nothing", "other-peers", "NewConn(peer)+other-peers"}[(rep/2)%4]
		con := (rep/8)%2 == 0
		copies := 2 + rep%3
		c := map[string]any{"scenario": "duplicates at a real udp server", "bind": bind, "between_copies": between, "confirmable": con, "copies": copies}
		l, err := coapNet.NewListenUDP("udp4", bind)
		if err != nil {
			rec.Inconclusive("server duplicates: " + err.Error())
			return
		}
		var hits atomic.Int32
		r := mux.NewRouter()
		_ = r.Handle("/a", mux.HandlerFunc(func(w mux.ResponseWriter, _ *mux.Message) {
			n := hits.Add(1)
			_ = w.SetResponse(codes.Content, message.TextPlain, bytes.NewReader([]byte("execution "+strconv.Itoa(int(n)))))
		}))
		_ = r.Handle("/other", mux.HandlerFunc(func(w mux.ResponseWriter, _ *mux.Message) {
			_ = w.SetResponse(codes.Content, message.TextPlain, bytes.NewReader([]byte("other")))
		}))
		s := udp.NewServer(options.WithMux(r), options.WithErrors(func(error) {}))
		var wg sync.WaitGroup
		wg.Add(1)
		go func() { defer wg.Done(); _ = s.Serve(l) }()
		port := l.LocalAddr().(*net.UDPAddr).Port
		dial := func() *net.UDPConn {
			pc, derr := net.DialUDP("udp4", nil, &net.UDPAddr{IP: net.IPv4(127, 0, 0, 1), Port: port})
			if derr != nil {
				return nil
			}
			return pc
		}
		peer := dial()
		if peer == nil {
			rec.Inconclusive("server duplicates: dial")
			s.Stop()
			wg.Wait()
			_ = l.Close()
			continue
		}
		typ := uint8(1)
		if con {
			typ = 0
		}
		mid := uint16(0x3100 + rep)
		dg := ref.EncodeUDP(ref.Msg{Type: typ, Code: 1, MID: mid, Token: []byte{0xc0, 0x05, byte(rep)}, Opts: []ref.Opt{{ID: 11, Val: []byte("a")}}})
		exchange := func(pc *net.UDPConn, d []byte) (ref.Msg, bool) {
			_, _ = pc.Write(d)
			buf := make([]byte, 1500)
			_ = pc.SetReadDeadline(time.Now().Add(3 * time.Second))
			n, rerr := pc.Read(buf)
			if rerr != nil {
				return ref.Msg{}, false
			}
			m, perr := ref.ParseUDP(buf[:n])
			return m, perr == nil
		}
		first, ok := exchange(peer, dg)
		if !ok {
			rec.Inconclusive("server duplicates: no reply to the first copy")
			_ = peer.Close()
			s.Stop()
			wg.Wait()
			_ = l.Close()
			continue
		}
		if between == "NewConn(peer)" || between == "NewConn(peer)+other-peers" {
			pa := peer.LocalAddr().(*net.UDPAddr)
			if cc, nerr := s.NewConn(&net.UDPAddr{IP: net.IPv4(127, 0, 0, 1), Port: pa.Port}); nerr != nil || cc == nil {
				rec.Count("server_newconn_refused", 1)
			}
		}
		if between == "other-peers" || between == "NewConn(peer)+other-peers" {
			for k := 0; k < 3; k++ {
				if op := dial(); op != nil {
					_, _ = exchange(op, ref.EncodeUDP(ref.Msg{Type: 0, Code: 1, MID: mid, Token: []byte{0xee, byte(k)}, Opts: []ref.Opt{{ID: 11, Val: []byte("other")}}}))
					_ = op.Close()
				}
			}
		}
		bad := false
		for k := 1; k < copies && !bad; k++ {
			again, ok2 := exchange(peer, dg)
			switch {
			case !ok2:
				rec.Violation("C05/server/duplicate-not-answered", fmt.Sprintf("copy %d of %d got no reply within 3 s", k+1, copies), c)
				bad = true
			case hits.Load() != 1:
				rec.Violation("C05/server/handler-reexecuted", fmt.Sprintf("copy %d of %d of one request (same message ID, same source): the handler has run %d times; first reply %q, this reply %q", k+1, copies, hits.Load(), first.Payload, again.Payload), c)
				bad = true
			case con && (again.Type != first.Type || again.MID != first.MID || again.Code != first.Code || !bytes.Equal(again.Token, first.Token) || !bytes.Equal(again.Payload, first.Payload)):
				rec.Violation("C05/server/duplicate-reply-differs", fmt.Sprintf("first reply %+v, reply to copy %d %+v", first, k+1, again), c)
				bad = true
			case !con && (again.Code != first.Code || !bytes.Equal(again.Token, first.Token) || !bytes.Equal(again.Payload, first.Payload)):
				rec.Violation("C05/server/duplicate-reply-differs", fmt.Sprintf("first reply %+v, reply to copy %d %+v", first, k+1, again), c)
				bad = true
			}
		}
		if !bad {
			rec.Count("server_duplicates_answered_from_cache", int64(copies-1))
		}
		rec.Eval(fmt.Sprintf("server-dup|%s|%s|%v|%d", bind, between, con, copies))
		rec.Count("server_duplicate_cases", 1)
		_ = peer.Close()
		s.Stop()
		wg.Wait()
		_ = l.Close()
	}
}

var _ = vr.Seed
