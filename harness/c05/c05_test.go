// C05 — datagram duplicates never re-execute a handler (MID de-duplication).
//
// Monitor: handler-invocation log per message ID plus the datagrams the connection emits
// for every injected copy, on a real udp connection over an in-memory session. Copies are
// injected sequentially, while the first handler is still running (it blocks in a nested
// request so that the copies are processed by a replacement reader loop), and from several
// goroutines at a barrier. The lifetime boundary is decided by sweeps at bracketed virtual
// times t0+247s-1s / t0+247s+1s.
package c05

import (
	"bytes"
	"context"
	"fmt"
	"math/rand"
	"strings"
	"sync"
	"sync/atomic"
	"testing"
	"time"

	"github.com/plgd-dev/go-coap/v3/message"
	"github.com/plgd-dev/go-coap/v3/message/codes"
	"github.com/plgd-dev/go-coap/v3/message/pool"
	"github.com/plgd-dev/go-coap/v3/net/responsewriter"
	udpclient "github.com/plgd-dev/go-coap/v3/udp/client"

	"verifharness/ref"
	"verifharness/sim"
	"verifharness/vr"
)

const lifetime = 247 * time.Second

type dcase struct {
	Type     string `json:"request_type"`
	Behav    string `json:"handler"`   // piggy / none / separate / nested
	Inject   string `json:"injection"` // sequential / during-handler / barrier
	Copies   int    `json:"copies"`
	MID      int    `json:"mid"`
	OwnMID   int    `json:"own_next_mid"`
	Boundary string `json:"lifetime_boundary,omitempty"`
	Others   int    `json:"interleaved_other_mids"`
}

type harness struct {
	s     *sim.MemSession
	cc    *udpclient.Conn
	mu    sync.Mutex
	runs  map[uint16]int // handler invocations per request MID
	gate  chan struct{}  // released to let a blocked handler continue
	enter chan uint16
	behav map[uint16]string
}

func newHarness(ownMID int) *harness {
	h := &harness{s: sim.NewMemSession(), runs: map[uint16]int{}, gate: make(chan struct{}), enter: make(chan uint16, 64), behav: map[uint16]string{}}
	h.cc = sim.NewUDPConn(h.s, sim.UDPOpts{
		Mutate: func(cfg *udpclient.Config) {
			cfg.GetMID = func() int32 { return int32((ownMID + 0xffff/2) & 0xffff) }
			cfg.ReceivedMessageQueueSize = 16
		},
		Handler: func(w *responsewriter.ResponseWriter[*udpclient.Conn], r *pool.Message) {
			if r.Code() != codes.POST && r.Code() != codes.GET {
				return
			}
			mid := uint16(r.MessageID())
			h.mu.Lock()
			h.runs[mid]++
			b := h.behav[mid]
			h.mu.Unlock()
			body, _ := r.ReadBody()
			if strings.HasSuffix(b, "-owned") {
				// the handler takes the request over and is done with it before it returns (as a handler that passes the
				// request to a worker which finishes first): what the reply looks like must not depend on the request
				// object any more
				b = strings.TrimSuffix(b, "-owned")
				r.Hijack()
				w.Conn().ReleaseMessage(r)
			}
			switch b {
			case "setmessage":
				// the application builds the response itself, under a context of its own with a short deadline (a request
				// scoped context), and hands it over: how long the reply is remembered is a matter of the exchange lifetime,
				// not of whatever context that message was created with
				mctx, mcancel := context.WithTimeout(context.Background(), 25*time.Millisecond)
				defer mcancel()
				m := w.Conn().AcquireMessage(mctx)
				m.SetCode(codes.Content)
				m.SetToken(r.Token())
				m.SetContentFormat(message.TextPlain)
				m.SetBody(bytes.NewReader(append([]byte("sm:"), body...)))
				w.SetMessage(m)
			case "piggy":
				_ = w.SetResponse(codes.Content, message.TextPlain, bytes.NewReader(append([]byte("re:"), body...)), message.Option{ID: message.ETag, Value: []byte{1, 2, 3}})
			case "none":
			case "separate":
				// answer later with a separate message sent by the application
				tok := r.Token()
				cc := w.Conn()
				go func() {
					m := cc.AcquireMessage(context.Background())
					m.SetCode(codes.Content)
					m.SetToken(tok)
					m.SetType(message.NonConfirmable)
					m.SetBody(bytes.NewReader([]byte("sep")))
					_ = cc.WriteMessage(m)
				}()
			case "nested":
				// block in a nested request on the same connection: the reader loop is replaced and
				// later copies are processed concurrently with this handler
				h.enter <- mid
				ctx, cancel := context.WithTimeout(context.Background(), 30*time.Second)
				resp, err := w.Conn().Get(ctx, "/nested")
				cancel()
				if err == nil {
					w.Conn().ReleaseMessage(resp)
				}
				_ = w.SetResponse(codes.Changed, message.TextPlain, bytes.NewReader(append([]byte("n:"), body...)))
			}
		},
	})
	return h
}

func request(typ uint8, mid uint16, tok []byte, payload string) []byte {
	return ref.EncodeUDP(ref.Msg{Type: typ, Code: 2, MID: mid, Token: tok, Opts: []ref.Opt{{ID: 11, Val: []byte("d")}, {ID: 15, Val: []byte("q=1")}}, Payload: []byte(payload)})
}

func sameReply(a, b ref.Msg) string {
	if a.Code != b.Code {
		return fmt.Sprintf("code %d vs %d", a.Code, b.Code)
	}
	if !bytes.Equal(a.Token, b.Token) {
		return fmt.Sprintf("token %x vs %x", a.Token, b.Token)
	}
	if !bytes.Equal(a.Payload, b.Payload) {
		return fmt.Sprintf("payload %q vs %q", a.Payload, b.Payload)
	}
	if len(a.Opts) != len(b.Opts) {
		return fmt.Sprintf("%d options vs %d", len(a.Opts), len(b.Opts))
	}
	for i := range a.Opts {
		if a.Opts[i].ID != b.Opts[i].ID || !bytes.Equal(a.Opts[i].Val, b.Opts[i].Val) {
			return fmt.Sprintf("option %d differs", i)
		}
	}
	return ""
}

// answerNested answers every nested GET the connection has emitted so far and acknowledges
// nothing else; returns the number of nested requests answered.
func (h *harness) answerNested(seen *int) int {
	n := 0
	log := h.s.Log()
	for ; *seen < len(log); *seen++ {
		m, err := ref.ParseUDP(log[*seen].Data)
		if err != nil {
			continue
		}
		if m.Type == 0 && m.Code == 1 {
			_ = h.cc.Process(nil, ref.EncodeUDP(ref.Msg{Type: 2, Code: 0x45, MID: m.MID, Token: m.Token, Payload: []byte("nested-ok")}))
			n++
		}
	}
	return n
}

// repliesFor collects the datagrams that answer request (mid, tok).
func (h *harness) repliesFor(con bool, mid uint16, tok []byte) []ref.Msg {
	var out []ref.Msg
	for _, d := range h.s.Log() {
		m, err := ref.ParseUDP(d.Data)
		if err != nil {
			continue
		}
		if con {
			if m.Type == 2 && m.MID == mid {
				out = append(out, m)
			}
		} else if bytes.Equal(m.Token, tok) && m.Code>>5 >= 2 {
			out = append(out, m)
		}
	}
	return out
}

func runCase(rec *vr.Rec, c dcase, rnd *rand.Rand) {
	h := newHarness(c.OwnMID)
	defer h.cc.Close()
	con := c.Type == "CON"
	typ := uint8(1)
	if con {
		typ = 0
	}
	mid := uint16(c.MID)
	tok := []byte{0xd0, byte(mid >> 8), byte(mid), byte(c.Copies)}
	h.behav[mid] = c.Behav
	dg := request(typ, mid, tok, "body")
	behav := strings.TrimSuffix(c.Behav, "-owned")
	expectReply := con || behav == "piggy" || behav == "nested" || behav == "setmessage"
	wantReplies := func(n int) bool {
		return sim.WaitFor(20*time.Second, func() bool { return len(h.repliesFor(con, mid, tok)) >= n })
	}
	seen := 0
	t0lo := time.Now()
	switch c.Inject {
	case "sequential":
		for i := 0; i < c.Copies; i++ {
			if behav == "setmessage" && i == c.Copies-1 {
				time.Sleep(60 * time.Millisecond) // the last copy arrives well after the deadline of the context the reply was built with
			}
			_ = h.cc.Process(nil, dg)
			for o := 0; o < c.Others; o++ {
				omid := mid + 1 + uint16(i*c.Others+o)
				h.mu.Lock()
				h.behav[omid] = "piggy"
				h.mu.Unlock()
				_ = h.cc.Process(nil, request(0, omid, []byte{0xaa, byte(omid)}, "other"))
			}
			if c.Behav == "nested" && i == 0 {
				// first copy: let the handler finish
				select {
				case <-h.enter:
				case <-time.After(20 * time.Second):
				}
				sim.WaitFor(20*time.Second, func() bool { return h.answerNested(&seen) > 0 })
			}
			if expectReply {
				if !wantReplies(i + 1) {
					rec.Violation("C05/duplicate-not-answered", fmt.Sprintf("copy %d of %d: no reply observed", i+1, c.Copies), c)
					return
				}
			}
		}
	case "during-handler":
		// the first copy blocks in its handler; the other copies arrive meanwhile (one injector
		// goroutine, like the socket reader), then the handler is released
		go func() {
			for i := 0; i < c.Copies; i++ {
				_ = h.cc.Process(nil, dg)
				if i == 0 {
					// wait until the handler runs before sending the duplicates
					select {
					case <-h.enter:
					case <-time.After(20 * time.Second):
					}
				}
			}
		}()
		// copies 2..n are now queued / blocked on the per-ID lock; give them a moment, then release
		sim.WaitFor(20*time.Second, func() bool { h.mu.Lock(); defer h.mu.Unlock(); return h.runs[mid] >= 1 })
		time.Sleep(time.Duration(rnd.Intn(400)) * time.Microsecond)
		sim.WaitFor(20*time.Second, func() bool { return h.answerNested(&seen) > 0 })
	case "barrier":
		var wg sync.WaitGroup
		var start atomic.Bool
		for i := 0; i < c.Copies; i++ {
			wg.Add(1)
			go func() {
				defer wg.Done()
				for !start.Load() {
				}
				_ = h.cc.Process(nil, dg)
			}()
		}
		start.Store(true)
		wg.Wait()
	}
	if expectReply {
		if !wantReplies(c.Copies) {
			h.mu.Lock()
			runs := h.runs[mid]
			h.mu.Unlock()
			if runs > 1 {
				rec.Violation(fmt.Sprintf("C05/handler-reexecuted/%s/%s", c.Type, c.Inject), fmt.Sprintf("%d copies of one %s request (MID %d): handler ran %d times (and %d replies were seen)", c.Copies, c.Type, mid, runs, len(h.repliesFor(con, mid, tok))), c)
				return
			}
			rec.Violation("C05/duplicate-not-answered", fmt.Sprintf("%d copies injected, %d replies", c.Copies, len(h.repliesFor(con, mid, tok))), c)
			return
		}
	} else {
		// NON without reply: the statement does not cover it; drain with a sentinel
		h.mu.Lock()
		h.behav[60001] = "piggy"
		h.mu.Unlock()
		_ = h.cc.Process(nil, request(0, 60001, []byte{0xfe}, "s"))
		sim.WaitFor(20*time.Second, func() bool { return len(h.repliesFor(true, 60001, nil)) >= 1 })
	}
	t0hi := time.Now()
	// give a possible extra reply / handler run the chance to show up
	time.Sleep(200 * time.Microsecond)
	h.mu.Lock()
	runs := h.runs[mid]
	h.mu.Unlock()
	rec.Count("copies_injected", int64(c.Copies))
	if expectReply || con {
		if runs != 1 {
			rec.Violation(fmt.Sprintf("C05/handler-reexecuted/%s/%s", c.Type, c.Inject), fmt.Sprintf("%d copies of one %s request (MID %d): handler ran %d times", c.Copies, c.Type, mid, runs), c)
			return
		}
		reps := h.repliesFor(con, mid, tok)
		if len(reps) != c.Copies {
			rec.Violation("C05/reply-count", fmt.Sprintf("%d copies, %d replies", c.Copies, len(reps)), c)
			return
		}
		// The reply to the first copy of a NON request carries an ID of this endpoint and may be
		// written after the replies to the duplicates (the per-ID lock is released before the
		// reply is sent), so at most one reply may carry a foreign ID.
		foreign := 0
		for i, rp := range reps[1:] {
			if d := sameReply(reps[0], rp); d != "" {
				rec.Violation("C05/duplicate-reply-differs", fmt.Sprintf("reply %d: %s", i+2, d), c)
				return
			}
		}
		for _, rp := range reps {
			if rp.MID != mid {
				foreign++
			}
		}
		if (con && foreign > 0) || foreign > 1 {
			rec.Violation("C05/duplicate-reply-mid", fmt.Sprintf("%d of %d replies do not carry the duplicate's message ID %d", foreign, len(reps), mid), c)
			return
		}
		if con {
			bare := reps[0].Code == 0
			if bare != (behav == "none" || behav == "separate") {
				rec.Violation("C05/first-reply-kind", fmt.Sprintf("first reply code %d for handler behaviour %s", reps[0].Code, c.Behav), c)
				return
			}
		}
		rec.Count("duplicate_replies_checked", int64(len(reps)-1))
	}
	// ---- lifetime boundary
	if c.Boundary != "" && (expectReply || con) {
		var now time.Time
		if c.Boundary == "before" {
			now = t0lo.Add(lifetime - time.Second)
		} else {
			now = t0hi.Add(lifetime + time.Second)
		}
		if c.Boundary == "after-late-duplicate" {
			// the lifetime of a message ID counts from the FIRST copy: a duplicate that arrives a while later (answered from
			// the cache) does not extend it. The duplicate arrives >= 30 ms (real time) after every earlier copy; housekeeping
			// then runs at "everything so far + lifetime + 15 ms", i.e. after the lifetime of the first copy and before
			// what the lifetime would be if it had been counted from the late duplicate.
			time.Sleep(30 * time.Millisecond)
			_ = h.cc.Process(nil, dg)
			wantReplies(c.Copies + 1)
			now = t0hi.Add(lifetime + 15*time.Millisecond)
			c.Copies++
		}
		h.cc.CheckExpirations(now)
		_ = h.cc.Process(nil, dg)
		if c.Behav == "nested" && c.Boundary != "before" {
			// a fresh execution blocks in the nested request: release it (if the handler does not
			// run again, no nested request appears and the wait below reports that)
			sim.WaitFor(5*time.Second, func() bool { return h.answerNested(&seen) > 0 })
		}
		wantReplies(c.Copies + 1)
		time.Sleep(200 * time.Microsecond)
		h.mu.Lock()
		runs2 := h.runs[mid]
		h.mu.Unlock()
		rec.Count("lifetime_boundary_checks", 1)
		if c.Boundary == "before" && runs2 != 1 {
			rec.Violation("C05/lifetime/expired-too-early", fmt.Sprintf("sweep at t0+247s-1s, then a copy: handler ran %d times", runs2), c)
		}
		if c.Boundary == "after" && runs2 != 2 {
			rec.Violation("C05/lifetime/not-fresh-after-lifetime", fmt.Sprintf("sweep at t0+247s+1s, then a copy: handler ran %d times (want 2)", runs2), c)
		}
		if c.Boundary == "after-late-duplicate" && runs2 != 2 {
			rec.Violation("C05/lifetime/extended-by-a-late-duplicate", fmt.Sprintf("a duplicate arrived 30 ms after the first copy; sweep at (first copy)+247s+15ms, then a copy: handler ran %d times (want 2: the lifetime counts from the first copy)", runs2), c)
		}
	}
}

// responseDuplicates: a separate confirmable response from the peer delivered twice is
// acknowledged twice with the same empty ACK and reaches the caller once.
func responseDuplicates(rec *vr.Rec, n int) {
	for i := 0; i < n; i++ {
		h := newHarness(20000)
		var stray atomic.Int32
		_ = stray
		done := make(chan error, 1)
		go func() {
			ctx, cancel := context.WithTimeout(context.Background(), 20*time.Second)
			defer cancel()
			resp, err := h.cc.Get(ctx, "/x")
			if err == nil {
				b, _ := resp.ReadBody()
				if string(b) != "late" {
					err = fmt.Errorf("wrong body %q", b)
				}
			}
			done <- err
		}()
		if !h.s.WaitLen(1, 20*time.Second) {
			rec.Inconclusive("request not observed")
			h.cc.Close()
			continue
		}
		m, _ := ref.ParseUDP(h.s.Log()[0].Data)
		_ = h.cc.Process(nil, ref.EncodeUDP(ref.Msg{Type: 2, Code: 0, MID: m.MID}))
		sep := ref.EncodeUDP(ref.Msg{Type: 0, Code: 0x45, MID: uint16(5000 + i), Token: m.Token, Payload: []byte("late")})
		copies := 2 + i%3
		for k := 0; k < copies; k++ {
			_ = h.cc.Process(nil, sep)
		}
		err := <-done
		if err != nil {
			rec.Violation("C05/response-duplicate/call-failed", err.Error(), nil)
		}
		ok := sim.WaitFor(20*time.Second, func() bool { return len(h.repliesFor(true, uint16(5000+i), nil)) >= copies })
		reps := h.repliesFor(true, uint16(5000+i), nil)
		if !ok || len(reps) != copies {
			rec.Violation("C05/response-duplicate/ack-count", fmt.Sprintf("%d copies of a separate CON response, %d ACKs", copies, len(reps)), nil)
		}
		for _, r := range reps {
			if r.Code != 0 || len(r.Payload) != 0 {
				rec.Violation("C05/response-duplicate/ack-not-empty", r.String(), nil)
			}
		}
		rec.Eval(fmt.Sprintf("respdup|%d", copies))
		rec.Count("response_duplicate_cases", 1)
		h.cc.Close()
	}
}

func TestRun(t *testing.T) {
	rec := vr.New("C05", "cases = request type {CON, NON} x handler behaviour {piggybacked response, no response, separate response, response after a nested blocking request, piggybacked / no response from a handler that took the request over and released it before returning, response handed over with SetMessage (built under a context with a short deadline; the last copy arrives after it)} x injection {sequential copies, copies arriving while the first handler still runs, 2..8 goroutines at a barrier} x copies 2..8 x message IDs {0, 1, 65535, around the connection's own next outgoing IDs, PRNG} x interleaved other IDs x lifetime boundary {none, sweep at t0+247s-1s, sweep at t0+247s+1s}; plus duplicated separate responses from the peer. Distinct = distinct case tuples.")
	defer rec.Flush(true)
	seed := vr.Seed()
	rnd := rand.New(rand.NewSource(seed))
	var cases []dcase
	own := 30000
	mids := []int{0, 1, 65535, own, own + 1, own + 2, own - 1}
	for _, typ := range []string{"CON", "NON"} {
		for _, b := range []string{"piggy", "none", "separate", "nested", "piggy-owned", "none-owned", "setmessage"} {
			for _, inj := range []string{"sequential", "during-handler", "barrier"} {
				if inj == "during-handler" && b != "nested" {
					continue
				}
				if inj == "barrier" && b == "nested" {
					continue
				}
				nrep := vr.Scale(200, 3000)
				if b == "setmessage" {
					if inj != "sequential" {
						continue
					}
					nrep = vr.Scale(16, 200) // each costs 60 ms of real time
				}
				for rep := 0; rep < nrep; rep++ {
					c := dcase{Type: typ, Behav: b, Inject: inj, Copies: 2 + rnd.Intn(7), OwnMID: own, Others: rnd.Intn(3)}
					if rnd.Intn(2) == 0 {
						c.MID = mids[rnd.Intn(len(mids))]
					} else {
						c.MID = rnd.Intn(65536)
					}
					if c.MID >= 59000 && c.MID <= 61000 {
						c.MID = 100
					}
					switch rnd.Intn(3) {
					case 1:
						c.Boundary = "before"
					case 2:
						c.Boundary = "after"
						if rep%8 == 3 && b != "nested" {
							c.Boundary = "after-late-duplicate"
						}
					}
					if inj != "sequential" {
						c.Others = 0
					}
					cases = append(cases, c)
				}
			}
		}
	}
	var wg sync.WaitGroup
	var next atomic.Int64
	for w := 0; w < 8; w++ {
		wg.Add(1)
		go func(w int) {
			defer wg.Done()
			r := rand.New(rand.NewSource(seed*3 + int64(w)))
			for {
				i := int(next.Add(1)) - 1
				if i >= len(cases) {
					return
				}
				if rec.NViolations() > 12 {
					// a reply that never shows up costs a full watchdog per case: enough witnesses, end the run with them
					rec.Count("cases_skipped_after_violations", 1)
					continue
				}
				tc := time.Now()
				runCase(rec, cases[i], r)
				c := cases[i]
				if d := time.Since(tc); d > 2*time.Second {
					rec.Note(fmt.Sprintf("slow case %v: %+v", d, c))
				}
				rec.Eval(fmt.Sprintf("%s|%s|%s|%d|%d|%s|%d", c.Type, c.Behav, c.Inject, c.Copies, c.MID, c.Boundary, c.Others))
				if i < 3 {
					rec.Sample(c)
				}
			}
		}(w)
	}
	wg.Wait()
	if rec.NViolations() <= 12 {
		responseDuplicates(rec, vr.Scale(100, 3000))
	}
	if rec.NViolations() <= 12 {
		serverDuplicates(rec, vr.Scale(32, 320))
	}
	rec.Assume("t0 (the instant the reply is cached) lies in [time before the first copy was injected, time after the last reply was observed]; sweeps are placed 1 s outside that bracket +/- 247 s")
	rec.Assume("a non-confirmable request for which no reply was produced is outside the statement (its duplicates may run the handler again)")
}
