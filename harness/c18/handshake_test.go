package c18

import (
	"context"
	"fmt"
	"net"
	"sync"
	"time"

	piondtls "github.com/pion/dtls/v3"
	"github.com/plgd-dev/go-coap/v3/dtls"
	dtlsserver "github.com/plgd-dev/go-coap/v3/dtls/server"
	"github.com/plgd-dev/go-coap/v3/mux"
	coapNet "github.com/plgd-dev/go-coap/v3/net"
	"github.com/plgd-dev/go-coap/v3/options"
	"github.com/plgd-dev/go-coap/v3/pkg/runner/periodic"
	udpclient "github.com/plgd-dev/go-coap/v3/udp/client"

	"verifharness/ref"
	"verifharness/vr"
)

// slowHandshake: a real dtls server with an inactivity monitor (or keep-alive) of period P and a housekeeping tick every
// 10 ms; the handshake with a peer takes longer than P (the PSK callback of the peer, or of the server, sleeps). The
// connection the server then creates is new: it may be closed as inactive only after a period without a message from the
// peer ON THAT CONNECTION - not a few milliseconds after it came into being. The verdict is a lower bound (closed earlier
// than P/3 after the server announced the connection), which load on the machine can only make easier to meet.
func slowHandshake(rec *vr.Rec, reps int) {
	const period = 600 * time.Millisecond
	for rep := 0; rep < reps; rep++ {
		slowSide := []string{"peer", "server"}[rep%2]
		keepAlive := (rep/2)%2 == 1
		c := map[string]any{"scenario": "dtls handshake slower than the monitor period", "slow_side": slowSide, "period": period.String(), "keep_alive": keepAlive}
		mk := func(slow bool) *piondtls.Config {
			return &piondtls.Config{
				PSK: func([]byte) ([]byte, error) {
					if slow {
						time.Sleep(period + period/2)
					}
					return []byte{0xAB, 0xC1, 0x23}, nil
				},
				PSKIdentityHint: []byte("verif"),
				CipherSuites:    []piondtls.CipherSuiteID{piondtls.TLS_PSK_WITH_AES_128_CCM_8},
			}
		}
		l, err := coapNet.NewDTLSListener("udp4", "127.0.0.1:0", mk(slowSide == "server"))
		if err != nil {
			rec.Inconclusive("slow handshake: " + err.Error())
			return
		}
		var mu sync.Mutex
		var created, closed time.Time
		inactiveCalls := 0
		stop := make(chan struct{})
		r := mux.NewRouter()
		_ = r.Handle("/a", mux.HandlerFunc(func(w mux.ResponseWriter, m *mux.Message) {}))
		onNew := options.WithOnNewConn(func(cc *udpclient.Conn) {
			mu.Lock()
			created = time.Now()
			mu.Unlock()
			cc.AddOnClose(func() {
				mu.Lock()
				closed = time.Now()
				mu.Unlock()
			})
		})
		onInactive := func(cc *udpclient.Conn) {
			mu.Lock()
			inactiveCalls++
			mu.Unlock()
			_ = cc.Close()
		}
		var srv *dtlsserver.Server
		runner := options.WithPeriodicRunner(periodic.New(stop, 10*time.Millisecond))
		if keepAlive {
			// one unanswered ping allowed; the peer below never answers pings, so the earliest legitimate close is two periods
			// after the connection was created
			srv = dtls.NewServer(options.WithMux(r), onNew, runner, options.WithKeepAlive(1, period, onInactive), options.WithErrors(func(error) {}))
		} else {
			srv = dtls.NewServer(options.WithMux(r), onNew, runner, options.WithInactivityMonitor(period, onInactive), options.WithErrors(func(error) {}))
		}
		served := make(chan error, 1)
		go func() { served <- srv.Serve(l); _ = l.Close() }()
		ra, _ := net.ResolveUDPAddr("udp4", l.Addr().String())
		dc, derr := piondtls.Dial("udp4", ra, mk(slowSide == "peer"))
		if derr == nil {
			hctx, hc := context.WithTimeout(context.Background(), 15*time.Second)
			derr = dc.HandshakeContext(hctx)
			hc()
		}
		if derr != nil {
			rec.Inconclusive("slow handshake: dtls peer: " + derr.Error())
			srv.Stop()
			close(stop)
			continue
		}
		// wait until the server has the connection, then watch it for a third of a period (the peer stays silent)
		deadline := time.Now().Add(5 * time.Second)
		for time.Now().Before(deadline) {
			mu.Lock()
			ok := !created.IsZero()
			mu.Unlock()
			if ok {
				break
			}
			time.Sleep(time.Millisecond)
		}
		time.Sleep(period / 2)
		_, _ = dc.Write(ref.EncodeUDP(ref.Msg{Type: 0, Code: 1, MID: 77, Token: []byte{7}, Opts: []ref.Opt{{ID: 11, Val: []byte("a")}}}))
		answered := false
		buf := make([]byte, 512)
		_ = dc.SetReadDeadline(time.Now().Add(period / 2))
		if n, rerr := dc.Read(buf); rerr == nil {
			if m, perr := ref.ParseUDP(buf[:n]); perr == nil && m.MID == 77 {
				answered = true
			}
		}
		mu.Lock()
		cr, cl, ic := created, closed, inactiveCalls
		mu.Unlock()
		rec.Eval(fmt.Sprintf("slow-handshake|%s|%v", slowSide, keepAlive))
		rec.Count("slow_handshake_cases", 1)
		switch {
		case cr.IsZero():
			rec.Inconclusive("slow handshake: the server never announced the connection")
		case !cl.IsZero() && cl.Sub(cr) < period/3:
			rec.Violation("C18/dtls-server/new-connection-closed-before-a-period-elapsed", fmt.Sprintf("the handshake took longer than the period (%v); the connection the server created afterwards was closed %v after it was created (on-inactive calls: %d) - no period without a message has elapsed on it", period, cl.Sub(cr).Round(time.Millisecond), ic), c)
		case answered:
			rec.Count("slow_handshake_request_after_handshake_answered", 1)
		default:
			rec.Count("slow_handshake_request_unanswered", 1)
		}
		_ = dc.Close()
		srv.Stop()
		close(stop)
		select {
		case <-served:
		case <-time.After(10 * time.Second):
		}
	}
}
