package c18

import (
	"fmt"
	"math/rand"
	"net"
	"sync"
	"time"

	dtlsserver "github.com/plgd-dev/go-coap/v3/dtls/server"
	"github.com/plgd-dev/go-coap/v3/options"
	"github.com/plgd-dev/go-coap/v3/pkg/connections"
	tcpclient "github.com/plgd-dev/go-coap/v3/tcp/client"
	tcpserver "github.com/plgd-dev/go-coap/v3/tcp/server"
	udpclient "github.com/plgd-dev/go-coap/v3/udp/client"
	udpserver "github.com/plgd-dev/go-coap/v3/udp/server"

	"verifharness/vr"
)

// groups: what a server does — ONE keep-alive option applied once to ONE configuration, and every connection created from
// that configuration's monitor factory. Each connection of the group lives through its own event string (concurrently with its
// siblings) and must behave exactly as the single-connection reference model says: a sibling's silence, pings, pongs or
// closing must not change when this connection pings or closes.
func groups(rec *vr.Rec, n int, seed int64) {
	rnd := rand.New(rand.NewSource(seed*6007 + 11))
	periods := []time.Duration{10 * time.Second, time.Minute, 10 * time.Minute}
	for it := 0; it < n; it++ {
		retries := 1 + rnd.Intn(3)
		period := periods[it%len(periods)]
		wiring := []string{"udp-server", "dtls-server", "tcp-server", "udp-client", "tcp-client"}[it%5]
		size := retries + 2 + rnd.Intn(3)
		timeout := period * time.Duration(retries+1)
		layer := "group/" + wiring
		var byConn sync.Map // connection -> *atomic counter owner
		var udpFactory func() udpclient.InactivityMonitor
		var tcpFactory func() tcpclient.InactivityMonitor
		udpInactive := func(cc *udpclient.Conn) {
			if d, ok := byConn.Load(cc); ok {
				d.(*udpDriver).inact.Add(1)
			}
			_ = cc.Close()
		}
		tcpInactive := func(cc *tcpclient.Conn) {
			if d, ok := byConn.Load(cc); ok {
				d.(*tcpDriver).inact.Add(1)
			}
			_ = cc.Close()
		}
		switch wiring {
		case "udp-server":
			cfg := udpserver.DefaultConfig
			options.WithKeepAlive(uint32(retries), timeout, udpInactive).UDPServerApply(&cfg)
			udpFactory = cfg.CreateInactivityMonitor
		case "dtls-server":
			cfg := dtlsserver.DefaultConfig
			options.WithKeepAlive(uint32(retries), timeout, udpInactive).DTLSServerApply(&cfg)
			udpFactory = cfg.CreateInactivityMonitor
		case "udp-client":
			cfg := udpclient.DefaultConfig
			options.WithKeepAlive(uint32(retries), timeout, udpInactive).UDPClientApply(&cfg)
			udpFactory = cfg.CreateInactivityMonitor
		case "tcp-server":
			cfg := tcpserver.DefaultConfig
			options.WithKeepAlive(uint32(retries), timeout, tcpInactive).TCPServerApply(&cfg)
			tcpFactory = cfg.CreateInactivityMonitor
		case "tcp-client":
			cfg := tcpclient.DefaultConfig
			options.WithKeepAlive(uint32(retries), timeout, tcpInactive).TCPClientApply(&cfg)
			tcpFactory = cfg.CreateInactivityMonitor
		}
		type member struct {
			d      connDriver
			lo, hi time.Time
			events []sym
		}
		var members []member
		for i := 0; i < size; i++ {
			var ev []sym
			switch {
			case i == 0: // the silent one: nothing but ticks
				for k := 0; k < retries+4; k++ {
					ev = append(ev, sTickP)
				}
			case i == 1: // idle but alive: every ping answered
				for k := 0; k < 2*(retries+3); k++ {
					ev = append(ev, []sym{sTickP, sPongC}[k%2])
				}
			default:
				ev = make([]sym, 12+rnd.Intn(30))
				for k := range ev {
					ev[k] = []sym{sRecv, sPongC, sPongC, sPongS, sTickM, sTickP, sTickP, sTickPP}[rnd.Intn(8)]
				}
			}
			if udpFactory != nil {
				lo := time.Now()
				mon := udpFactory()
				hi := time.Now()
				d := mkUDPDriver(mon)
				byConn.Store(d.cc, d)
				members = append(members, member{d, lo, hi, ev})
			} else {
				d, lo, hi, err := mkTCPDriver(func(*tcpclient.Config) func() tcpclient.InactivityMonitor { return tcpFactory })
				if err != nil {
					rec.Violation("C18/harness/tcp-client", err.Error(), nil)
					return
				}
				byConn.Store(d.cc, d)
				members = append(members, member{d, lo, hi, ev})
			}
		}
		var wg sync.WaitGroup
		for _, m := range members {
			wg.Add(1)
			go func(m member) {
				defer wg.Done()
				runConn(rec, layer, m.d, m.lo, m.hi, true, retries, period, m.events)
			}(m)
		}
		wg.Wait()
		rec.Eval(fmt.Sprintf("%s|%d|%d|%d", layer, retries, size, it))
		rec.Count("group_runs_"+wiring, 1)
		rec.Count("group_connections", int64(size))
	}
}

var _ = vr.Seed

// registry: the tick of a stream / dtls server reaches its peers through pkg/connections. One tick after a full silent
// period must reach EVERY registered live connection - also when some other connection in the registry is already
// finished but not yet removed (its on-close callbacks are still running). Inactivity: every live one is closed by that
// tick; keep-alive: every live one has sent its first ping.
func registry(rec *vr.Rec, reps int) {
	for rep := 0; rep < reps; rep++ {
		keepAlive := rep%2 == 1
		nLive := 4 + rep%5
		nDone := 1 + rep%2
		period := []time.Duration{10 * time.Second, time.Minute}[rep%2]
		layer := "registry/inactivity"
		if keepAlive {
			layer = "registry/keepalive"
		}
		c := kcase{layer, 1, period.String(), fmt.Sprintf("%d silent live connections and %d finished ones in one registry, one tick after the period", nLive, nDone)}
		reg := connections.New()
		var byConn sync.Map
		onInactive := func(cc *udpclient.Conn) {
			if d, ok := byConn.Load(cc); ok {
				d.(*udpDriver).inact.Add(1)
			}
			_ = cc.Close()
		}
		cfg := udpclient.DefaultConfig
		if keepAlive {
			options.WithKeepAlive(1, period*2, onInactive).UDPClientApply(&cfg)
		} else {
			options.WithInactivityMonitor(period, onInactive).UDPClientApply(&cfg)
		}
		var drivers []*udpDriver
		var hi time.Time
		for k := 0; k < nLive+nDone; k++ {
			mon := cfg.CreateInactivityMonitor()
			d := mkUDPDriver(mon)
			d.s.Remote = &net.UDPAddr{IP: net.IPv4(10, 0, byte(rep), byte(k+1)), Port: 5683}
			byConn.Store(d.cc, d)
			drivers = append(drivers, d)
			hi = time.Now()
		}
		// the finished ones: closed, still registered (spread over the key space)
		done := map[int]bool{}
		for k := 0; k < nDone; k++ {
			idx := (k*3 + rep) % len(drivers)
			done[idx] = true
			_ = drivers[idx].cc.Close()
		}
		for _, d := range drivers {
			reg.Store(d.cc)
		}
		reg.CheckExpirations(hi.Add(period + period/10))
		missed := 0
		for i, d := range drivers {
			if done[i] {
				continue
			}
			if keepAlive {
				if d.pings() != 1 {
					missed++
				}
			} else if !d.closed() || d.onInactiveCalls() != 1 {
				missed++
			}
		}
		rec.Eval(fmt.Sprintf("registry|%v|%d|%d|%d", keepAlive, nLive, nDone, rep))
		rec.Count("registry_ticks", 1)
		rec.Count("registry_connections", int64(len(drivers)))
		if missed > 0 {
			rec.Violation("C18/"+layer+"/tick-did-not-reach-every-connection", fmt.Sprintf("one housekeeping tick a full period after the last activity: %d of %d live connections were not reached (not closed / no ping sent)", missed, nLive), c)
		}
		for _, d := range drivers {
			d.close()
		}
	}
}
