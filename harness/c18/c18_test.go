// C18 — inactivity and keep-alive monitors close exactly the dead connections.
//
// Monitor: a reference model over event strings {recv, pong-current, pong-stale, tick-,
// tick+, tick++} with virtual time (ticks are passed as now = bracketed wall stamp of the
// last receive + k*period +/- eps). Layers: the Monitor and KeepAlive objects driven
// directly, and real udp / tcp connections configured through options.WithKeepAlive /
// options.WithInactivityMonitor with pings and pongs as real messages.
package c18

import (
	"bytes"
	"fmt"
	"math/rand"
	"sync"
	"sync/atomic"
	"testing"
	"time"

	"github.com/plgd-dev/go-coap/v3/message"
	"github.com/plgd-dev/go-coap/v3/message/codes"
	"github.com/plgd-dev/go-coap/v3/message/pool"
	"github.com/plgd-dev/go-coap/v3/net/monitor/inactivity"
	"github.com/plgd-dev/go-coap/v3/net/responsewriter"
	"github.com/plgd-dev/go-coap/v3/options"
	"github.com/plgd-dev/go-coap/v3/options/config"
	tcpclient "github.com/plgd-dev/go-coap/v3/tcp/client"
	udpclient "github.com/plgd-dev/go-coap/v3/udp/client"

	"context"

	"verifharness/ref"
	"verifharness/sim"
	"verifharness/vr"
)

type sym byte

const (
	sRecv sym = iota
	sPongC
	sPongS
	sTickM   // now = last receive + period - eps  (alive)
	sTickP   // now = last receive + period + eps  (first tick after a full period)
	sTickPP  // now = last receive + 3*period
	sTickPF  // like tick+, but the ping cannot be sent (the write fails); KeepAlive object layer only
	sPartial // some more bytes of a frame that never completes arrive (stream connections only): not a message
	sTickJ   // now = last received MESSAGE + period + 10 ms (used after sPartial, which arrives >= 30 ms after that message)
	sRecvL   // a message from the peer >= 30 ms (real time) after the previous one - far less than a period, far more than the margin of tick(-10ms)
	sTickN   // now = last received MESSAGE + period - 10 ms: the peer was heard less than a period ago
	sSend    // the application sends a message of its own (non-confirmable / one-way) >= 30 ms after the last received message: not a message FROM the peer
	nSyms
)

var symNames = [...]string{"recv", "pong-current", "pong-stale", "tick-", "tick+", "tick++", "tick+(ping-unsendable)", "bytes-of-an-incomplete-frame", "tick(+10ms)", "recv(30ms-later)", "tick(-10ms)", "application-sends"}

func str(s []sym) string {
	var b bytes.Buffer
	for i, x := range s {
		if i > 0 {
			b.WriteByte(' ')
		}
		b.WriteString(symNames[x])
	}
	return b.String()
}

type kcase struct {
	Layer   string `json:"layer"`
	Retries int    `json:"retries"`
	Period  string `json:"period"`
	Events  string `json:"events"`
}

type fakeConn struct{ closed atomic.Int32 }

func (f *fakeConn) Context() context.Context { return context.Background() }
func (f *fakeConn) Close() error             { f.closed.Add(1); return nil }

// ---------------------------------------------------------------- layer 1a: plain Monitor

func plainMonitor(rec *vr.Rec, events []sym, period time.Duration) {
	eps := period / 10
	c := kcase{"Monitor", -1, period.String(), str(events)}
	inactive := 0
	lo := time.Now()
	m := inactivity.New(period, func(cc *fakeConn) { inactive++ })
	hi := time.Now()
	fc := &fakeConn{}
	for i, e := range events {
		before := inactive
		switch e {
		case sRecv:
			lo = time.Now()
			m.Notify()
			hi = time.Now()
			continue
		case sTickM:
			m.CheckInactivity(lo.Add(period-eps), fc)
			if inactive != before {
				rec.Violation("C18/Monitor/inactive-before-period", fmt.Sprintf("event %d: reported inactive at last+period-eps", i), c)
				return
			}
		case sTickP, sTickPP:
			now := hi.Add(period + eps)
			if e == sTickPP {
				now = hi.Add(3 * period)
			}
			m.CheckInactivity(now, fc)
			if inactive != before+1 {
				rec.Violation("C18/Monitor/not-inactive-after-period", fmt.Sprintf("event %d: not reported inactive at the first tick after a full period", i), c)
				return
			}
		}
	}
}

// ---------------------------------------------------------------- layer 1b: KeepAlive object

type fakePing struct {
	cb        func()
	cancelled bool
}

func keepAliveObject(rec *vr.Rec, events []sym, retries int) {
	c := kcase{"KeepAlive", retries, "-", str(events)}
	var pings []*fakePing
	closed := 0
	failSend := false
	attempts := 0
	ka := inactivity.NewKeepAlive(uint32(retries), func(cc *fakeConn) { closed++ }, func(cc *fakeConn, receivePong func()) (func(), error) {
		attempts++
		if failSend {
			return nil, fmt.Errorf("injected: ping cannot be written")
		}
		p := &fakePing{cb: receivePong}
		pings = append(pings, p)
		return func() { p.cancelled = true }, nil
	})
	fc := &fakeConn{}
	u := 0           // consecutive unanswered pings since the last reset
	curSent := false // the newest ping attempt reached the wire
	for i, e := range events {
		switch e {
		case sPongC:
			if len(pings) > 0 {
				pings[len(pings)-1].cb()
				if curSent {
					u = 0
				} // else: the newest ping attempt was never sent; this answers an older ping and is not credited
			}
		case sPongS:
			if len(pings) > 1 {
				pings[len(pings)-2].cb() // late answer to a superseded ping: not credited
			}
		case sTickPF:
			curSent = false
			// a round in which the ping could not even be sent: nothing was answered either, so it is one more consecutive
			// failing round (a peer that is silent stays "dead" whether or not our pings can be written)
			na, nc := attempts, closed
			failSend = true
			ka.OnInactive(fc)
			failSend = false
			failing := u + 1
			switch {
			case failing <= retries:
				if closed != nc {
					rec.Violation("C18/KeepAlive/closed-too-early", fmt.Sprintf("event %d: closed at failing tick %d with %d retries", i, failing, retries), c)
					return
				}
				if attempts != na+1 {
					rec.Violation("C18/KeepAlive/no-ping-attempted", fmt.Sprintf("event %d", i), c)
					return
				}
				u = failing
			case failing == retries+1:
				if closed == nc+1 {
					return
				}
				u = failing
			default:
				if closed != nc+1 {
					rec.Violation("C18/KeepAlive/not-closed", fmt.Sprintf("event %d: failing tick %d (some of them with an unsendable ping) with %d retries and still open", i, failing, retries), c)
				}
				return
			}
		case sTickP, sTickPP:
			np, nc := len(pings), closed
			ka.OnInactive(fc)
			curSent = len(pings) == np+1
			failing := u + 1
			switch {
			case failing <= retries:
				if closed != nc {
					rec.Violation("C18/KeepAlive/closed-too-early", fmt.Sprintf("event %d: closed at failing tick %d with %d retries", i, failing, retries), c)
					return
				}
				if len(pings) != np+1 {
					rec.Violation("C18/KeepAlive/no-ping-sent", fmt.Sprintf("event %d: failing tick %d <= retries %d but no ping was sent", i, failing, retries), c)
					return
				}
				u = failing
			case failing == retries+1:
				// tolerant reading of "more than the configured number": close now or ping once more
				if closed == nc && len(pings) == np+1 {
					u = failing
				} else if closed == nc+1 {
					return
				} else {
					rec.Violation("C18/KeepAlive/neither-ping-nor-close", fmt.Sprintf("event %d", i), c)
					return
				}
			default:
				if closed != nc+1 {
					rec.Violation("C18/KeepAlive/not-closed", fmt.Sprintf("event %d: failing tick %d with %d retries and still open", i, failing, retries), c)
				}
				return
			}
			// the superseded ping must have been cancelled when a new one is sent
			if len(pings) == np+1 && np > 0 && !pings[np-1].cancelled {
				rec.Violation("C18/KeepAlive/superseded-ping-not-cancelled", fmt.Sprintf("event %d", i), c)
				return
			}
		}
	}
}

// ---------------------------------------------------------------- layer 2: real connections

type connDriver interface {
	recv(kind int) (lo, hi time.Time) // inject an ordinary message; returns the bracket of the receive stamp
	pings() int                       // number of pings seen on the wire
	pong(idx int) (lo, hi time.Time)  // answer ping #idx
	tick(now time.Time)
	closed() bool
	onInactiveCalls() int
	close()
}

// ---- udp

type udpDriver struct {
	notFinished atomic.Int32
	s           *sim.MemSession
	cc          *udpclient.Conn
	inact       atomic.Int32
	handled     atomic.Int32
	finished    atomic.Int32 // messages taken from the receive queue and processed to the end (handler AND what follows it)
	pingMIDs    []uint16
	seen        int
	mid         uint16
}

// mkUDPDriver builds a connection guarded by mon. Completion of queued messages is observed through the connection's own
// ProcessReceivedMessage configuration entry - never guessed from elapsed time: the receive path stamps activity a second
// time AFTER a queued message was handled, and a verdict taken before that is a verdict about the scheduler.
func mkUDPDriver(mon udpclient.InactivityMonitor) *udpDriver {
	d := &udpDriver{s: sim.NewMemSession(), mid: 1000}
	d.cc = sim.NewUDPConn(d.s, sim.UDPOpts{
		Handler:     func(w *responsewriter.ResponseWriter[*udpclient.Conn], r *pool.Message) { d.handled.Add(1) },
		ConnOptions: []udpclient.Option{udpclient.WithInactivityMonitor(mon)},
		Mutate: func(c *udpclient.Config) {
			c.GetMID = func() int32 { return 40000 + 0xffff/2 }
			inner := c.ProcessReceivedMessage
			if inner == nil {
				inner = func(req *pool.Message, cc *udpclient.Conn, h config.HandlerFunc[*udpclient.Conn]) {
					cc.ProcessReceivedMessageWithHandler(req, h)
				}
			}
			c.ProcessReceivedMessage = func(req *pool.Message, cc *udpclient.Conn, h config.HandlerFunc[*udpclient.Conn]) {
				inner(req, cc, h)
				d.finished.Add(1)
			}
		},
	})
	return d
}

// queued injects a datagram that goes through the receive queue and waits until it was processed to the end.
func (d *udpDriver) queued(data []byte) {
	n := d.finished.Load()
	_ = d.cc.Process(nil, data)
	if !sim.WaitFor(5*time.Second, func() bool { return d.finished.Load() > n || d.closed() }) {
		d.notFinished.Add(1)
	}
}

func newUDPDriver(keepAlive bool, retries int, period time.Duration) (*udpDriver, time.Time, time.Time) {
	var d *udpDriver
	cfg := udpclient.DefaultConfig
	onInactive := func(cc *udpclient.Conn) { d.inact.Add(1); _ = cc.Close() }
	if keepAlive {
		options.WithKeepAlive(uint32(retries), period*time.Duration(retries+1), onInactive).UDPClientApply(&cfg)
	} else {
		options.WithInactivityMonitor(period, onInactive).UDPClientApply(&cfg)
	}
	lo := time.Now()
	mon := cfg.CreateInactivityMonitor()
	hi := time.Now()
	d = mkUDPDriver(mon)
	return d, lo, hi
}

func (d *udpDriver) scan() {
	for _, dg := range d.s.Log()[d.seen:] {
		d.seen++
		m, err := ref.ParseUDP(dg.Data)
		if err == nil && m.Type == 0 && m.Code == 0 && len(m.Token) == 0 {
			d.pingMIDs = append(d.pingMIDs, m.MID)
		}
	}
}

func (d *udpDriver) recv(kind int) (time.Time, time.Time) {
	d.mid++
	lo := time.Now()
	if kind%2 == 0 {
		// unsolicited empty ACK: a message from the peer that nobody waits for
		_ = d.cc.Process(nil, ref.EncodeUDP(ref.Msg{Type: 2, Code: 0, MID: d.mid}))
	} else {
		// non-confirmable request handled by a handler that does not answer
		d.queued(ref.EncodeUDP(ref.Msg{Type: 1, Code: 1, MID: d.mid, Token: []byte{byte(d.mid), 7}, Opts: []ref.Opt{{ID: 11, Val: []byte("x")}}}))
	}
	return lo, time.Now()
}

// send: the application pushes a non-confirmable message to the peer (what a server does with notifications for a
// subscriber that may be long gone). In real time well after the last received message, for the same reason as partial().
func (d *udpDriver) send() {
	time.Sleep(30 * time.Millisecond)
	ctx, cancel := context.WithTimeout(context.Background(), 5*time.Second)
	defer cancel()
	req := d.cc.AcquireMessage(ctx)
	defer d.cc.ReleaseMessage(req)
	tok, _ := message.GetToken()
	_ = req.SetupPost("/push", tok, message.TextPlain, bytes.NewReader([]byte("n")))
	req.SetType(message.NonConfirmable)
	_ = d.cc.WriteMessage(req)
}

func (d *udpDriver) pings() int { d.scan(); return len(d.pingMIDs) }
func (d *udpDriver) pong(idx int) (time.Time, time.Time) {
	d.scan()
	lo := time.Now()
	// a reset goes through the receive queue whether or not it matches a pending ping
	d.queued(ref.EncodeUDP(ref.Msg{Type: 3, Code: 0, MID: d.pingMIDs[idx]}))
	return lo, time.Now()
}
func (d *udpDriver) tick(now time.Time)   { d.cc.CheckExpirations(now) }
func (d *udpDriver) closed() bool         { return d.cc.Context().Err() != nil }
func (d *udpDriver) onInactiveCalls() int { return int(d.inact.Load()) }
func (d *udpDriver) close()               { _ = d.cc.Close() }

// ---- tcp

type tcpDriver struct {
	sc          *sim.ScriptConn
	cc          *tcpclient.Conn
	inact       atomic.Int32
	handled     atomic.Int32
	pongs       atomic.Int32 // pong signals processed to the end by the connection (its signal-received callback)
	notFinished atomic.Int32
	pingToks    [][]byte
	tok         uint16

	partialStarted bool
}

func newTCPDriver(keepAlive bool, retries int, period time.Duration) (*tcpDriver, time.Time, time.Time, error) {
	var d *tcpDriver
	onInactive := func(cc *tcpclient.Conn) { d.inact.Add(1); _ = cc.Close() }
	d, lo, hi, err := mkTCPDriver(func(cfg *tcpclient.Config) func() tcpclient.InactivityMonitor {
		if keepAlive {
			options.WithKeepAlive(uint32(retries), period*time.Duration(retries+1), onInactive).TCPClientApply(cfg)
		} else {
			options.WithInactivityMonitor(period, onInactive).TCPClientApply(cfg)
		}
		return cfg.CreateInactivityMonitor
	})
	return d, lo, hi, err
}

// mkTCPDriver builds a stream connection whose monitor comes from the factory that configure returns. A pong is a signal:
// the connection handles it on its reading goroutine and then reports it through its signal-received callback, which is
// what pong() waits for (not an amount of time).
func mkTCPDriver(configure func(cfg *tcpclient.Config) func() tcpclient.InactivityMonitor) (*tcpDriver, time.Time, time.Time, error) {
	d := &tcpDriver{sc: sim.NewScriptConn()}
	var lo, hi time.Time
	cc, err := sim.NewTCPConn(d.sc, sim.TCPOpts{
		Handler: func(w *responsewriter.ResponseWriter[*tcpclient.Conn], r *pool.Message) { d.handled.Add(1) },
		Mutate: func(cfg *tcpclient.Config) {
			inner := configure(cfg)
			cfg.CreateInactivityMonitor = func() tcpclient.InactivityMonitor {
				lo = time.Now()
				m := inner()
				hi = time.Now()
				return m
			}
		},
	})
	d.cc = cc
	if err == nil {
		cc.SetTCPSignalReceivedHandler(func(code codes.Code) {
			if code == codes.Pong {
				d.pongs.Add(1)
			}
		})
	}
	return d, lo, hi, err
}

func (d *tcpDriver) scan() {
	ms, _ := ref.ParseTCPStream(d.sc.Written())
	d.pingToks = d.pingToks[:0]
	for _, m := range ms {
		if m.Code == 7<<5|2 {
			d.pingToks = append(d.pingToks, m.Token)
		}
	}
}

func (d *tcpDriver) recv(kind int) (time.Time, time.Time) {
	d.tok++
	n := d.handled.Load()
	lo := time.Now()
	// an unsolicited response (nobody waits for its token) reaches the default handler
	d.sc.Feed(ref.EncodeTCP(ref.Msg{Code: 2<<5 | 5, Token: []byte{0xee, byte(d.tok >> 8), byte(d.tok)}, Payload: []byte("x")}))
	sim.WaitFor(10*time.Second, func() bool { return d.handled.Load() > n })
	return lo, time.Now()
}

// partial feeds the next bytes of a frame that is never completed: first the header of a GET announcing a 250-byte body,
// then one body byte per call. The peer "keeps delivering bytes", but no message arrives.
func (d *tcpDriver) partial() {
	// in real time well after the last whole message, so that a tick can be placed between "last message + period" and
	// "these bytes + period"
	time.Sleep(30 * time.Millisecond)
	if !d.partialStarted {
		d.partialStarted = true
		d.sc.Feed([]byte{0xd1, 250 - 13, 0x01, 0x77}) // Len=13+ext, TKL=1, code GET, token
	} else {
		d.sc.Feed([]byte{0x41})
	}
	d.sc.WaitConsumed(10 * time.Second)
	time.Sleep(200 * time.Microsecond)
}

func (d *tcpDriver) send() {
	time.Sleep(30 * time.Millisecond)
	ctx, cancel := context.WithTimeout(context.Background(), 5*time.Second)
	defer cancel()
	req := d.cc.AcquireMessage(ctx)
	defer d.cc.ReleaseMessage(req)
	tok, _ := message.GetToken()
	_ = req.SetupPost("/push", tok, message.TextPlain, bytes.NewReader([]byte("n")))
	_ = d.cc.WriteMessage(req)
}

func (d *tcpDriver) pings() int { d.scan(); return len(d.pingToks) }
func (d *tcpDriver) pong(idx int) (time.Time, time.Time) {
	d.scan()
	lo := time.Now()
	n := d.pongs.Load()
	d.sc.Feed(ref.EncodeTCP(ref.Msg{Code: 7<<5 | 3, Token: d.pingToks[idx]}))
	if !sim.WaitFor(5*time.Second, func() bool { return d.pongs.Load() > n || d.closed() }) {
		d.notFinished.Add(1)
	}
	return lo, time.Now()
}
func (d *tcpDriver) tick(now time.Time)   { d.cc.CheckExpirations(now) }
func (d *tcpDriver) closed() bool         { return d.cc.Context().Err() != nil }
func (d *tcpDriver) onInactiveCalls() int { return int(d.inact.Load()) }
func (d *tcpDriver) close()               { _ = d.cc.Close() }

// runConn replays one event string on a real connection against the reference model.
func runConn(rec *vr.Rec, layer string, d connDriver, lo, hi time.Time, keepAlive bool, retries int, period time.Duration, events []sym) {
	defer d.close()
	eps := period / 10
	c := kcase{layer, retries, period.String(), str(events)}
	u := 0
	for i, e := range events {
		switch e {
		case sRecv:
			lo, hi = d.recv(i)
			u = 0
			rec.Count("conn_receive_events", 1)
		case sPongC:
			if !keepAlive || d.pings() == 0 {
				continue
			}
			lo, hi = d.pong(d.pings() - 1)
			u = 0
			rec.Count("conn_pong_events", 1)
		case sPartial:
			// bytes, not a message: the period keeps running from the last received MESSAGE (lo/hi unchanged)
			if pd, ok := d.(interface{ partial() }); ok {
				pd.partial()
				rec.Count("conn_partial_frame_events", 1)
			}
		case sRecvL:
			time.Sleep(30 * time.Millisecond)
			lo, hi = d.recv(i)
			u = 0
			rec.Count("conn_receive_events", 1)
		case sTickN:
			// every received message counts: the period runs from the LAST one, however shortly it followed its predecessor
			np := d.pings()
			d.tick(lo.Add(period - 10*time.Millisecond))
			rec.Count("conn_ticks", 1)
			if d.closed() || d.onInactiveCalls() > 0 {
				rec.Violation("C18/"+layer+"/closed-although-alive", fmt.Sprintf("event %d: tick 10 ms before a full period since the last received message closed the connection (that message followed its predecessor by 30 ms)", i), c)
				return
			}
			if d.pings() != np {
				rec.Violation("C18/"+layer+"/ping-before-period", fmt.Sprintf("event %d: a message was received less than a period ago", i), c)
				return
			}
		case sSend:
			// what this endpoint sends says nothing about the peer: the period keeps running (lo/hi, u unchanged)
			if sd, ok := d.(interface{ send() }); ok {
				sd.send()
				rec.Count("conn_application_send_events", 1)
			}
		case sPongS:
			if !keepAlive || d.pings() < 2 {
				continue
			}
			// a late answer to a superseded ping is still a message from the peer
			lo, hi = d.pong(d.pings() - 2)
			u = 0
			rec.Count("conn_stale_pong_events", 1)
		case sTickM:
			np := d.pings()
			d.tick(lo.Add(period - eps))
			rec.Count("conn_ticks", 1)
			if d.closed() || d.onInactiveCalls() > 0 {
				rec.Violation("C18/"+layer+"/closed-although-alive", fmt.Sprintf("event %d: tick at last receive + period - eps closed the connection", i), c)
				return
			}
			if d.pings() != np {
				rec.Violation("C18/"+layer+"/ping-before-period", fmt.Sprintf("event %d", i), c)
				return
			}
		case sTickP, sTickPP, sTickJ:
			now := hi.Add(period + eps)
			if e == sTickPP {
				now = hi.Add(3 * period)
			}
			if e == sTickJ {
				now = hi.Add(period + 10*time.Millisecond)
			}
			np := d.pings()
			d.tick(now)
			rec.Count("conn_ticks", 1)
			if !keepAlive {
				if !d.closed() || d.onInactiveCalls() != 1 {
					rec.Violation("C18/"+layer+"/not-closed-after-period", fmt.Sprintf("event %d: first tick after a full period without traffic did not close (onInactive calls %d)", i, d.onInactiveCalls()), c)
				}
				return
			}
			failing := u + 1
			pinged := d.pings() == np+1
			switch {
			case failing <= retries:
				if d.closed() {
					rec.Violation("C18/"+layer+"/closed-before-retries-exhausted", fmt.Sprintf("event %d: closed at consecutive failing tick %d since the last received message, retries %d (on-inactive calls %d, pings on the wire %d->%d)", i, failing, retries, d.onInactiveCalls(), np, d.pings()), c)
					return
				}
				if !pinged {
					rec.Violation("C18/"+layer+"/no-ping-sent", fmt.Sprintf("event %d: failing tick %d, retries %d, pings on the wire %d->%d", i, failing, retries, np, d.pings()), c)
					return
				}
				u = failing
			case failing == retries+1:
				if d.closed() {
					return
				}
				if !pinged {
					rec.Violation("C18/"+layer+"/neither-ping-nor-close", fmt.Sprintf("event %d", i), c)
					return
				}
				u = failing
			default:
				if !d.closed() {
					rec.Violation("C18/"+layer+"/not-closed", fmt.Sprintf("event %d: failing tick %d with %d retries and still open", i, failing, retries), c)
				}
				return
			}
		}
	}
	if d.onInactiveCalls() > 1 {
		rec.Violation("C18/"+layer+"/onInactive-called-repeatedly", fmt.Sprint(d.onInactiveCalls()), c)
	}
}

func enumerate(alpha []sym, maxLen int, visit func([]sym)) {
	idx := make([]int, maxLen)
	for L := 1; L <= maxLen; L++ {
		for i := range idx {
			idx[i] = 0
		}
		for {
			s := make([]sym, L)
			for i := 0; i < L; i++ {
				s[i] = alpha[idx[i]]
			}
			visit(s)
			k := L - 1
			for k >= 0 {
				idx[k]++
				if idx[k] < len(alpha) {
					break
				}
				idx[k] = 0
				k--
			}
			if k < 0 {
				break
			}
		}
	}
}

func TestRun(t *testing.T) {
	rec := vr.New("C18", "event strings over {recv, pong-current, pong-stale, tick- (now = last receive + period - eps), tick+ (+ period + eps), tick++ (+ 3 periods)}: all strings up to a bound (Monitor object: <=7/9; KeepAlive object: <=7/9 x retries 0..3; real udp connection: <=5/6 x retries 0..2 and plain inactivity; real tcp connection: <=4/5, plus strings with bytes of a never-completed frame arriving between ticks) plus PRNG strings of 30..100 events; groups of R+2..R+6 connections created from ONE server/client configuration (one silent, one idle-but-answering, the rest PRNG strings) running concurrently; periods 10 s .. 10 min, eps = period/10 (>= 1 s, the wall-clock bracket of a receive stamp is microseconds wide). Distinct = distinct (layer, retries, event string).")
	defer rec.Flush(true)
	seed := vr.Seed()
	periods := []time.Duration{10 * time.Second, time.Minute, 10 * time.Minute}

	// ---- layer 1a
	n1 := 0
	enumerate([]sym{sRecv, sTickM, sTickP, sTickPP}, vr.Scale(7, 9), func(s []sym) {
		plainMonitor(rec, s, periods[n1%len(periods)])
		n1++
	})
	rec.EvalN(int64(n1), "")
	rec.DistinctAdd(int64(n1))
	rec.Count("monitor_object_strings", int64(n1))
	// ---- layer 1b
	n2 := 0
	for retries := 0; retries <= 3; retries++ {
		enumerate([]sym{sPongC, sPongS, sTickP, sTickPF}, vr.Scale(7, 8), func(s []sym) {
			keepAliveObject(rec, s, retries)
			n2++
		})
	}
	rec.EvalN(int64(n2), "")
	rec.DistinctAdd(int64(n2))
	rec.Count("keepalive_object_strings", int64(n2))

	// ---- layer 2
	type job struct {
		tr        string
		keepAlive bool
		retries   int
		events    []sym
	}
	var jobs []job
	all := []sym{sRecv, sPongC, sPongS, sTickM, sTickP, sTickPP}
	for retries := 0; retries <= 2; retries++ {
		retries := retries
		enumerate(all, vr.Scale(5, 6), func(s []sym) { jobs = append(jobs, job{"udp", true, retries, s}) })
	}
	enumerate([]sym{sRecv, sTickM, sTickP, sTickPP}, vr.Scale(5, 7), func(s []sym) { jobs = append(jobs, job{"udp", false, 0, s}) })
	for retries := 0; retries <= 2; retries++ {
		retries := retries
		enumerate(all, vr.Scale(4, 5), func(s []sym) { jobs = append(jobs, job{"tcp", true, retries, s}) })
	}
	enumerate([]sym{sRecv, sTickM, sTickP}, vr.Scale(4, 6), func(s []sym) { jobs = append(jobs, job{"tcp", false, 0, s}) })
	// a stream peer that trickles an endless frame: bytes keep arriving, messages do not
	enumerate([]sym{sPartial, sTickM, sTickJ}, vr.Scale(3, 5), func(s []sym) {
		jobs = append(jobs, job{"tcp", false, 0, append([]sym{sRecv}, s...)})
		jobs = append(jobs, job{"tcp", true, 1 + len(s)%2, append([]sym{sRecv}, s...)})
	})
	// two messages in quick succession, then silence for almost a period counted from the second
	enumerate([]sym{sRecvL, sTickN, sTickJ}, vr.Scale(3, 4), func(s []sym) {
		jobs = append(jobs, job{"udp", false, 0, append([]sym{sRecv}, s...)})
		jobs = append(jobs, job{"udp", true, 1 + len(s)%2, append([]sym{sRecv}, s...)})
		jobs = append(jobs, job{"tcp", len(s)%2 == 1, 1, append([]sym{sRecv}, s...)})
	})
	// an application that keeps sending to a peer that has gone silent
	enumerate([]sym{sSend, sTickM, sTickJ}, vr.Scale(3, 4), func(s []sym) {
		jobs = append(jobs, job{"udp", false, 0, append([]sym{sRecv}, s...)})
		jobs = append(jobs, job{"udp", true, 1 + len(s)%2, append([]sym{sRecv}, s...)})
		jobs = append(jobs, job{"tcp", len(s)%2 == 0, 1, append([]sym{sRecv}, s...)})
	})
	rnd := rand.New(rand.NewSource(seed))
	for i := 0; i < vr.Scale(60, 3000); i++ {
		s := make([]sym, 30+rnd.Intn(71))
		for k := range s {
			// bias towards strings that survive long: mostly traffic and early ticks
			switch rnd.Intn(10) {
			case 0, 1, 2:
				s[k] = sRecv
			case 3, 4:
				s[k] = sPongC
			case 5:
				s[k] = sPongS
			case 6, 7:
				s[k] = sTickM
			case 8:
				s[k] = sTickP
			default:
				s[k] = sTickPP
			}
		}
		tr := "udp"
		if i%3 == 0 {
			tr = "tcp"
		}
		jobs = append(jobs, job{tr, true, 1 + rnd.Intn(3), s})
	}
	var wg sync.WaitGroup
	var next atomic.Int64
	for w := 0; w < 12; w++ {
		wg.Add(1)
		go func() {
			defer wg.Done()
			for {
				i := int(next.Add(1)) - 1
				if i >= len(jobs) {
					return
				}
				if rec.NViolations() > 12 {
					rec.Count("cases_skipped_after_violations", 1)
					continue
				}
				j := jobs[i]
				period := periods[i%len(periods)]
				layer := j.tr + "-keepalive"
				if !j.keepAlive {
					layer = j.tr + "-inactivity"
				}
				if j.tr == "udp" {
					d, lo, hi := newUDPDriver(j.keepAlive, j.retries, period)
					runConn(rec, layer, d, lo, hi, j.keepAlive, j.retries, period, j.events)
				} else {
					d, lo, hi, err := newTCPDriver(j.keepAlive, j.retries, period)
					if err != nil {
						rec.Violation("C18/harness/tcp-client", err.Error(), nil)
						continue
					}
					runConn(rec, layer, d, lo, hi, j.keepAlive, j.retries, period, j.events)
				}
				rec.Eval(fmt.Sprintf("%s|%d|%s", layer, j.retries, str(j.events)))
				rec.Count("conn_strings_"+layer, 1)
				if i < 2 || i == len(jobs)-1 {
					rec.Sample(kcase{layer, j.retries, period.String(), str(j.events)})
				}
			}
		}()
	}
	wg.Wait()
	groups(rec, vr.Scale(40, 1500), seed)
	slowHandshake(rec, vr.Scale(4, 24))
	registry(rec, vr.Scale(40, 600))
	rec.Assume("'closed only after more than the configured number of consecutive pings went unanswered' is read tolerantly: with R retries, closing at the (R+1)-th or the (R+2)-th consecutive failing tick is accepted, earlier is a violation, later is a violation")
	rec.Assume("on a real connection a late pong for a superseded ping is itself a received message and therefore resets the count; the not-credited rule is checked on the KeepAlive object")
	rec.Assume("server-side wiring is covered by the group runs: one option applied once to a udp/dtls/tcp server configuration (and to client configurations), R+2..R+6 connections created from that configuration's monitor factory, each judged by the single-connection model while its siblings run concurrently")
}
