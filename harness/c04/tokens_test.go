package c04

import (
	"bytes"
	"context"
	"fmt"
	"math/rand"
	"sync"
	"time"

	"github.com/plgd-dev/go-coap/v3/message"
	"github.com/plgd-dev/go-coap/v3/message/codes"
	"github.com/plgd-dev/go-coap/v3/message/pool"
	"github.com/plgd-dev/go-coap/v3/net/blockwise"
	"github.com/plgd-dev/go-coap/v3/net/responsewriter"
	udpclient "github.com/plgd-dev/go-coap/v3/udp/client"

	"verifharness/ref"
	"verifharness/sim"
	"verifharness/vr"
)

// tokenFamilies: several block-wise transfers are alive on one connection at once, and their tokens are as similar as
// tokens can be - they differ only in length (trailing or leading zero bytes), or only in the last bit. A token is the
// identity of a transfer: every body handed over must be exactly the body sent under THAT token. Uploads (the connection
// reassembles requests of a scripted peer that interleaves the transfers block by block, one of them possibly abandoned
// after its first block) and downloads (the connection's own requests with caller-chosen tokens, answered block by
// block in an interleaved order).
func tokenFamilies(rec *vr.Rec, reps int, seed int64) {
	rnd := rand.New(rand.NewSource(seed ^ 0x70cc))
	families := [][][]byte{
		{{0x01}, {0x01, 0x00}, {0x01, 0x00, 0x00}},
		{{0x00}, {0x00, 0x00}, {0x00, 0x00, 0x00, 0x00}},
		{{0x01}, {0x00, 0x01}, {0x00, 0x00, 0x01}},
		{{0xaa, 0xbb, 0xcc, 0xdd, 0xee, 0xff, 0x11}, {0xaa, 0xbb, 0xcc, 0xdd, 0xee, 0xff, 0x11, 0x00}},
		{{0x10, 0x20, 0x30, 0x40, 0x50, 0x60, 0x70, 0x80}, {0x10, 0x20, 0x30, 0x40, 0x50, 0x60, 0x70, 0x81}},
	}
	for rep := 0; rep < reps; rep++ {
		fam := families[rep%len(families)]
		dir := []string{"upload", "download"}[(rep/len(families))%2]
		abandonFirst := rep%3 == 1
		szx := rnd.Intn(3)
		bs := 16 << uint(szx)
		c := map[string]any{"scenario": "concurrent transfers whose tokens differ in length or in one bit only", "direction": dir, "tokens": fmt.Sprintf("%x", fam), "block_size": bs, "first_transfer_abandoned_after_one_block": abandonFirst && dir == "upload"}
		bodies := make([][]byte, len(fam))
		for i := range fam {
			nb := 2 + rnd.Intn(4)
			bodies[i] = bodyOf(uint32(97000+rep*8+i), (nb-1)*bs+1+rnd.Intn(bs))
		}
		var mu sync.Mutex
		got := map[string][][]byte{}
		s := sim.NewMemSession()
		cc := sim.NewUDPConn(s, sim.UDPOpts{Blockwise: true, SZX: blockwise.SZX(szx), BWTimeout: 3 * time.Second, Pool: pool.New(8, 2048),
			Handler: func(w *responsewriter.ResponseWriter[*udpclient.Conn], r *pool.Message) {
				if r.Code() != codes.POST {
					return
				}
				b, _ := r.ReadBody()
				mu.Lock()
				got[string(r.Token())] = append(got[string(r.Token())], append([]byte(nil), b...))
				mu.Unlock()
				_ = w.SetResponse(codes.Changed, message.TextPlain, bytes.NewReader([]byte("ok")))
			}})
		inject := func(m ref.Msg) { _ = cc.Process(nil, ref.EncodeUDP(m)) }
		sentFrom := 0
		sent := func() []ref.Msg {
			var out []ref.Msg
			for _, d := range s.Log()[sentFrom:] {
				if m, err := ref.ParseUDP(d.Data); err == nil {
					out = append(out, m)
				}
			}
			return out
		}
		mid := uint16(100)
		if dir == "upload" {
			// the peer interleaves the uploads block by block; every block is answered before the next one is sent
			next := make([]int, len(fam))
			live := len(fam)
			for live > 0 {
				for i := range fam {
					if next[i] < 0 {
						continue
					}
					lo := next[i] * bs
					hi := lo + bs
					more := true
					if hi >= len(bodies[i]) {
						hi, more = len(bodies[i]), false
					}
					bv := uint32(next[i]<<4) | uint32(szx)
					if more {
						bv |= 8
					}
					mid++
					before := len(s.Log())
					inject(ref.Msg{Type: 0, Code: 2, MID: mid, Token: fam[i], Opts: []ref.Opt{{ID: 11, Val: []byte("up")}, {ID: 27, Val: ref.Uint(bv)}}, Payload: bodies[i][lo:hi]})
					sim.WaitFor(5*time.Second, func() bool { return len(s.Log()) > before })
					next[i]++
					if !more || (abandonFirst && i == 0) {
						next[i] = -1
						live--
					}
				}
			}
			time.Sleep(300 * time.Microsecond)
			mu.Lock()
			for i, tok := range fam {
				bl := got[string(tok)]
				switch {
				case abandonFirst && i == 0:
					if len(bl) != 0 {
						rec.Violation("C04/udp/token-family/upload/abandoned-transfer-delivered", fmt.Sprintf("token %x sent one block of several and stopped; the handler got %d bodies", tok, len(bl)), c)
					}
				case len(bl) != 1:
					rec.Violation("C04/udp/token-family/upload/delivery-count", fmt.Sprintf("token %x: complete upload delivered %d times", tok, len(bl)), c)
				case !bytes.Equal(bl[0], bodies[i]):
					rec.Violation("C04/udp/token-family/upload/"+classify(bl[0], bodies[i], false), fmt.Sprintf("token %x: handler got %d bytes, the peer sent %d bytes under this token (first difference at %d)", tok, len(bl[0]), len(bodies[i]), firstDiffAt(bl[0], bodies[i])), c)
				default:
					rec.Count("token_family_uploads_exact", 1)
				}
			}
			mu.Unlock()
		} else {
			type res struct {
				b   []byte
				err error
			}
			results := make([]chan res, len(fam))
			ctx, cancel := context.WithTimeout(context.Background(), 10*time.Second)
			for i := range fam {
				results[i] = make(chan res, 1)
				go func(i int) {
					req, err := cc.NewGetRequest(ctx, fmt.Sprintf("/dl/%d", i))
					if err != nil {
						results[i] <- res{nil, err}
						return
					}
					req.SetToken(fam[i])
					resp, err := cc.Do(req)
					cc.ReleaseMessage(req)
					if err != nil {
						results[i] <- res{nil, err}
						return
					}
					b, _ := resp.ReadBody()
					cc.ReleaseMessage(resp)
					results[i] <- res{b, nil}
				}(i)
			}
			// answer every block request; requests are served in a rotating order so that the transfers interleave
			seen := 0
			done := 0
			outs := make([]*res, len(fam))
			deadline := time.Now().Add(10 * time.Second)
			for done < len(fam) && time.Now().Before(deadline) {
				for i := range fam {
					if outs[i] == nil {
						select {
						case r := <-results[i]:
							outs[i] = &r
							done++
						default:
						}
					}
				}
				msgs := sent()
				if seen == len(msgs) {
					time.Sleep(50 * time.Microsecond)
					continue
				}
				batch := msgs[seen:]
				seen = len(msgs)
				if rep%2 == 1 {
					for l, r := 0, len(batch)-1; l < r; l, r = l+1, r-1 {
						batch[l], batch[r] = batch[r], batch[l]
					}
				}
				for _, m := range batch {
					if m.Code != 1 {
						continue
					}
					idx := -1
					for i := range fam {
						if bytes.Equal(m.Token, fam[i]) {
							idx = i
						}
					}
					if idx < 0 {
						continue
					}
					num := 0
					if v, ok := m.GetUint(23); ok {
						num = int(v >> 4)
					}
					lo := num * bs
					if lo > len(bodies[idx]) {
						lo = len(bodies[idx])
					}
					hi := lo + bs
					more := true
					if hi >= len(bodies[idx]) {
						hi, more = len(bodies[idx]), false
					}
					bv := uint32(num<<4) | uint32(szx)
					if more {
						bv |= 8
					}
					inject(ref.Msg{Type: 2, Code: 0x45, MID: m.MID, Token: m.Token, Opts: []ref.Opt{{ID: 4, Val: []byte{byte(idx + 1)}}, {ID: 23, Val: ref.Uint(bv)}}, Payload: bodies[idx][lo:hi]})
				}
			}
			cancel()
			for i, tok := range fam {
				if outs[i] == nil {
					select {
					case r := <-results[i]:
						outs[i] = &r
					case <-time.After(5 * time.Second):
						rec.Violation("C04/udp/token-family/download/does-not-return", fmt.Sprintf("token %x", tok), c)
						continue
					}
				}
				switch {
				case outs[i].err != nil:
					// two equal-looking tokens refused locally is a verdict of C03; here an error is an acceptable end
					rec.Count("token_family_downloads_failed_with_error", 1)
				case !bytes.Equal(outs[i].b, bodies[i]):
					rec.Violation("C04/udp/token-family/download/"+classify(outs[i].b, bodies[i], false), fmt.Sprintf("token %x: the caller got %d bytes, the peer served %d bytes under this token (first difference at %d)", tok, len(outs[i].b), len(bodies[i]), firstDiffAt(outs[i].b, bodies[i])), c)
				default:
					rec.Count("token_family_downloads_exact", 1)
				}
			}
		}
		rec.Eval(fmt.Sprintf("token-family|%s|%x|%d|%v", dir, fam, bs, abandonFirst))
		rec.Count("token_family_cases_"+dir, 1)
		_ = cc.Close()
	}
}

func firstDiffAt(a, b []byte) int {
	for i := 0; i < len(a) && i < len(b); i++ {
		if a[i] != b[i] {
			return i
		}
	}
	if len(a) < len(b) {
		return len(a)
	}
	return len(b)
}

var _ = vr.Seed
