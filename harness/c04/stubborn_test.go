package c04

import (
	"bytes"
	"context"
	"fmt"
	"math/rand"
	"sync"
	"time"

	"github.com/plgd-dev/go-coap/v3/message"
	"github.com/plgd-dev/go-coap/v3/message/codes"
	"github.com/plgd-dev/go-coap/v3/message/pool"
	"github.com/plgd-dev/go-coap/v3/net/blockwise"
	"github.com/plgd-dev/go-coap/v3/net/responsewriter"
	tcpclient "github.com/plgd-dev/go-coap/v3/tcp/client"
	udpclient "github.com/plgd-dev/go-coap/v3/udp/client"

	"verifharness/ref"
	"verifharness/sim"
	"verifharness/vr"
)

// foreignPeer: the other endpoint is not go-coap but a scripted peer with its own idea of the block size. RFC 7959 only
// says the sender SHOULD follow the size the receiver announces, so a peer that keeps its own (larger or smaller) blocks is
// legal input. Two peers per direction: "stubborn" keeps its size whatever the real endpoint answers, "polite" switches to
// the announced size when that is smaller. Oracle (statement of C04): whatever is handed to the application as a complete
// body is exactly the body the peer holds, at most once; a final success response implies exactly one delivery; an exchange
// that does not complete ends with an error — never with some other byte string.
func foreignPeer(rec *vr.Rec, reps int, seed int64) {
	rnd := rand.New(rand.NewSource(seed ^ 0x5712bb))
	for rep := 0; rep < reps; rep++ {
		kind := []string{"udp", "tcp"}[rep%2]
		dir := []string{"upload", "download"}[(rep/2)%2]
		polite := (rep/4)%3 == 2
		local := rnd.Intn(4)             // 16..128
		peer := rnd.Intn(5)              // 16..256
		if rep%5 != 4 && peer <= local { // mostly: peer larger than the real endpoint's maximum
			peer = local + 1 + rnd.Intn(2)
		}
		P, L := 16<<uint(peer), 16<<uint(local)
		nblocks := 2 + rnd.Intn(6)
		size := (nblocks-1)*P + 1 + rnd.Intn(P)
		if rnd.Intn(4) == 0 {
			size = nblocks * P // exact multiple
		}
		body := bodyOf(uint32(90000+rep), size)
		c := map[string]any{"scenario": "foreign-peer-" + dir, "transport": kind, "peer_block_size": P, "local_max_block_size": L, "body_bytes": size, "peer_follows_announced_size": polite}

		var mu sync.Mutex
		var delivered [][]byte
		var deliveredMeta []string
		handler := func(code codes.Code, path string, cf message.MediaType, hasCF bool, b []byte) {
			mu.Lock()
			delivered = append(delivered, append([]byte(nil), b...))
			deliveredMeta = append(deliveredMeta, fmt.Sprintf("%v %s cf=%v/%v", code, path, cf, hasCF))
			mu.Unlock()
		}
		var inject func(m ref.Msg)
		var sent func() []ref.Msg
		var get func(ctx context.Context) ([]byte, error)
		var closef func()
		if kind == "udp" {
			s := sim.NewMemSession()
			cc := sim.NewUDPConn(s, sim.UDPOpts{Blockwise: true, SZX: blockwise.SZX(local), Pool: pool.New(8, 2048),
				Handler: func(w *responsewriter.ResponseWriter[*udpclient.Conn], r *pool.Message) {
					b, _ := r.ReadBody()
					p, _ := r.Path()
					cf, err := r.ContentFormat()
					handler(r.Code(), p, cf, err == nil, b)
					_ = w.SetResponse(codes.Changed, message.TextPlain, bytes.NewReader([]byte("ok")))
				}})
			inject = func(m ref.Msg) { _ = cc.Process(nil, ref.EncodeUDP(m)) }
			sent = func() []ref.Msg {
				var out []ref.Msg
				for _, d := range s.Log() {
					if m, err := ref.ParseUDP(d.Data); err == nil {
						out = append(out, m)
					}
				}
				return out
			}
			get = func(ctx context.Context) ([]byte, error) {
				m, err := cc.Get(ctx, "/dl")
				if err != nil {
					return nil, err
				}
				defer cc.ReleaseMessage(m)
				if m.Code()>>5 != 2 {
					return nil, fmt.Errorf("code %v", m.Code())
				}
				return m.ReadBody()
			}
			closef = func() { _ = cc.Close() }
		} else {
			sc := sim.NewScriptConn()
			cc, err := sim.NewTCPConn(sc, sim.TCPOpts{Mutate: func(cfg *tcpclient.Config) { cfg.BlockwiseSZX = blockwise.SZX(local) },
				Handler: func(w *responsewriter.ResponseWriter[*tcpclient.Conn], r *pool.Message) {
					b, _ := r.ReadBody()
					p, _ := r.Path()
					cf, err := r.ContentFormat()
					handler(r.Code(), p, cf, err == nil, b)
					_ = w.SetResponse(codes.Changed, message.TextPlain, bytes.NewReader([]byte("ok")))
				}})
			if err != nil {
				continue
			}
			sim.AnnounceBlockwise(sc, cc, ref.EncodeTCP(ref.Msg{Code: 7<<5 | 1, Opts: []ref.Opt{{ID: 2, Val: ref.Uint(1152)}, {ID: 4, Val: nil}}}))
			inject = func(m ref.Msg) { sc.Feed(ref.EncodeTCP(m)) }
			sent = func() []ref.Msg { ms, _ := ref.ParseTCPStream(sc.Written()); return ms }
			get = func(ctx context.Context) ([]byte, error) {
				m, err := cc.Get(ctx, "/dl")
				if err != nil {
					return nil, err
				}
				defer cc.ReleaseMessage(m)
				if m.Code()>>5 != 2 {
					return nil, fmt.Errorf("code %v", m.Code())
				}
				return m.ReadBody()
			}
			closef = func() { _ = cc.Close() }
		}

		rec.Eval(fmt.Sprintf("foreign|%s|%s|%d|%d|%d|%v", kind, dir, P, L, size, polite))
		rec.Count("foreign_peer_transfers_"+dir, 1)
		if dir == "upload" {
			tok := []byte{0xc4, byte(rep), byte(rep >> 8)}
			stale := (rep/8)%2 == 1
			staleAt := 2 + rep%3
			c["stale_block_of_another_body_injected"] = stale
			off, cur, curSzx := 0, P, peer
			finalCode := uint8(0)
			steps := 0
			for steps = 0; steps < 4096; steps++ {
				if off%cur != 0 { // cannot express the offset in the current size: stay with the peer's own size
					cur, curSzx = P, peer
					off = off / P * P
				}
				num := off / cur
				hi := off + cur
				more := true
				if hi >= size {
					hi, more = size, false
				}
				bv := uint32(num<<4) | uint32(curSzx)
				if more {
					bv |= 8
				}
				if stale && steps == staleAt && off >= 2*cur {
					// a stale block from an earlier, different body under the same token (a delayed datagram of an earlier
					// exchange): lower block number, other content, possibly flagged final. It must not become part of this body.
					sn := rep % (off / cur)
					other := bodyOf(uint32(91000+rep), size)
					sl := sn * cur
					sh := sl + cur/2 + 1
					if sh > size {
						sh = size
					}
					sv := uint32(sn<<4) | uint32(curSzx)
					if rep%4 >= 2 {
						sv |= 8
					}
					smid := uint16(2000 + steps)
					sbefore := len(sent())
					inject(ref.Msg{Type: 0, Code: 2, MID: smid, Token: tok, Opts: []ref.Opt{{ID: 11, Val: []byte("up")}, {ID: 12, Val: ref.Uint(42)}, {ID: 27, Val: ref.Uint(sv)}}, Payload: other[sl:sh]})
					sim.WaitFor(300*time.Millisecond, func() bool { return len(sent()) > sbefore })
					rec.Count("foreign_peer_stale_blocks_injected", 1)
				}
				mid := uint16(3000 + steps)
				req := ref.Msg{Type: 0, Code: 2, MID: mid, Token: tok, Opts: []ref.Opt{{ID: 11, Val: []byte("up")}, {ID: 12, Val: ref.Uint(42)}, {ID: 27, Val: ref.Uint(bv)}}, Payload: body[off:hi]}
				before := len(sent())
				inject(req)
				var resp *ref.Msg
				sim.WaitFor(3*time.Second, func() bool {
					ms := sent()
					for i := before; i < len(ms); i++ {
						m := ms[i]
						if kind == "udp" && (m.MID != mid || m.Code == 0) {
							continue
						}
						if !bytes.Equal(m.Token, tok) {
							continue
						}
						resp = &ms[i]
						return true
					}
					return false
				})
				if resp == nil {
					rec.Count("foreign_peer_upload_no_answer", 1)
					break
				}
				finalCode = resp.Code
				if resp.Code != 0x5f { // not 2.31 Continue: final
					break
				}
				off = hi
				if !more { // 2.31 for the last block: the receiver wants something else; a scripted peer stops here
					break
				}
				if polite {
					if v, ok := resp.GetUint(27); ok {
						if a := int(v & 7); a < curSzx && a < 7 {
							cur, curSzx = 16<<uint(a), a
						}
					}
				}
			}
			time.Sleep(300 * time.Microsecond)
			mu.Lock()
			n := len(delivered)
			for i, d := range delivered {
				if !bytes.Equal(d, body) {
					rec.Violation("C04/"+kind+"/foreign-peer-upload/"+classify(d, body, false), fmt.Sprintf("the peer uploaded %d bytes in %d-byte blocks to an endpoint whose maximum block size is %d (peer follows the announced size: %v); the handler was given %d bytes (%s)", size, P, L, polite, len(d), deliveredMeta[i]), c)
				} else if deliveredMeta[i] != "POST /up cf=application/octet-stream/true" {
					rec.Violation("C04/"+kind+"/foreign-peer-upload/options-not-preserved", deliveredMeta[i], c)
				}
			}
			mu.Unlock()
			if n > 1 {
				rec.Violation("C04/"+kind+"/foreign-peer-upload/delivered-more-than-once", fmt.Sprintf("%d handler invocations for one upload", n), c)
			}
			if finalCode>>5 == 2 && finalCode != 0x5f && n != 1 {
				rec.Violation("C04/"+kind+"/foreign-peer-upload/success-without-delivery", fmt.Sprintf("final response %d.%02d but %d handler invocations", finalCode>>5, finalCode&31, n), c)
			}
			if n == 1 {
				rec.Count("foreign_peer_uploads_delivered_exact", 1)
			} else {
				rec.Count("foreign_peer_uploads_not_completed", 1)
			}
		} else {
			type res struct {
				b   []byte
				err error
			}
			done := make(chan res, 1)
			go func() {
				ctx, cancel := context.WithTimeout(context.Background(), 2*time.Second)
				defer cancel()
				b, err := get(ctx)
				done <- res{b, err}
			}()
			seen := 0
			var r res
		loop:
			for {
				select {
				case r = <-done:
					break loop
				default:
				}
				msgs := sent()
				if seen == len(msgs) {
					time.Sleep(30 * time.Microsecond)
					continue
				}
				for ; seen < len(msgs); seen++ {
					m := msgs[seen]
					if m.Code != 1 || ref.PathOf(m) != "/dl" {
						continue
					}
					reqNum, reqSzx := 0, local
					if v, ok := m.GetUint(23); ok {
						reqNum, reqSzx = int(v>>4), int(v&7)
					}
					off := reqNum * (16 << uint(reqSzx))
					use, useSzx := P, peer
					if polite && reqSzx < peer {
						use, useSzx = 16<<uint(reqSzx), reqSzx
					}
					if off%use != 0 { // offset not expressible in the server's size: fall back to the requested one
						use, useSzx = 16<<uint(reqSzx), reqSzx
					}
					lo := off
					if lo > size {
						lo = size
					}
					hi := lo + use
					more := true
					if hi >= size {
						hi, more = size, false
					}
					bv := uint32((lo/use)<<4) | uint32(useSzx)
					if more {
						bv |= 8
					}
					inject(ref.Msg{Type: 2, Code: 0x45, MID: m.MID, Token: m.Token, Opts: []ref.Opt{{ID: 4, Val: []byte{'E'}}, {ID: 23, Val: ref.Uint(bv)}}, Payload: body[lo:hi]})
				}
			}
			if r.err == nil && !bytes.Equal(r.b, body) {
				rec.Violation("C04/"+kind+"/foreign-peer-download/"+classify(r.b, body, false), fmt.Sprintf("a server serving %d-byte blocks (client maximum %d, server follows the requested size: %v) holds %d bytes; the caller received %d bytes as a complete body", P, L, polite, size, len(r.b)), c)
			}
			if r.err == nil {
				rec.Count("foreign_peer_downloads_completed_exact", 1)
			} else {
				rec.Count("foreign_peer_downloads_failed_with_error", 1)
			}
		}
		closef()
	}
}

var _ = vr.Seed
