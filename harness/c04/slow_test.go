package c04

import (
	"bytes"
	"context"
	"fmt"
	"math/rand"
	"os"
	"time"

	"github.com/plgd-dev/go-coap/v3/message"
	"github.com/plgd-dev/go-coap/v3/message/pool"
	"github.com/plgd-dev/go-coap/v3/net/blockwise"
	tcpclient "github.com/plgd-dev/go-coap/v3/tcp/client"

	"verifharness/ref"
	"verifharness/sim"
	"verifharness/vr"
)

// slowDownload: a Block2 download that takes longer than the block-wise transfer timeout while the request itself is still
// alive (its context has a later deadline, or no deadline at all). Housekeeping runs between two blocks at a virtual time
// beyond the transfer timeout. Whatever the connection does with its reassembly state then, the caller must end up with
// the whole body or with an error - never with a fragment presented as the complete response.
func slowDownload(rec *vr.Rec, reps int, seed int64) {
	rnd := rand.New(rand.NewSource(seed ^ 0x51a9))
	for rep := 0; rep < reps; rep++ {
		kind := []string{"udp", "tcp"}[rep%2]
		ctxKind := []string{"deadline-1h", "cancel-only"}[(rep/2)%2]
		szx := rnd.Intn(3)
		bs := 16 << uint(szx)
		nblocks := 3 + rnd.Intn(4)
		size := (nblocks-1)*bs + 1 + rnd.Intn(bs)
		sweepBefore := 1 + rnd.Intn(nblocks-1) // housekeeping runs before block number sweepBefore is served
		if os.Getenv("VERIF_DBG") == "last" {
			sweepBefore = nblocks - 1
		}
		bwTimeout := 200 * time.Millisecond
		// pause mode: no housekeeping run at all; the peer simply pauses (in real time) for longer than the transfer timeout,
		// so that entries are found expired by the look-ups themselves
		pause := (rep/4)%2 == 1
		if pause {
			bwTimeout = 25 * time.Millisecond
		}
		sweepAhead := []time.Duration{2 * bwTimeout, 10 * time.Second, 30 * time.Minute}[rnd.Intn(3)]
		// early size negotiation: the request itself carries Block2 (NUM 0, 1024 bytes); the peer answers in its own, smaller
		// blocks. "The block I asked for" is then block 0 in units of 1024 - not every small block inside its first 1024 bytes.
		explicit := (rep/8)%2 == 1
		c := map[string]any{"scenario": "download-slower-than-blockwise-timeout", "transport": kind, "request_context": ctxKind, "block_size": bs, "body_bytes": size, "blocks": nblocks, "housekeeping_before_block": sweepBefore, "housekeeping_virtual_time_ahead": sweepAhead.String(), "blockwise_timeout": bwTimeout.String(), "peer_pauses_instead_of_housekeeping": pause, "request_carries_block2_num0_szx1024": explicit}
		body := bodyOf(uint32(95000+rep), size)
		var inject func(m ref.Msg)
		var sent func() []ref.Msg
		var get func(ctx context.Context) ([]byte, error)
		var sweep func(now time.Time)
		var closef func()
		var getOpts []message.Option
		if explicit {
			getOpts = []message.Option{{ID: message.Block2, Value: []byte{6}}}
		}
		if kind == "udp" {
			s := sim.NewMemSession()
			cc := sim.NewUDPConn(s, sim.UDPOpts{Blockwise: true, SZX: blockwise.SZX(szx), BWTimeout: bwTimeout, Pool: pool.New(8, 2048), Errors: func(err error) {
				if os.Getenv("VERIF_DBG") != "" {
					fmt.Println("CONN ERROR:", err)
				}
			}})
			inject = func(m ref.Msg) { _ = cc.Process(nil, ref.EncodeUDP(m)) }
			sent = func() []ref.Msg {
				var out []ref.Msg
				for _, d := range s.Log() {
					if m, err := ref.ParseUDP(d.Data); err == nil {
						out = append(out, m)
					}
				}
				return out
			}
			get = func(ctx context.Context) ([]byte, error) {
				m, err := cc.Get(ctx, "/slowdl", getOpts...)
				if err != nil {
					return nil, err
				}
				defer cc.ReleaseMessage(m)
				if m.Code()>>5 != 2 {
					return nil, fmt.Errorf("code %v", m.Code())
				}
				return m.ReadBody()
			}
			sweep = cc.CheckExpirations
			closef = func() { _ = cc.Close() }
		} else {
			sc := sim.NewScriptConn()
			cc, err := sim.NewTCPConn(sc, sim.TCPOpts{Mutate: func(cfg *tcpclient.Config) {
				cfg.BlockwiseSZX = blockwise.SZX(szx)
				cfg.BlockwiseTransferTimeout = bwTimeout
			}})
			if err != nil {
				continue
			}
			sim.AnnounceBlockwise(sc, cc, ref.EncodeTCP(ref.Msg{Code: 7<<5 | 1, Opts: []ref.Opt{{ID: 2, Val: ref.Uint(1152)}, {ID: 4, Val: nil}}}))
			inject = func(m ref.Msg) { sc.Feed(ref.EncodeTCP(m)) }
			sent = func() []ref.Msg { ms, _ := ref.ParseTCPStream(sc.Written()); return ms }
			get = func(ctx context.Context) ([]byte, error) {
				m, err := cc.Get(ctx, "/slowdl", getOpts...)
				if err != nil {
					return nil, err
				}
				defer cc.ReleaseMessage(m)
				if m.Code()>>5 != 2 {
					return nil, fmt.Errorf("code %v", m.Code())
				}
				return m.ReadBody()
			}
			sweep = cc.CheckExpirations
			closef = func() { _ = cc.Close() }
		}
		type res struct {
			b   []byte
			err error
		}
		done := make(chan res, 1)
		ctx, cancel := context.WithCancel(context.Background())
		if ctxKind == "deadline-1h" {
			cancel()
			ctx, cancel = context.WithTimeout(context.Background(), time.Hour)
		}
		go func() {
			b, err := get(ctx)
			done <- res{b, err}
		}()
		seen, served, swept := 0, 0, false
		var r res
		start := time.Now()
		lastProgress := start
	loop:
		for {
			select {
			case r = <-done:
				break loop
			default:
			}
			msgs := sent()
			if seen == len(msgs) {
				if time.Since(lastProgress) > 150*time.Millisecond || time.Since(start) > 20*time.Second {
					// the client asks for nothing more and the call has not returned: the exchange cannot complete any
					// more (its state was swept); the caller's context ends it - with an error
					cancel()
					select {
					case r = <-done:
					case <-time.After(10 * time.Second):
						rec.Violation("C04/"+kind+"/slow-download/call-does-not-return-after-cancel", "the download stopped making progress after housekeeping; the call did not return within 10 s after its context was cancelled", c)
						// nothing more can be learnt from this connection: closing it may block on the same thing
						go closef()
						select {
						case r = <-done:
						case <-time.After(5 * time.Second):
							return
						}
					}
					rec.Count("slow_downloads_ended_by_caller_context", 1)
					break loop
				}
				time.Sleep(30 * time.Microsecond)
				continue
			}
			lastProgress = time.Now()
			for ; seen < len(msgs); seen++ {
				m := msgs[seen]
				if m.Code != 1 || ref.PathOf(m) != "/slowdl" {
					continue
				}
				num := 0
				if v, ok := m.GetUint(23); ok {
					num = int(v >> 4)
				}
				if num == sweepBefore && !swept {
					swept = true
					if pause {
						time.Sleep(3 * bwTimeout)
						lastProgress = time.Now()
						rec.Count("slow_download_peer_pauses", 1)
					} else {
						sweep(time.Now().Add(sweepAhead))
						rec.Count("slow_download_housekeeping_runs", 1)
					}
				}
				served++
				if served > 200 {
					cancel()
					continue
				}
				lo := num * bs
				if lo > len(body) {
					lo = len(body)
				}
				hi := lo + bs
				more := true
				if hi >= len(body) {
					hi, more = len(body), false
				}
				bv := uint32(num<<4) | uint32(szx)
				if more {
					bv |= 8
				}
				if os.Getenv("VERIF_DBG") != "" {
					fmt.Printf("rep %d %s %s: request num=%d (sweepBefore %d of %d blocks, swept=%v) -> serve more=%v\n", rep, kind, ctxKind, num, sweepBefore, nblocks, swept, more)
				}
				inject(ref.Msg{Type: 2, Code: 0x45, MID: m.MID, Token: m.Token, Opts: []ref.Opt{{ID: 4, Val: []byte{'S'}}, {ID: 23, Val: ref.Uint(bv)}}, Payload: body[lo:hi]})
			}
		}
		cancel()
		rec.Eval(fmt.Sprintf("slow|%s|%s|%d|%d|%d|%s|%v|%v", kind, ctxKind, bs, size, sweepBefore, sweepAhead, pause, explicit))
		rec.Count("slow_downloads_"+ctxKind, 1)
		if r.err == nil && !bytes.Equal(r.b, body) {
			rec.Violation("C04/"+kind+"/slow-download/"+ctxKind+"/"+classify(r.b, body, false), fmt.Sprintf("the download outlived the block-wise transfer timeout (%s before block %d of %d was served); the caller then received %d of %d bytes as a complete response", map[bool]string{true: "the peer paused for 3 x the timeout", false: "housekeeping ran at a virtual time beyond it"}[pause], sweepBefore, nblocks, len(r.b), size), c)
		} else if r.err == nil {
			rec.Count("slow_downloads_completed_exact", 1)
		} else {
			rec.Count("slow_downloads_failed_with_error", 1)
		}
		closef()
	}
}

var _ = vr.Seed
