// C04 — block-wise transfer delivers the exact body exactly once, or fails.
//
// Monitor: two real connections exchange bodies (PRNG bytes with embedded transfer ids)
// through a relay that delivers / duplicates / drops / reorders / replays / re-labels
// datagrams by script (all single and double fault scripts for short transfers, PRNG
// scripts beyond); the oracle checks body identity, multiplicity under same-MID faults,
// option preservation and termination by the context deadline. Stream pairs (with BERT)
// run fault-free over all size classes.
package c04

import (
	"bytes"
	"context"
	"encoding/json"
	"fmt"
	"math/rand"
	"os"
	"sync"
	"sync/atomic"
	"testing"
	"time"

	"github.com/plgd-dev/go-coap/v3/message"
	"github.com/plgd-dev/go-coap/v3/message/codes"
	"github.com/plgd-dev/go-coap/v3/net/blockwise"

	"verifharness/vr"
)

type xfer struct {
	ID    uint32 `json:"id"`
	Style string `json:"style"`  // do / write
	Meth  string `json:"method"` // POST / PUT / GET
	Up    int    `json:"upload_bytes"`
	Down  int    `json:"download_bytes"`
}

type bcase struct {
	Kind    string         `json:"transport"`
	CSZX    int            `json:"client_szx"`
	SSZX    int            `json:"server_szx"`
	MaxSize uint32         `json:"max_message_size,omitempty"`
	Xfers   []xfer         `json:"transfers"`
	Faults  map[int]string `json:"fault_script,omitempty"`
	PF      float64        `json:"fault_probability,omitempty"`
	Seed    int64          `json:"fault_seed,omitempty"`
}

type xres struct {
	err      error
	code     codes.Code
	body     []byte
	hasCF    bool
	hasETag  bool
	returned bool
	dur      time.Duration
}

func classify(got, want []byte, hasBlock bool) string {
	switch {
	case len(got) == 0 && len(want) > 0:
		return "empty-body-presented-as-complete"
	case len(got) < len(want) && bytes.Equal(got, want[:len(got)]):
		return "truncated-prefix"
	case len(got) < len(want) && bytes.Equal(got, want[len(want)-len(got):]):
		return "truncated-suffix"
	case len(got) < len(want) && bytes.Contains(want, got):
		return "inner-fragment"
	case len(got) > len(want) && bytes.Equal(got[:len(want)], want):
		return "extended"
	}
	return "corrupted-or-mixed"
}

func runCase(rec *vr.Rec, c bcase) {
	var e *pairEnv
	script := map[int]fault{}
	for k, v := range c.Faults {
		for f := fault(0); f < nFaults; f++ {
			if f.String() == v {
				script[k] = f
			}
		}
	}
	var frnd *rand.Rand
	var fmu sync.Mutex
	if c.PF > 0 {
		frnd = rand.New(rand.NewSource(c.Seed))
	}
	sameMID := true
	pick := func(idx int, dir string) fault {
		if f, ok := script[idx]; ok {
			return f
		}
		if frnd != nil {
			fmu.Lock()
			defer fmu.Unlock()
			if frnd.Float64() < c.PF {
				return fault(1 + frnd.Intn(int(nFaults)-1))
			}
		}
		return fDeliver
	}
	if c.Kind == "udp" {
		e = newUDPPair(blockwise.SZX(c.CSZX), blockwise.SZX(c.SSZX), pick)
	} else {
		var err error
		e, err = newTCPPair(blockwise.SZX(c.CSZX), blockwise.SZX(c.SSZX), c.MaxSize)
		if err != nil {
			rec.Violation("C04/harness/tcp-pair", err.Error(), c)
			return
		}
	}
	defer e.close()
	faulty := len(script) > 0 || c.PF > 0
	timeout := 20 * time.Second
	if faulty {
		timeout = 350 * time.Millisecond
	}
	results := make([]xres, len(c.Xfers))
	var wg sync.WaitGroup
	for i, x := range c.Xfers {
		wg.Add(1)
		go func(i int, x xfer) {
			defer wg.Done()
			ctx, cancel := context.WithTimeout(context.Background(), timeout)
			defer cancel()
			path := fmt.Sprintf("/t/%d/%d", x.ID, x.Down)
			opts := []message.Option{{ID: message.URIQuery, Value: []byte("k=v")}, {ID: unknownOpt, Value: []byte("elective")}}
			t0 := time.Now()
			r := &results[i]
			switch {
			case x.Style == "write":
				req, err := e.cli.NewPostRequest(ctx, path, message.AppOctets, bytes.NewReader(bodyOf(x.ID, x.Up)), opts...)
				if err != nil {
					r.err = err
					break
				}
				req.SetType(message.NonConfirmable)
				r.err = e.cli.WriteMessage(req)
				e.cli.ReleaseMessage(req)
			default:
				var resp interface {
					Code() codes.Code
					ReadBody() ([]byte, error)
					HasOption(message.OptionID) bool
				}
				var err error
				switch x.Meth {
				case "POST":
					p, er := e.cli.Post(ctx, path, message.AppOctets, bytes.NewReader(bodyOf(x.ID, x.Up)), opts...)
					err = er
					if er == nil {
						resp = p
						defer e.cli.ReleaseMessage(p)
					}
				case "PUT":
					p, er := e.cli.Put(ctx, path, message.AppOctets, bytes.NewReader(bodyOf(x.ID, x.Up)), opts...)
					err = er
					if er == nil {
						resp = p
						defer e.cli.ReleaseMessage(p)
					}
				default:
					p, er := e.cli.Get(ctx, path, opts...)
					err = er
					if er == nil {
						resp = p
						defer e.cli.ReleaseMessage(p)
					}
				}
				r.err = err
				if err == nil {
					r.code = resp.Code()
					r.body, _ = resp.ReadBody()
					r.hasCF = resp.HasOption(message.ContentFormat)
					r.hasETag = resp.HasOption(message.ETag)
				}
			}
			r.dur = time.Since(t0)
			r.returned = true
		}(i, x)
	}
	done := make(chan struct{})
	go func() { wg.Wait(); close(done) }()
	select {
	case <-done:
	case <-time.After(timeout + 20*time.Second):
		rec.Violation("C04/"+c.Kind+"/call-does-not-return", fmt.Sprintf("a block-wise call did not return %v after its context deadline", 20*time.Second), c)
		return
	}
	// one-way writes complete at the receiver; give the last block exchanges time to finish
	for _, x := range c.Xfers {
		if x.Style == "write" && !faulty {
			sim_WaitFor(10*time.Second, func() bool {
				e.mu.Lock()
				defer e.mu.Unlock()
				for _, d := range e.deliv {
					if d.id == x.ID {
						return true
					}
				}
				return false
			})
		}
	}
	time.Sleep(500 * time.Microsecond)
	e.mu.Lock()
	defer e.mu.Unlock()
	for f, n := range e.usedF {
		if f != fDeliver {
			rec.Count("faults_injected_"+f.String(), int64(n))
			if !sameMIDOnly(f) {
				sameMID = false
			}
		}
	}
	rec.Count("relayed_units", e.units.Load())
	detailTail := func() string {
		t := e.trace
		if len(t) > 40 && traceLimit < 1000 {
			t = t[:40]
		}
		return fmt.Sprintf("\n trace=%v\n errors=%v", t, e.errs)
	}
	for i, x := range c.Xfers {
		r := results[i]
		want := bodyOf(x.ID, x.Up)
		if x.Meth == "GET" {
			want = nil
		}
		exact := 0
		for _, d := range e.deliv {
			if d.id != x.ID {
				continue
			}
			if d.down != x.Down {
				rec.Violation("C04/"+c.Kind+"/options-altered", fmt.Sprintf("transfer %d: path delivered with download size %d, sent %d", x.ID, d.down, x.Down), c)
				return
			}
			// rule 1: integrity of every delivered request body
			if !bytes.Equal(d.body, want) {
				rec.Violation("C04/"+c.Kind+"/request-body/"+classify(d.body, want, d.hasBlock), fmt.Sprintf("transfer %d (%s %s up=%d): handler received %d bytes, sender supplied %d (block option on delivered message: %v)%s", x.ID, x.Style, x.Meth, x.Up, len(d.body), len(want), d.hasBlock, detailTail()), c)
				return
			}
			exact++
			// rule 5: other options preserved
			if !d.hasQuery || !d.hasUnk || (x.Meth != "GET" && x.Up > 0 && !d.hasCF) {
				rec.Violation("C04/"+c.Kind+"/options-lost", fmt.Sprintf("transfer %d: delivered request lost options (query %v, unknown elective %v, content-format %v)%s", x.ID, d.hasQuery, d.hasUnk, d.hasCF, detailTail()), c)
				return
			}
		}
		// 2.31 Continue handed to the caller is an intermediate answer, not a completed exchange
		success := x.Style == "do" && r.err == nil && r.code>>5 == 2 && r.code != codes.Continue
		if x.Style == "do" && r.err == nil {
			rec.Count("do_returned_code_class_"+fmt.Sprint(r.code>>5), 1)
		}
		if success {
			wantResp := []byte(nil)
			if x.Down > 0 {
				wantResp = bodyOf(x.ID+1, x.Down)
			}
			if !bytes.Equal(r.body, wantResp) {
				rec.Violation("C04/"+c.Kind+"/response-body/"+classify(r.body, wantResp, false), fmt.Sprintf("transfer %d (down=%d): caller received %d bytes, server supplied %d%s", x.ID, x.Down, len(r.body), len(wantResp), detailTail()), c)
				return
			}
			if exact < 1 {
				rec.Violation("C04/"+c.Kind+"/success-without-delivery", fmt.Sprintf("transfer %d: the call returned %v but the server handler never received the request body%s", x.ID, r.code, detailTail()), c)
				return
			}
			if x.Down > 0 && (!r.hasCF || !r.hasETag) {
				rec.Violation("C04/"+c.Kind+"/options-lost", fmt.Sprintf("transfer %d: response lost options (content-format %v, etag %v)", x.ID, r.hasCF, r.hasETag), c)
				return
			}
			rec.Count("transfers_completed_exact", 1)
			rec.Count("bytes_verified", int64(x.Up+x.Down))
		}
		// rule 2: multiplicity under faults a datagram network produces by itself
		// (only request bodies count: re-running a GET handler for a replayed block request delivers nothing twice)
		if sameMID && exact > 1 && x.Meth != "GET" {
			rec.Violation("C04/"+c.Kind+"/delivered-twice", fmt.Sprintf("transfer %d: the receiving handler got the complete body %d times although only same-message-ID faults were injected%s", x.ID, exact, detailTail()), c)
			return
		}
		// A BERT sender facing a non-BERT receiver (stream pair configured 7 vs <7) does not get its
		// transfer through on the unchanged tree: it ends in a timeout, which the statement allows
		// ("an exchange that cannot complete ends with an error or timeout"); integrity is still checked.
		bertMix := c.Kind == "tcp" && (c.CSZX == 7) != (c.SSZX == 7)
		if bertMix && !success {
			rec.Count("bert_vs_non_bert_transfers_timed_out", 1)
		}
		// BERT/BERT: an upload that fits the first BERT block (1024 < size <= floor(max/1024)*1024) is
		// sent whole but flagged "more blocks follow"; the exchange then stalls until its deadline.
		// Also a timeout, i.e. allowed by the statement; recorded, not judged.
		bertFirst := c.Kind == "tcp" && c.CSZX == 7 && c.SSZX == 7 && x.Up > 1024 && x.Up <= int(c.MaxSize/1024)*1024
		if bertFirst && !success {
			rec.Count("bert_single_block_uploads_timed_out", 1)
		}
		if !faulty && !bertMix && !bertFirst {
			if x.Style == "do" && !success {
				rec.Violation("C04/"+c.Kind+"/fault-free-transfer-failed", fmt.Sprintf("transfer %d (%s up=%d down=%d szx %d/%d): err=%v code=%v%s", x.ID, x.Meth, x.Up, x.Down, c.CSZX, c.SSZX, r.err, r.code, detailTail()), c)
				return
			}
			if exact != 1 && x.Meth != "GET" || exact < 1 {
				rec.Violation("C04/"+c.Kind+"/fault-free-delivery-count", fmt.Sprintf("transfer %d (%s): %d deliveries%s", x.ID, x.Style, exact, detailTail()), c)
				return
			}
		}
		if r.err != nil || (x.Style == "do" && !success) {
			rec.Count("transfers_failed_allowed", 1)
		}
	}
}

func sim_WaitFor(d time.Duration, cond func() bool) bool {
	deadline := time.Now().Add(d)
	for !cond() {
		if time.Now().After(deadline) {
			return cond()
		}
		time.Sleep(200 * time.Microsecond)
	}
	return true
}

func szxSize(s int) int {
	if s >= 6 {
		return 1024
	}
	return 16 << uint(s)
}

func sizesFor(s int) []int {
	return []int{0, 1, s - 1, s, s + 1, 2*s - 1, 2 * s, 2*s + 1, 3*s + 7, 5 * s}
}

func TestRun(t *testing.T) {
	rec := vr.New("C04", "transfers between two real connections through a fault-injecting relay. udp pairs: client/server SZX 0..6 each, body sizes {0,1,s-1,s,s+1,2s-1,2s,2s+1,3s+7,5s} for the negotiated block size s, directions upload (POST/PUT Block1), download (GET Block2), both, styles Do and one-way WriteMessage, 1..8 concurrent transfers; fault scripts per relayed datagram from {deliver, dup same MID, dup fresh MID, drop, hold (reorder), replay older, foreign-token copy}: ALL single-fault and (thorough: all; quick: PRNG subset of) double-fault scripts for transfers of <= 4 blocks, PRNG scripts beyond. tcp pairs with injected block-wise CSM: SZX 0..7 (BERT with max message size >= 1152) fault-free. Distinct = distinct case tuples.")
	defer rec.Flush(true)
	seed := vr.Seed()
	rnd := rand.New(rand.NewSource(seed))
	var cases []bcase
	id := uint32(1000)
	nextID := func() uint32 { id += 2; return id }

	// ---- (a) fault-free udp: all SZX pairs x boundary sizes (quick: PRNG subset of the product)
	for cs := 0; cs <= 6; cs++ {
		for ss := 0; ss <= 6; ss++ {
			s := szxSize(cs)
			if szxSize(ss) < s {
				s = szxSize(ss)
			}
			sizes := sizesFor(s)
			n := vr.Scale(3, len(sizes)*3)
			for k := 0; k < n; k++ {
				up := sizes[rnd.Intn(len(sizes))]
				down := sizes[rnd.Intn(len(sizes))]
				meth := []string{"POST", "PUT", "GET"}[rnd.Intn(3)]
				style := "do"
				if meth == "GET" {
					up = 0
				} else if rnd.Intn(5) == 0 {
					style = "write"
					down = 0
				}
				cases = append(cases, bcase{Kind: "udp", CSZX: cs, SSZX: ss, Xfers: []xfer{{nextID(), style, meth, up, down}}})
			}
		}
	}
	// concurrent transfers
	for k := 0; k < vr.Scale(20, 600); k++ {
		cs, ss := rnd.Intn(7), rnd.Intn(7)
		s := szxSize(cs)
		if szxSize(ss) < s {
			s = szxSize(ss)
		}
		sizes := sizesFor(s)
		n := 2 + rnd.Intn(7)
		var xs []xfer
		for i := 0; i < n; i++ {
			meth := []string{"POST", "PUT", "GET"}[rnd.Intn(3)]
			up := sizes[rnd.Intn(len(sizes))]
			if meth == "GET" {
				up = 0
			}
			xs = append(xs, xfer{nextID(), "do", meth, up, sizes[rnd.Intn(len(sizes))]})
		}
		c := bcase{Kind: "udp", CSZX: cs, SSZX: ss, Xfers: xs}
		if k%2 == 1 {
			c.PF = 0.15
			c.Seed = rnd.Int63()
		}
		cases = append(cases, c)
	}
	// ---- (b) enumerated fault scripts on short transfers
	type shape struct {
		meth     string
		up, down int
		units    int // datagrams relayed in the fault-free run (both directions)
	}
	// block size 16 on both sides: 3-block upload, 3-block download, 2+2
	shapes := []shape{{"POST", 40, 0, 6}, {"GET", 0, 40, 6}, {"PUT", 20, 20, 6}, {"POST", 64, 5, 8}, {"POST", 16, 16, 2}}
	for _, sh := range shapes {
		for u := 0; u < sh.units+1; u++ {
			for f := fault(1); f < nFaults; f++ {
				cases = append(cases, bcase{Kind: "udp", CSZX: 0, SSZX: 0, Xfers: []xfer{{nextID(), "do", sh.meth, sh.up, sh.down}}, Faults: map[int]string{u: f.String()}})
			}
		}
		// double faults
		var doubles []bcase
		for u1 := 0; u1 < sh.units+1; u1++ {
			for u2 := u1 + 1; u2 < sh.units+2; u2++ {
				for f1 := fault(1); f1 < nFaults; f1++ {
					for f2 := fault(1); f2 < nFaults; f2++ {
						doubles = append(doubles, bcase{Kind: "udp", CSZX: 0, SSZX: 0, Xfers: []xfer{{0, "do", sh.meth, sh.up, sh.down}}, Faults: map[int]string{u1: f1.String(), u2: f2.String()}})
					}
				}
			}
		}
		rec.Count("double_fault_scripts_enumerated", int64(len(doubles)))
		if !vr.Thorough() {
			rnd.Shuffle(len(doubles), func(i, j int) { doubles[i], doubles[j] = doubles[j], doubles[i] })
			if len(doubles) > 60 {
				doubles = doubles[:60]
			}
		}
		for _, d := range doubles {
			d.Xfers[0].ID = nextID()
			cases = append(cases, d)
		}
	}
	// one-way writes with single faults
	for u := 0; u < 7; u++ {
		for f := fault(1); f < nFaults; f++ {
			cases = append(cases, bcase{Kind: "udp", CSZX: 0, SSZX: 1, Xfers: []xfer{{nextID(), "write", "POST", 40, 0}}, Faults: map[int]string{u: f.String()}})
		}
	}
	// ---- (c) PRNG fault scripts on all SZX pairs
	for k := 0; k < vr.Scale(150, 6000); k++ {
		cs, ss := rnd.Intn(7), rnd.Intn(7)
		s := szxSize(cs)
		if szxSize(ss) < s {
			s = szxSize(ss)
		}
		sizes := sizesFor(s)
		meth := []string{"POST", "PUT", "GET"}[rnd.Intn(3)]
		up := sizes[rnd.Intn(len(sizes))]
		if meth == "GET" {
			up = 0
		}
		cases = append(cases, bcase{Kind: "udp", CSZX: cs, SSZX: ss, Xfers: []xfer{{nextID(), "do", meth, up, sizes[rnd.Intn(len(sizes))]}}, PF: []float64{0.1, 0.25, 0.5}[rnd.Intn(3)], Seed: rnd.Int63()})
	}
	// ---- (d) tcp pairs incl. BERT, fault-free
	for cs := 0; cs <= 7; cs++ {
		for ss := 0; ss <= 7; ss++ {
			if !vr.Thorough() && (cs+ss)%3 != 0 && !(cs == 7 || ss == 7) {
				continue
			}
			maxSize := []uint32{1152, 2100, 4000, 66000}[rnd.Intn(4)]
			s := szxSize(cs)
			if szxSize(ss) < s {
				s = szxSize(ss)
			}
			if cs == 7 && ss == 7 {
				s = int(maxSize/1024) * 1024
			}
			sizes := sizesFor(s)
			for k := 0; k < vr.Scale(2, 10); k++ {
				meth := []string{"POST", "PUT", "GET"}[rnd.Intn(3)]
				up := sizes[rnd.Intn(len(sizes))]
				if meth == "GET" {
					up = 0
				}
				n := 1 + rnd.Intn(3)
				var xs []xfer
				for i := 0; i < n; i++ {
					xs = append(xs, xfer{nextID(), "do", meth, up, sizes[rnd.Intn(len(sizes))]})
				}
				cases = append(cases, bcase{Kind: "tcp", CSZX: cs, SSZX: ss, MaxSize: maxSize, Xfers: xs})
			}
		}
	}
	if js := os.Getenv("VERIF_C04_CASE"); js != "" {
		// debugging aid: run one case (JSON as written in a replay file) repeatedly with a full trace
		var c bcase
		if err := json.Unmarshal([]byte(js), &c); err != nil {
			t.Fatal(err)
		}
		traceLimit = 100000
		for i := 0; i < 20 && rec.NViolations() == 0; i++ {
			runCase(rec, c)
		}
		return
	}
	rec.Count("cases_total", int64(len(cases)))
	var wg sync.WaitGroup
	var next atomic.Int64
	for w := 0; w < 10; w++ {
		wg.Add(1)
		go func() {
			defer wg.Done()
			for {
				i := int(next.Add(1)) - 1
				if i >= len(cases) {
					return
				}
				if rec.NViolations() > 30 {
					rec.Count("cases_skipped_after_many_violations", 1)
					continue
				}
				c := cases[i]
				vr.CaseLog(c)
				runCase(rec, c)
				rec.Eval(fmt.Sprintf("%s|%d|%d|%d|%v|%v|%v|%d", c.Kind, c.CSZX, c.SSZX, c.MaxSize, c.Xfers, c.Faults, c.PF, c.Seed))
				rec.Count("cases_"+c.Kind, 1)
				if i < 2 || (len(c.Faults) == 2 && i%50 == 0) {
					rec.Sample(c)
				}
			}
		}()
	}
	wg.Wait()
	etagRestart(rec, vr.Scale(60, 1500), seed)
	foreignPeer(rec, vr.Scale(240, 6000), seed)
	slowDownload(rec, vr.Scale(64, 1500), seed)
	tokenFamilies(rec, vr.Scale(60, 1200), seed)
	abandonedThenReused(rec, vr.Scale(24, 360))
	uploadToForeignServer(rec, vr.Scale(36, 720))
	rec.Assume("multiplicity is required only under faults a datagram network produces by itself (loss, reordering, duplication/replay with the same message ID); copies re-labelled with a fresh message ID or a foreign token are new requests as far as CoAP can tell, so only integrity is required for them")
	rec.Assume("a call that returns an error or a non-2.xx code is a failed exchange, which the statement allows; fault-free transfers must succeed")
	rec.Assume("termination = every call returned within 20 s after its context deadline")
}
