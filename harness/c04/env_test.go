package c04

import (
	"context"
	"encoding/binary"
	"fmt"
	"io"
	"math/rand"
	"strconv"
	"strings"
	"sync"
	"sync/atomic"
	"time"

	"github.com/plgd-dev/go-coap/v3/message"
	"github.com/plgd-dev/go-coap/v3/message/codes"
	"github.com/plgd-dev/go-coap/v3/message/pool"
	"github.com/plgd-dev/go-coap/v3/net/blockwise"
	"github.com/plgd-dev/go-coap/v3/net/responsewriter"
	"github.com/plgd-dev/go-coap/v3/options"
	"github.com/plgd-dev/go-coap/v3/tcp"
	tcpclient "github.com/plgd-dev/go-coap/v3/tcp/client"
	udpclient "github.com/plgd-dev/go-coap/v3/udp/client"

	"bytes"

	"verifharness/ref"
	"verifharness/sim"
)

type cconn interface {
	Post(ctx context.Context, path string, cf message.MediaType, payload io.ReadSeeker, opts ...message.Option) (*pool.Message, error)
	Put(ctx context.Context, path string, cf message.MediaType, payload io.ReadSeeker, opts ...message.Option) (*pool.Message, error)
	Get(ctx context.Context, path string, opts ...message.Option) (*pool.Message, error)
	NewPostRequest(ctx context.Context, path string, cf message.MediaType, payload io.ReadSeeker, opts ...message.Option) (*pool.Message, error)
	WriteMessage(req *pool.Message) error
	AcquireMessage(ctx context.Context) *pool.Message
	ReleaseMessage(m *pool.Message)
	Close() error
}

// bodyOf: PRNG bytes with the transfer id embedded at the start (and every 64 bytes), so that
// truncation, extension, offset errors and cross-transfer mixing are all visible.
func bodyOf(id uint32, n int) []byte {
	b := make([]byte, n)
	r := rand.New(rand.NewSource(int64(id)*2654435761 + 12345))
	r.Read(b)
	for off := 0; off+4 <= n; off += 64 {
		binary.BigEndian.PutUint32(b[off:], id)
	}
	return b
}

type delivery struct {
	code     codes.Code
	id       uint32
	down     int
	body     []byte
	hasCF    bool
	hasQuery bool
	hasUnk   bool
	hasBlock bool
	token    string
}

const unknownOpt = message.OptionID(65000)

type fault int

const (
	fDeliver fault = iota
	fDupSame
	fDupFresh
	fDrop
	fHold
	fReplayOld
	fForeignToken
	nFaults
)

var faultNames = [...]string{"deliver", "dup-same-mid", "dup-fresh-mid", "drop", "hold(reorder)", "replay-older", "foreign-token-copy"}

func (f fault) String() string { return faultNames[f] }

func sameMIDOnly(f fault) bool {
	return f == fDeliver || f == fDupSame || f == fDrop || f == fHold || f == fReplayOld
}

var traceLimit = 200

type pairEnv struct {
	kind     string
	cli, srv cconn
	mu       sync.Mutex
	deliv    []delivery
	stray    int
	errs     []string
	trace    []string
	units    atomic.Int64
	script   func(idx int, dir string) fault
	stop     chan struct{}
	wg       sync.WaitGroup
	usedF    map[fault]int
}

func (e *pairEnv) serverLogic(code codes.Code, tok []byte, opts message.Options, body []byte, respond func(code codes.Code, cf message.MediaType, body []byte, opts ...message.Option)) {
	if code != codes.POST && code != codes.PUT && code != codes.GET {
		e.mu.Lock()
		e.stray++
		e.mu.Unlock()
		return
	}
	path, _ := opts.Path()
	parts := strings.Split(strings.TrimPrefix(path, "/"), "/")
	if len(parts) != 3 || parts[0] != "t" {
		return
	}
	id64, _ := strconv.ParseUint(parts[1], 10, 32)
	down, _ := strconv.Atoi(parts[2])
	d := delivery{code: code, id: uint32(id64), down: down, body: append([]byte(nil), body...), token: string(tok)}
	_, err := opts.ContentFormat()
	d.hasCF = err == nil
	if q, err := opts.Queries(); err == nil {
		for _, x := range q {
			if x == "k=v" {
				d.hasQuery = true
			}
		}
	}
	if v, err := opts.GetBytes(unknownOpt); err == nil && string(v) == "elective" {
		d.hasUnk = true
	}
	d.hasBlock = opts.HasOption(message.Block1) || opts.HasOption(message.Block2)
	e.mu.Lock()
	e.deliv = append(e.deliv, d)
	e.mu.Unlock()
	rc := codes.Changed
	if code == codes.GET {
		rc = codes.Content
	}
	var rb []byte
	if down > 0 {
		rb = bodyOf(d.id+1, down)
	}
	etag := make([]byte, 4)
	binary.BigEndian.PutUint32(etag, d.id)
	respond(rc, message.AppOctets, rb, message.Option{ID: message.ETag, Value: etag}, message.Option{ID: unknownOpt, Value: []byte("resp")})
}

func (e *pairEnv) errf(side string) func(error) {
	return func(err error) {
		e.mu.Lock()
		if len(e.errs) < 50 {
			e.errs = append(e.errs, side+": "+err.Error())
		}
		e.mu.Unlock()
	}
}

func (e *pairEnv) tracef(format string, a ...any) {
	e.mu.Lock()
	if len(e.trace) < traceLimit {
		e.trace = append(e.trace, fmt.Sprintf(format, a...))
	}
	e.mu.Unlock()
}

func newUDPPair(cszx, sszx blockwise.SZX, script func(idx int, dir string) fault) *pairEnv {
	e := &pairEnv{kind: "udp", script: script, stop: make(chan struct{}), usedF: map[fault]int{}}
	cs, ss := sim.NewMemSession(), sim.NewMemSession()
	cs.Out = make(chan []byte, 8192)
	ss.Out = make(chan []byte, 8192)
	mk := func(s *sim.MemSession, szx blockwise.SZX, side string, own int, h udpclient.HandlerFunc) *udpclient.Conn {
		return sim.NewUDPConn(s, sim.UDPOpts{Blockwise: true, SZX: szx, BWTimeout: 3 * time.Second, Pool: pool.New(64, 2048), Handler: h, Errors: e.errf(side),
			Mutate: func(cfg *udpclient.Config) {
				cfg.GetMID = func() int32 { return int32((own + 0xffff/2) & 0xffff) }
			}})
	}
	srv := mk(ss, sszx, "srv", 10000, func(w *responsewriter.ResponseWriter[*udpclient.Conn], r *pool.Message) {
		body, _ := r.ReadBody()
		e.serverLogic(r.Code(), r.Token(), r.Options(), body, func(code codes.Code, cf message.MediaType, b []byte, opts ...message.Option) {
			var rd io.ReadSeeker
			if b != nil {
				rd = bytes.NewReader(b)
			}
			_ = w.SetResponse(code, cf, rd, opts...)
		})
	})
	cli := mk(cs, cszx, "cli", 40000, nil)
	e.cli, e.srv = cli, srv
	var held = map[string][][]byte{}
	var first = map[string][]byte{}
	freshMID := uint16(60000)
	deliver := func(to *udpclient.Conn, d []byte) { _ = to.Process(nil, d) }
	handle := func(dir string, d []byte, to *udpclient.Conn) {
		idx := int(e.units.Add(1)) - 1
		f := fDeliver
		if e.script != nil {
			f = e.script(idx, dir)
		}
		e.mu.Lock()
		e.usedF[f]++
		e.mu.Unlock()
		if m, err := ref.ParseUDP(d); err == nil {
			b1, _ := m.GetUint(27)
			b2, _ := m.GetUint(23)
			e.tracef("#%d %s %s T%d %d.%02d mid=%d tok=%x b1=%#x b2=%#x pl=%d", idx, dir, f, m.Type, m.Code>>5, m.Code&31, m.MID, m.Token, b1, b2, len(m.Payload))
		}
		if first[dir] == nil {
			first[dir] = d
		}
		switch f {
		case fDeliver:
			deliver(to, d)
		case fDupSame:
			deliver(to, d)
			deliver(to, d)
		case fDupFresh:
			deliver(to, d)
			freshMID++
			c := append([]byte(nil), d...)
			binary.BigEndian.PutUint16(c[2:4], freshMID)
			deliver(to, c)
		case fDrop:
		case fHold:
			held[dir] = append(held[dir], d)
			return
		case fReplayOld:
			deliver(to, d)
			deliver(to, first[dir])
		case fForeignToken:
			deliver(to, d)
			if m, err := ref.ParseUDP(d); err == nil && len(m.Token) > 0 {
				freshMID++
				m.MID = freshMID
				m.Token = append([]byte{0xf0, 0x0f}, m.Token...)
				if len(m.Token) > 8 {
					m.Token = m.Token[:8]
				}
				deliver(to, ref.EncodeUDP(m))
			}
		}
		for _, h := range held[dir] {
			deliver(to, h)
		}
		held[dir] = nil
	}
	e.wg.Add(1)
	go func() {
		defer e.wg.Done()
		for {
			select {
			case d := <-cs.Out:
				handle("c>s", d, srv)
			case d := <-ss.Out:
				handle("s>c", d, cli)
			case <-e.stop:
				return
			}
		}
	}()
	return e
}

type mutateOpt struct{ f func(cfg *tcpclient.Config) }

func (m mutateOpt) TCPClientApply(cfg *tcpclient.Config) { m.f(cfg) }

func newTCPPair(cszx, sszx blockwise.SZX, maxSize uint32) (*pairEnv, error) {
	e := &pairEnv{kind: "tcp", stop: make(chan struct{}), usedF: map[fault]int{}}
	csc, ssc := sim.NewScriptConn(), sim.NewScriptConn()
	mk := func(sc *sim.ScriptConn, szx blockwise.SZX, side string, h tcpclient.HandlerFunc) (*tcpclient.Conn, error) {
		return sim.NewTCPConn(sc, sim.TCPOpts{Handler: h, Errors: e.errf(side), Pool: pool.New(64, 2048),
			Extra: []tcp.Option{options.WithBlockwise(true, szx, 3*time.Second), options.WithMaxMessageSize(maxSize)}})
	}
	srv, err := mk(ssc, sszx, "srv", func(w *responsewriter.ResponseWriter[*tcpclient.Conn], r *pool.Message) {
		body, _ := r.ReadBody()
		e.serverLogic(r.Code(), r.Token(), r.Options(), body, func(code codes.Code, cf message.MediaType, b []byte, opts ...message.Option) {
			var rd io.ReadSeeker
			if b != nil {
				rd = bytes.NewReader(b)
			}
			_ = w.SetResponse(code, cf, rd, opts...)
		})
	})
	if err != nil {
		return nil, err
	}
	cli, err := mk(csc, cszx, "cli", nil)
	if err != nil {
		return nil, err
	}
	e.cli, e.srv = cli, srv
	// two go-coap stream endpoints never announce block-wise to each other: the relay does it
	csm := ref.EncodeTCP(ref.Msg{Code: 7<<5 | 1, Opts: []ref.Opt{{ID: 2, Val: ref.Uint(maxSize)}, {ID: 4, Val: nil}}})
	// (in effect before the first request is issued: sim.AnnounceBlockwise waits until each connection has processed it)
	sim.AnnounceBlockwise(csc, cli, csm)
	sim.AnnounceBlockwise(ssc, srv, csm)
	e.wg.Add(1)
	go func() {
		defer e.wg.Done()
		for {
			select {
			case <-e.stop:
				return
			default:
			}
			moved := false
			if b := csc.DrainWritten(); len(b) > 0 {
				ssc.Feed(b)
				e.units.Add(1)
				moved = true
				traceTCP(e, "c>s", b)
			}
			if b := ssc.DrainWritten(); len(b) > 0 {
				csc.Feed(b)
				e.units.Add(1)
				moved = true
				traceTCP(e, "s>c", b)
			}
			if !moved {
				time.Sleep(20 * time.Microsecond)
			}
		}
	}()
	// wait until both sides saw the block-wise CSM (consumed by their readers)
	csc.WaitConsumed(5 * time.Second)
	ssc.WaitConsumed(5 * time.Second)
	time.Sleep(300 * time.Microsecond)
	return e, nil
}

func (e *pairEnv) close() {
	_ = e.cli.Close()
	_ = e.srv.Close()
	close(e.stop)
	e.wg.Wait()
}

func traceTCP(e *pairEnv, dir string, b []byte) {
	ms, _ := ref.ParseTCPStream(b)
	for _, m := range ms {
		b1, _ := m.GetUint(27)
		b2, _ := m.GetUint(23)
		e.tracef("%s %d.%02d tok=%x b1=%#x b2=%#x pl=%d", dir, m.Code>>5, m.Code&31, m.Token, b1, b2, len(m.Payload))
	}
}
