package c04

import (
	"bytes"
	"context"
	"fmt"
	"math/rand"
	"time"

	"github.com/plgd-dev/go-coap/v3/message/pool"
	"github.com/plgd-dev/go-coap/v3/net/blockwise"
	tcpclient "github.com/plgd-dev/go-coap/v3/tcp/client"

	"verifharness/ref"
	"verifharness/sim"
	"verifharness/vr"
)

// etagRestart: a scripted server slices the resource itself and switches from representation A
// (ETag A) to representation B (ETag B) after serving k blocks. The client must end with an
// error, with exactly A, or with exactly B - never with a mixture or a zero-filled body.
func etagRestart(rec *vr.Rec, reps int, seed int64) {
	rnd := rand.New(rand.NewSource(seed))
	for rep := 0; rep < reps; rep++ {
		kind := []string{"udp", "tcp"}[rep%2]
		szx := rnd.Intn(3) // 16, 32, 64
		bs := 16 << uint(szx)
		nblocks := 3 + rnd.Intn(5)
		size := (nblocks-1)*bs + 1 + rnd.Intn(bs)
		switchAfter := 1 + rnd.Intn(nblocks-1)
		c := map[string]any{"scenario": "etag-change-mid-transfer", "transport": kind, "block_size": bs, "body_bytes": size, "switch_after_blocks": switchAfter}
		repA, repB := bodyOf(uint32(70000+rep*2), size), bodyOf(uint32(70001+rep*2), size)
		var inject func(m ref.Msg)
		var sent func() []ref.Msg
		var get func(ctx context.Context) ([]byte, error)
		var closef func()
		if kind == "udp" {
			s := sim.NewMemSession()
			cc := sim.NewUDPConn(s, sim.UDPOpts{Blockwise: true, SZX: blockwise.SZX(szx), Pool: pool.New(8, 2048)})
			inject = func(m ref.Msg) { _ = cc.Process(nil, ref.EncodeUDP(m)) }
			sent = func() []ref.Msg {
				var out []ref.Msg
				for _, d := range s.Log() {
					if m, err := ref.ParseUDP(d.Data); err == nil {
						out = append(out, m)
					}
				}
				return out
			}
			get = func(ctx context.Context) ([]byte, error) {
				m, err := cc.Get(ctx, "/etag")
				if err != nil {
					return nil, err
				}
				defer cc.ReleaseMessage(m)
				if m.Code()>>5 != 2 {
					return nil, fmt.Errorf("code %v", m.Code())
				}
				return m.ReadBody()
			}
			closef = func() { _ = cc.Close() }
		} else {
			sc := sim.NewScriptConn()
			cc, err := sim.NewTCPConn(sc, sim.TCPOpts{Mutate: func(cfg *tcpclient.Config) { cfg.BlockwiseSZX = blockwise.SZX(szx) }})
			if err != nil {
				continue
			}
			sim.AnnounceBlockwise(sc, cc, ref.EncodeTCP(ref.Msg{Code: 7<<5 | 1, Opts: []ref.Opt{{ID: 2, Val: ref.Uint(1152)}, {ID: 4, Val: nil}}}))
			inject = func(m ref.Msg) { sc.Feed(ref.EncodeTCP(m)) }
			sent = func() []ref.Msg { ms, _ := ref.ParseTCPStream(sc.Written()); return ms }
			get = func(ctx context.Context) ([]byte, error) {
				m, err := cc.Get(ctx, "/etag")
				if err != nil {
					return nil, err
				}
				defer cc.ReleaseMessage(m)
				if m.Code()>>5 != 2 {
					return nil, fmt.Errorf("code %v", m.Code())
				}
				return m.ReadBody()
			}
			closef = func() { _ = cc.Close() }
		}
		type res struct {
			b   []byte
			err error
		}
		done := make(chan res, 1)
		go func() {
			ctx, cancel := context.WithTimeout(context.Background(), 3*time.Second)
			defer cancel()
			b, err := get(ctx)
			done <- res{b, err}
		}()
		// scripted server
		served := 0
		seen := 0
		var r res
	loop:
		for {
			select {
			case r = <-done:
				break loop
			default:
			}
			msgs := sent()
			if seen == len(msgs) {
				time.Sleep(30 * time.Microsecond)
				continue
			}
			for ; seen < len(msgs); seen++ {
				m := msgs[seen]
				if m.Code != 1 || ref.PathOf(m) != "/etag" {
					continue
				}
				num := 0
				if v, ok := m.GetUint(23); ok {
					num = int(v >> 4)
				}
				body, tag := repA, byte('A')
				if served >= switchAfter {
					body, tag = repB, 'B'
				}
				served++
				lo := num * bs
				if lo > len(body) {
					lo = len(body)
				}
				hi := lo + bs
				more := true
				if hi >= len(body) {
					hi = len(body)
					more = false
				}
				bv := uint32(num<<4) | uint32(szx)
				if more {
					bv |= 8
				}
				resp := ref.Msg{Type: 2, Code: 0x45, MID: m.MID, Token: m.Token, Opts: []ref.Opt{{ID: 4, Val: []byte{tag}}, {ID: 23, Val: ref.Uint(bv)}}, Payload: body[lo:hi]}
				inject(resp)
			}
		}
		rec.Eval(fmt.Sprintf("etag|%s|%d|%d|%d", kind, bs, size, switchAfter))
		rec.Count("etag_change_transfers", 1)
		if r.err == nil && !bytes.Equal(r.b, repA) && !bytes.Equal(r.b, repB) {
			what := classify(r.b, repB, false)
			rec.Violation("C04/"+kind+"/response-body/etag-change-"+what, fmt.Sprintf("the representation changed (ETag A -> B) after %d of %d blocks; the caller received %d bytes that are neither representation A nor B (first 8 bytes %x)", switchAfter, nblocks, len(r.b), head(r.b)), c)
		}
		if r.err == nil {
			rec.Count("etag_change_transfers_completed_exact", 1)
		}
		closef()
	}
}

func head(b []byte) []byte {
	if len(b) > 8 {
		return b[:8]
	}
	return b
}
