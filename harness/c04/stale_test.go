package c04

import (
	"bytes"
	"context"
	"fmt"
	"time"

	"github.com/plgd-dev/go-coap/v3/message/pool"
	"github.com/plgd-dev/go-coap/v3/net/blockwise"
	tcpclient "github.com/plgd-dev/go-coap/v3/tcp/client"

	"verifharness/ref"
	"verifharness/sim"
	"verifharness/vr"
)

// abandonedThenReused: a block-wise download is given up by its caller in the middle (the request's deadline passes, or
// its context is cancelled) because the peer stalls after some blocks. The application then issues the next request
// under the same token - applications that manage their own tokens do that; the first exchange is over as far as the
// caller can know. Whatever the second call returns as a complete body must be exactly what the peer served for the
// SECOND request: blocks of the abandoned response are not part of it.
func abandonedThenReused(rec *vr.Rec, reps int) {
	for rep := 0; rep < reps; rep++ {
		kind := []string{"udp", "tcp"}[rep%2]
		ending := []string{"deadline-300ms", "cancel", "deadline-50ms"}[(rep/2)%3]
		stallAfter := 1 + rep%3 // blocks of the first response that are served
		const szx, bs = 0, 16
		bodyA := bytes.Repeat([]byte{'a'}, 16*6)
		bodyB := bodyOf(uint32(98000+rep), 16*4+5)
		c := map[string]any{"scenario": "download abandoned after some blocks, token re-used by the next request", "transport": kind, "first_request_ends_by": ending, "blocks_served_before_the_stall": stallAfter}
		var inject func(m ref.Msg)
		var sent func() []ref.Msg
		var do func(ctx context.Context, path string, tok []byte) ([]byte, error)
		var closef func()
		if kind == "udp" {
			s := sim.NewMemSession()
			cc := sim.NewUDPConn(s, sim.UDPOpts{Blockwise: true, SZX: blockwise.SZX(szx), BWTimeout: 3 * time.Second, Pool: pool.New(8, 2048)})
			inject = func(m ref.Msg) { _ = cc.Process(nil, ref.EncodeUDP(m)) }
			sent = func() []ref.Msg {
				var out []ref.Msg
				for _, d := range s.Log() {
					if m, err := ref.ParseUDP(d.Data); err == nil {
						out = append(out, m)
					}
				}
				return out
			}
			do = func(ctx context.Context, path string, tok []byte) ([]byte, error) {
				req := cc.AcquireMessage(ctx)
				defer cc.ReleaseMessage(req)
				_ = req.SetupGet(path, tok)
				resp, err := cc.Do(req)
				if err != nil {
					return nil, err
				}
				defer cc.ReleaseMessage(resp)
				if resp.Code()>>5 != 2 {
					return nil, fmt.Errorf("code %v", resp.Code())
				}
				return resp.ReadBody()
			}
			closef = func() { _ = cc.Close() }
		} else {
			sc := sim.NewScriptConn()
			cc, err := sim.NewTCPConn(sc, sim.TCPOpts{Pool: pool.New(8, 2048), Mutate: func(cfg *tcpclient.Config) {
				cfg.BlockwiseSZX = blockwise.SZX(szx)
				cfg.BlockwiseTransferTimeout = 3 * time.Second
			}})
			if err != nil {
				continue
			}
			sim.AnnounceBlockwise(sc, cc, ref.EncodeTCP(ref.Msg{Code: 7<<5 | 1, Opts: []ref.Opt{{ID: 2, Val: ref.Uint(1152)}, {ID: 4, Val: nil}}}))
			inject = func(m ref.Msg) { sc.Feed(ref.EncodeTCP(m)) }
			sent = func() []ref.Msg { ms, _ := ref.ParseTCPStream(sc.Written()); return ms }
			do = func(ctx context.Context, path string, tok []byte) ([]byte, error) {
				req := cc.AcquireMessage(ctx)
				defer cc.ReleaseMessage(req)
				_ = req.SetupGet(path, tok)
				resp, err := cc.Do(req)
				if err != nil {
					return nil, err
				}
				defer cc.ReleaseMessage(resp)
				if resp.Code()>>5 != 2 {
					return nil, fmt.Errorf("code %v", resp.Code())
				}
				return resp.ReadBody()
			}
			closef = func() { _ = cc.Close() }
		}
		// peer: serves /a up to stallAfter blocks and then goes silent for /a; serves /b completely
		stop := make(chan struct{})
		peerDone := make(chan struct{})
		go func() {
			defer close(peerDone)
			seen := 0
			for {
				select {
				case <-stop:
					return
				default:
				}
				ms := sent()
				for ; seen < len(ms); seen++ {
					m := ms[seen]
					if m.Code != 1 {
						continue
					}
					body := bodyB
					isA := ref.PathOf(m) == "/a"
					if isA {
						body = bodyA
					}
					num := 0
					if v, ok := m.GetUint(23); ok {
						num = int(v >> 4)
					}
					if isA && num >= stallAfter {
						continue
					}
					lo := num * bs
					if lo > len(body) {
						lo = len(body)
					}
					hi := lo + bs
					more := true
					if hi >= len(body) {
						hi, more = len(body), false
					}
					bv := uint32(num<<4) | szx
					if more {
						bv |= 8
					}
					inject(ref.Msg{Type: 2, Code: 0x45, MID: m.MID, Token: m.Token, Opts: []ref.Opt{{ID: 23, Val: ref.Uint(bv)}}, Payload: body[lo:hi]})
				}
				time.Sleep(50 * time.Microsecond)
			}
		}()
		tok := []byte{0x5a, byte(rep), 0x7e}
		var ctx context.Context
		var cancel context.CancelFunc
		switch ending {
		case "cancel":
			ctx, cancel = context.WithCancel(context.Background())
			go func() { time.Sleep(120 * time.Millisecond); cancel() }()
		case "deadline-50ms":
			ctx, cancel = context.WithTimeout(context.Background(), 50*time.Millisecond)
		default:
			ctx, cancel = context.WithTimeout(context.Background(), 300*time.Millisecond)
		}
		_, errA := do(ctx, "/a", tok)
		cancel()
		rec.Eval(fmt.Sprintf("abandoned-then-reused|%s|%s|%d", kind, ending, stallAfter))
		rec.Count("abandoned_then_reused_cases", 1)
		if errA == nil {
			rec.Violation("C04/"+kind+"/abandoned-download/first-call-succeeded", "the peer never served the whole body of the first request, yet the call returned no error", c)
		} else {
			ctx2, cancel2 := context.WithTimeout(context.Background(), 5*time.Second)
			b, errB := do(ctx2, "/b", tok)
			cancel2()
			switch {
			case errB != nil:
				rec.Count("reused_token_requests_failed_with_error", 1)
			case !bytes.Equal(b, bodyB):
				stale := 0
				for _, x := range b {
					if x == 'a' {
						stale++
					}
				}
				rec.Violation("C04/"+kind+"/abandoned-download/"+classify(b, bodyB, false), fmt.Sprintf("the first request (token %x) was given up (%v) after %d block(s); the next request under that token returned %d bytes as a complete body, %d of them from the abandoned response; the peer served %d bytes for it", tok, errA, stallAfter, len(b), stale, len(bodyB)), c)
			default:
				rec.Count("reused_token_requests_exact", 1)
			}
		}
		close(stop)
		<-peerDone
		closef()
	}
}

var _ = vr.Seed
