package c04

import (
	"bytes"
	"context"
	"fmt"
	"time"

	"github.com/plgd-dev/go-coap/v3/message/pool"
	"github.com/plgd-dev/go-coap/v3/net/blockwise"
	tcpclient "github.com/plgd-dev/go-coap/v3/tcp/client"

	"verifharness/ref"
	"verifharness/sim"
	"verifharness/vr"
)

// abandonedThenReused: a block-wise download is given up by its caller in the middle (the request's deadline passes, or
// its context is cancelled) because the peer stalls after some blocks. The application then issues the next request
// under the same token - applications that manage their own tokens do that; the first exchange is over as far as the
// caller can know. Whatever the second call returns as a complete body must be exactly what the peer served for the
// SECOND request: blocks of the abandoned response are not part of it.
func abandonedThenReused(rec *vr.Rec, reps int) {
	for rep := 0; rep < reps; rep++ {
		kind := []string{"udp", "tcp"}[rep%2]
		ending := []string{"deadline-300ms", "cancel", "deadline-50ms"}[(rep/2)%3]
		stallAfter := 1 + rep%3 // blocks of the first response that are served
		const szx, bs = 0, 16
		bodyA := bytes.Repeat([]byte{'a'}, 16*6)
		bodyB := bodyOf(uint32(98000+rep), 16*4+5)
		c := map[string]any{"scenario": "download abandoned after some blocks, token re-used by the next request", "transport": kind, "first_request_ends_by": ending, "blocks_served_before_the_stall": stallAfter}
		var inject func(m ref.Msg)
		var sent func() []ref.Msg
		var do func(ctx context.Context, path string, tok []byte) ([]byte, error)
		var closef func()
		if kind == "udp" {
			s := sim.NewMemSession()
			cc := sim.NewUDPConn(s, sim.UDPOpts{Blockwise: true, SZX: blockwise.SZX(szx), BWTimeout: 3 * time.Second, Pool: pool.New(8, 2048)})
			inject = func(m ref.Msg) { _ = cc.Process(nil, ref.EncodeUDP(m)) }
			sent = func() []ref.Msg {
				var out []ref.Msg
				for _, d := range s.Log() {
					if m, err := ref.ParseUDP(d.Data); err == nil {
						out = append(out, m)
					}
				}
				return out
			}
			do = func(ctx context.Context, path string, tok []byte) ([]byte, error) {
				req := cc.AcquireMessage(ctx)
				defer cc.ReleaseMessage(req)
				_ = req.SetupGet(path, tok)
				resp, err := cc.Do(req)
				if err != nil {
					return nil, err
				}
				defer cc.ReleaseMessage(resp)
				if resp.Code()>>5 != 2 {
					return nil, fmt.Errorf("code %v", resp.Code())
				}
				return resp.ReadBody()
			}
			closef = func() { _ = cc.Close() }
		} else {
			sc := sim.NewScriptConn()
			cc, err := sim.NewTCPConn(sc, sim.TCPOpts{Pool: pool.New(8, 2048), Mutate: func(cfg *tcpclient.Config) {
				cfg.BlockwiseSZX = blockwise.SZX(szx)
				cfg.BlockwiseTransferTimeout = 3 * time.Second
			}})
			if err != nil {
				continue
			}
			sim.AnnounceBlockwise(sc, cc, ref.EncodeTCP(ref.Msg{Code: 7<<5 | 1, Opts: []ref.Opt{{ID: 2, Val: ref.Uint(1152)}, {ID: 4, Val: nil}}}))
			inject = func(m ref.Msg) { sc.Feed(ref.EncodeTCP(m)) }
			sent = func() []ref.Msg { ms, _ := ref.ParseTCPStream(sc.Written()); return ms }
			do = func(ctx context.Context, path string, tok []byte) ([]byte, error) {
				req := cc.AcquireMessage(ctx)
				defer cc.ReleaseMessage(req)
				_ = req.SetupGet(path, tok)
				resp, err := cc.Do(req)
				if err != nil {
					return nil, err
				}
				defer cc.ReleaseMessage(resp)
				if resp.Code()>>5 != 2 {
					return nil, fmt.Errorf("code %v", resp.Code())
				}
				return resp.ReadBody()
			}
			closef = func() { _ = cc.Close() }
		}
		// peer: serves /a up to stallAfter blocks and then goes silent for /a; serves /b completely
		stop := make(chan struct{})
		peerDone := make(chan struct{})
		go func() {
			defer close(peerDone)
			seen := 0
			for {
				select {
				case <-stop:
					return
				default:
				}
				ms := sent()
				for ; seen < len(ms); seen++ {
					m := ms[seen]
					if m.Code != 1 {
						continue
					}
					body := bodyB
					isA := ref.PathOf(m) == "/a"
					if isA {
						body = bodyA
					}
					num := 0
					if v, ok := m.GetUint(23); ok {
						num = int(v >> 4)
					}
					if isA && num >= stallAfter {
						continue
					}
					lo := num * bs
					if lo > len(body) {
						lo = len(body)
					}
					hi := lo + bs
					more := true
					if hi >= len(body) {
						hi, more = len(body), false
					}
					bv := uint32(num<<4) | szx
					if more {
						bv |= 8
					}
					inject(ref.Msg{Type: 2, Code: 0x45, MID: m.MID, Token: m.Token, Opts: []ref.Opt{{ID: 23, Val: ref.Uint(bv)}}, Payload: body[lo:hi]})
				}
				time.Sleep(50 * time.Microsecond)
			}
		}()
		tok := []byte{0x5a, byte(rep), 0x7e}
		var ctx context.Context
		var cancel context.CancelFunc
		switch ending {
		case "cancel":
			ctx, cancel = context.WithCancel(context.Background())
			go func() { time.Sleep(120 * time.Millisecond); cancel() }()
		case "deadline-50ms":
			ctx, cancel = context.WithTimeout(context.Background(), 50*time.Millisecond)
		default:
			ctx, cancel = context.WithTimeout(context.Background(), 300*time.Millisecond)
		}
		_, errA := do(ctx, "/a", tok)
		cancel()
		rec.Eval(fmt.Sprintf("abandoned-then-reused|%s|%s|%d", kind, ending, stallAfter))
		rec.Count("abandoned_then_reused_cases", 1)
		if errA == nil {
			rec.Violation("C04/"+kind+"/abandoned-download/first-call-succeeded", "the peer never served the whole body of the first request, yet the call returned no error", c)
		} else {
			ctx2, cancel2 := context.WithTimeout(context.Background(), 5*time.Second)
			b, errB := do(ctx2, "/b", tok)
			cancel2()
			switch {
			case errB != nil:
				rec.Count("reused_token_requests_failed_with_error", 1)
			case !bytes.Equal(b, bodyB):
				stale := 0
				for _, x := range b {
					if x == 'a' {
						stale++
					}
				}
				rec.Violation("C04/"+kind+"/abandoned-download/"+classify(b, bodyB, false), fmt.Sprintf("the first request (token %x) was given up (%v) after %d block(s); the next request under that token returned %d bytes as a complete body, %d of them from the abandoned response; the peer served %d bytes for it", tok, errA, stallAfter, len(b), stale, len(bodyB)), c)
			default:
				rec.Count("reused_token_requests_exact", 1)
			}
		}
		close(stop)
		<-peerDone
		closef()
	}
}

var _ = vr.Seed

// uploadToForeignServer: the connection uploads (POST/PUT with Block1) to a server that follows RFC 7959 2.3 to the
// letter: every response to a block carries the Block1 option of that block - the 2.31 for the intermediate ones AND the
// final 2.04 (NUM of the last block, M=0). The final response is the result of the call: it returns 2.04, the server
// holds exactly the uploaded bytes, and no block is sent once the body is complete.
func uploadToForeignServer(rec *vr.Rec, reps int) {
	for rep := 0; rep < reps; rep++ {
		kind := []string{"udp", "tcp"}[rep%2]
		echoFinal := (rep/2)%3 != 2
		szx := rep % 3
		bs := 16 << uint(szx)
		size := []int{bs*3 + 4, bs * 3, bs + 1, bs * 6}[(rep/6)%4]
		body := bodyOf(uint32(99000+rep), size)
		c := map[string]any{"scenario": "upload to a server that echoes Block1 in every response", "transport": kind, "block_size": bs, "body_bytes": size, "final_response_carries_block1": echoFinal}
		var inject func(m ref.Msg)
		var sent func() []ref.Msg
		var post func(ctx context.Context) (uint8, error)
		var closef func()
		if kind == "udp" {
			s := sim.NewMemSession()
			cc := sim.NewUDPConn(s, sim.UDPOpts{Blockwise: true, SZX: blockwise.SZX(szx), BWTimeout: 3 * time.Second, Pool: pool.New(8, 2048)})
			inject = func(m ref.Msg) { _ = cc.Process(nil, ref.EncodeUDP(m)) }
			sent = func() []ref.Msg {
				var out []ref.Msg
				for _, d := range s.Log() {
					if m, err := ref.ParseUDP(d.Data); err == nil {
						out = append(out, m)
					}
				}
				return out
			}
			post = func(ctx context.Context) (uint8, error) {
				m, err := cc.Post(ctx, "/up", 42, bytes.NewReader(body))
				if err != nil {
					return 0, err
				}
				defer cc.ReleaseMessage(m)
				return uint8(m.Code()), nil
			}
			closef = func() { _ = cc.Close() }
		} else {
			sc := sim.NewScriptConn()
			cc, err := sim.NewTCPConn(sc, sim.TCPOpts{Pool: pool.New(8, 2048), Mutate: func(cfg *tcpclient.Config) {
				cfg.BlockwiseSZX = blockwise.SZX(szx)
			}})
			if err != nil {
				continue
			}
			sim.AnnounceBlockwise(sc, cc, ref.EncodeTCP(ref.Msg{Code: 7<<5 | 1, Opts: []ref.Opt{{ID: 2, Val: ref.Uint(1152)}, {ID: 4, Val: nil}}}))
			inject = func(m ref.Msg) { sc.Feed(ref.EncodeTCP(m)) }
			sent = func() []ref.Msg { ms, _ := ref.ParseTCPStream(sc.Written()); return ms }
			post = func(ctx context.Context) (uint8, error) {
				m, err := cc.Post(ctx, "/up", 42, bytes.NewReader(body))
				if err != nil {
					return 0, err
				}
				defer cc.ReleaseMessage(m)
				return uint8(m.Code()), nil
			}
			closef = func() { _ = cc.Close() }
		}
		stop := make(chan struct{})
		peerDone := make(chan struct{})
		var assembled []byte
		complete, afterEnd := false, 0
		go func() {
			defer close(peerDone)
			seen := 0
			for {
				select {
				case <-stop:
					return
				default:
				}
				ms := sent()
				for ; seen < len(ms); seen++ {
					m := ms[seen]
					if m.Code != 2 {
						continue
					}
					v, has := m.GetUint(27)
					if !has {
						// not sliced at all
						assembled = append(assembled[:0], m.Payload...)
						complete = true
						inject(ref.Msg{Type: 2, Code: 0x44, MID: m.MID, Token: m.Token})
						continue
					}
					if complete {
						afterEnd++
						inject(ref.Msg{Type: 2, Code: 0x88, MID: m.MID, Token: m.Token}) // 4.08
						continue
					}
					num, more := int(v>>4), v&8 != 0
					if num*(16<<uint(v&7)) == len(assembled) {
						assembled = append(assembled, m.Payload...)
					}
					echo := []ref.Opt{{ID: 27, Val: ref.Uint(v)}}
					if more {
						inject(ref.Msg{Type: 2, Code: 0x5f, MID: m.MID, Token: m.Token, Opts: echo})
					} else {
						complete = true
						if !echoFinal {
							echo = nil
						}
						inject(ref.Msg{Type: 2, Code: 0x44, MID: m.MID, Token: m.Token, Opts: echo})
					}
				}
				time.Sleep(50 * time.Microsecond)
			}
		}()
		ctx, cancel := context.WithTimeout(context.Background(), 4*time.Second)
		code, err := post(ctx)
		cancel()
		time.Sleep(300 * time.Microsecond)
		close(stop)
		<-peerDone
		rec.Eval(fmt.Sprintf("upload-foreign|%s|%d|%d|%v", kind, bs, size, echoFinal))
		rec.Count("uploads_to_a_foreign_server", 1)
		switch {
		case err != nil:
			rec.Violation("C04/"+kind+"/upload-to-foreign-server/call-failed", fmt.Sprintf("the server received the whole body (%v, %d of %d bytes) and answered 2.04; the call returned %v", complete, len(assembled), size, err), c)
		case code != 0x44:
			rec.Violation("C04/"+kind+"/upload-to-foreign-server/wrong-final-response", fmt.Sprintf("the call returned %d.%02d; the server's answer to the complete upload was 2.04 (blocks sent after the end: %d)", code>>5, code&31, afterEnd), c)
		case !bytes.Equal(assembled, body):
			rec.Violation("C04/"+kind+"/upload-to-foreign-server/"+classify(assembled, body, false), fmt.Sprintf("server assembled %d bytes, uploaded %d", len(assembled), size), c)
		case afterEnd > 0:
			rec.Violation("C04/"+kind+"/upload-to-foreign-server/blocks-after-the-end", fmt.Sprintf("%d block(s) were sent after the final one had been answered", afterEnd), c)
		default:
			rec.Count("uploads_to_a_foreign_server_exact", 1)
		}
		closef()
	}
}
