// C20 — No-Response suppression follows RFC 7967 for every value and code.
//
// Monitors: (1) exhaustive differential check of IsNoResponseCode and
// ResponseWriter.SetResponse against the class rule; (2) wire observation on a real
// udp connection (in-memory session; CON and NON requests) and a real tcp connection
// (scripted net.Conn): what the connection emits for a request carrying the option.
package c20

import (
	"bytes"
	"context"
	"encoding/binary"
	"fmt"
	"math/rand"
	"sync"
	"sync/atomic"
	"testing"
	"time"

	dtlsserver "github.com/plgd-dev/go-coap/v3/dtls/server"
	"github.com/plgd-dev/go-coap/v3/message"
	"github.com/plgd-dev/go-coap/v3/message/codes"
	"github.com/plgd-dev/go-coap/v3/message/noresponse"
	"github.com/plgd-dev/go-coap/v3/message/pool"
	"github.com/plgd-dev/go-coap/v3/mux"
	"github.com/plgd-dev/go-coap/v3/net/responsewriter"
	tcpclient "github.com/plgd-dev/go-coap/v3/tcp/client"
	tcpserver "github.com/plgd-dev/go-coap/v3/tcp/server"
	udpclient "github.com/plgd-dev/go-coap/v3/udp/client"
	udpserver "github.com/plgd-dev/go-coap/v3/udp/server"

	"verifharness/ref"
	"verifharness/sim"
	"verifharness/vr"
)

// RFC 7967 §2.1: bit value 2 -> 2.xx, 8 -> 4.xx, 16 -> 5.xx not of interest.
func suppressed(v uint32, code uint8) bool {
	switch code >> 5 {
	case 2:
		return v&2 != 0
	case 4:
		return v&8 != 0
	case 5:
		return v&16 != 0
	}
	return false
}

type nopClient struct{}

func (nopClient) ReleaseMessage(*pool.Message) {}

func sig(kind string, v uint32, code uint8, sup bool) string {
	// signature by class and direction of the error, not by individual value
	dir := "accepted-though-suppressed"
	if !sup {
		dir = "refused-though-of-interest"
	}
	return fmt.Sprintf("C20/%s/%s/class%d", kind, dir, code>>5)
}

type e2eCase struct {
	V    uint32 `json:"no_response_value"`
	Code uint8  `json:"response_code"`
	Con  bool   `json:"confirmable"`
	Tr   string `json:"transport"`
	Env  int    `json:"option_environment"`
}

// nEnv option environments around the No-Response option: what else the request carries must not matter.
const nEnv = 8

var envNames = []string{"path+NR", "NR-alone", "path+NR+2049(above 258)", "path+query+content-format+NR+2050+65000", "if-match x2+uri-host+path x2+accept+size1+NR", "if-none-match+path+NR+2049+2053", "etag of 9 bytes (illegal length: skipped by the decoder)+path+NR", "path+size1 of 5 bytes (illegal length: skipped)+NR+2049"}

func envOpts(env int, v uint32) []ref.Opt {
	nr := ref.Opt{ID: 258, Val: ref.Uint(v)}
	path := ref.Opt{ID: 11, Val: []byte("x")}
	switch env % nEnv {
	case 1:
		return []ref.Opt{nr}
	case 2:
		return []ref.Opt{path, nr, {ID: 2049, Val: []byte{8, 0}}}
	case 3:
		return []ref.Opt{path, {ID: 12, Val: nil}, {ID: 15, Val: []byte("a=b")}, nr, {ID: 2050, Val: []byte("zz")}, {ID: 65000, Val: []byte{1, 2, 3}}}
	case 4:
		// (a No-Response value longer than one byte is outside the option's defined length and is, correctly, ignored as an
		// unrecognised elective option — so no padded encoding here)
		return []ref.Opt{{ID: 1, Val: []byte{1}}, {ID: 1, Val: []byte{2}}, {ID: 3, Val: []byte("h")}, path, path, {ID: 17, Val: nil}, {ID: 60, Val: []byte{9}}, nr}
	case 5:
		return []ref.Opt{{ID: 5, Val: nil}, path, nr, {ID: 2049, Val: []byte{8, 0}}, {ID: 2053, Val: []byte{8, 0}}}
	case 6:
		// an elective option whose value length is outside its definition is skipped by the receiver (RFC 7252 5.4.3): the
		// options behind it are still the options they are
		return []ref.Opt{{ID: 4, Val: []byte{1, 2, 3, 4, 5, 6, 7, 8, 9}}, path, nr}
	case 7:
		return []ref.Opt{path, {ID: 60, Val: []byte{1, 2, 3, 4, 5}}, nr, {ID: 2049, Val: []byte{8, 0}}}
	}
	return []ref.Opt{path, nr}
}

func TestRun(t *testing.T) {
	rec := vr.New("C20", "exhaustive: 32 No-Response values x 256 response codes (+ PRNG 32-bit values x 256 codes) on IsNoResponseCode and ResponseWriter.SetResponse; wire: every (value 0..31 plus PRNG values 32..255, code 0..255) x {CON,NON} x request methods GET/POST/PUT/DELETE/FETCH/PATCH/iPATCH on a real udp connection and on a real tcp connection, emitted datagrams/frames inspected (every eighth handler hijacks and releases the request before it answers); every request in one of 8 option environments (No-Response alone, with lower options, with options numbered above 258 such as 2049/2053/65000, behind many lower options, behind an option the decoder skips for its illegal length); the library's own 4.04 generators (mux router default handler, default handlers of the udp/dtls/tcp client and server configurations) for every value. Distinct = (kind,value,code[,type]) visited once by construction.")
	defer rec.Flush(true)
	seed := vr.Seed()
	rnd := rand.New(rand.NewSource(seed))

	// ---------- (1) pure functions
	values := make([]uint32, 0, 64)
	for v := uint32(0); v < 32; v++ {
		values = append(values, v)
	}
	for i := 0; i < vr.Scale(64, 4096); i++ {
		values = append(values, rnd.Uint32()|32<<uint(rnd.Intn(26)))
	}
	values = append(values, 0xffffffff, 0xffffffe5, 1<<31, 255, 128+26)
	for _, v := range values {
		for c := 0; c < 256; c++ {
			code := uint8(c)
			want := suppressed(v, code)
			err := noresponse.IsNoResponseCode(codes.Code(code), v)
			if (err != nil) != want {
				rec.Violation(sig("IsNoResponseCode", v, code, want), fmt.Sprintf("IsNoResponseCode(code=%d.%02d, value=%d) = %v, rule says suppressed=%v", code>>5, code&31, v, err, want), map[string]any{"value": v, "code": code})
			}
			// through the response writer
			if v <= 255 {
				for env := 0; env < nEnv; env++ {
					var opts message.Options
					for _, o := range envOpts(env, v) {
						opts = append(opts, message.Option{ID: message.OptionID(o.ID), Value: o.Val})
					}
					resp := pool.NewMessage(context.Background())
					w := responsewriter.New[nopClient](resp, nopClient{}, opts...)
					var ropts []message.Option
					if env%2 == 1 {
						ropts = []message.Option{{ID: message.ETag, Value: []byte{0xca, 0xfe}}}
					}
					err := w.SetResponse(codes.Code(code), message.TextPlain, bytes.NewReader([]byte("x")), ropts...)
					if (err != nil) != want {
						rec.Violation(sig("SetResponse", v, code, want), fmt.Sprintf("SetResponse(code=%d.%02d) with request No-Response=%d (request options: %s) returned %v, rule says suppressed=%v", code>>5, code&31, v, envNames[env], err, want), map[string]any{"value": v, "code": code, "env": envNames[env]})
					}
					if err != nil && resp.IsModified() {
						rec.Violation("C20/SetResponse/refused-but-message-modified", fmt.Sprintf("code=%d value=%d response options passed=%d", code, v, len(ropts)), nil)
					}
					rec.Count("setresponse_calls", 1)
				}
			}
			rec.Count("isnoresponsecode_calls", 1)
		}
	}
	rec.EvalN(int64(len(values))*256, "")
	rec.DistinctAdd(int64(len(values)) * 256)
	// without the option nothing is suppressed
	for c := 0; c < 256; c++ {
		resp := pool.NewMessage(context.Background())
		w := responsewriter.New[nopClient](resp, nopClient{})
		if err := w.SetResponse(codes.Code(c), message.TextPlain, nil); err != nil {
			rec.Violation("C20/SetResponse/refused-without-option", fmt.Sprintf("code=%d: %v", c, err), c)
		}
		rec.Eval(fmt.Sprintf("noopt-%d", c))
	}

	// ---------- (2) wire
	wireValues := make([]uint32, 0, 40)
	for v := uint32(0); v < 32; v++ {
		wireValues = append(wireValues, v)
	}
	for i := 0; i < vr.Scale(6, 64); i++ {
		wireValues = append(wireValues, 32+uint32(rnd.Intn(224)))
	}
	var cases []e2eCase
	for _, v := range wireValues {
		for c := 0; c < 256; c++ {
			// quick: one option environment per (value, code, type, transport), rotating; thorough: all of them for the values 0..31
			envs := []int{len(cases) / 3 % nEnv}
			if vr.Thorough() && v < 32 {
				envs = []int{0, 1, 2, 3, 4, 5}
			}
			for _, e := range envs {
				cases = append(cases, e2eCase{v, uint8(c), true, "udp", e}, e2eCase{v, uint8(c), false, "udp", (e + 1) % nEnv}, e2eCase{v, uint8(c), false, "tcp", (e + 2) % nEnv})
			}
		}
	}
	rnd.Shuffle(len(cases), func(i, j int) { cases[i], cases[j] = cases[j], cases[i] })
	runUDP(rec, filter(cases, "udp"))
	runTCP(rec, filter(cases, "tcp"))
	runLibraryHandlers(rec, wireValues)
	runBlockwiseUploads(rec, []uint32{0xffffffff, 0, 2, 8, 16, 10, 18, 24, 26, 127})
	optionlessAfterNoResponse(rec)
	rec.Count("handlers_that_took_the_request_over_and_released_it", ownedHandlers.Load())
	rec.SetExhaustive(true)
	rec.Sample(cases[0])
	rec.Sample(cases[1])
	rec.Sample(map[string]any{"pure": "IsNoResponseCode(4.29, 8) must be refused; (2.31, 2) refused; (2.05, 8) accepted"})
	rec.Assume("the class rule (code>>5 in {2,4,5} against bits 2/8/16) is a faithful reading of RFC 7967 section 2.1")
}

// reqMethod: the request method rotates over all seven methods (RFC 7252 GET/POST/PUT/DELETE and RFC 8132
// FETCH/PATCH/iPATCH): No-Response is a property of the request, whatever its method.
func reqMethod(i int) uint8 { return []uint8{2, 5, 3, 6, 4, 7, 1}[i%7] }

func filter(cs []e2eCase, tr string) []e2eCase {
	var out []e2eCase
	for _, c := range cs {
		if c.Tr == tr {
			out = append(out, c)
		}
	}
	return out
}

type hres struct {
	err  error
	runs int
}

var ownedHandlers atomic.Int64

func tokenOf(i int) []byte {
	b := make([]byte, 4)
	binary.BigEndian.PutUint32(b, uint32(i)|0x80000000)
	return b
}

func runUDP(rec *vr.Rec, cases []e2eCase) {
	const batch = 8192
	for off := 0; off < len(cases); off += batch {
		end := off + batch
		if end > len(cases) {
			end = len(cases)
		}
		part := cases[off:end]
		var mu sync.Mutex
		results := map[uint32]*hres{}
		s := sim.NewMemSession()
		// keep the connection's own message IDs (40000..) away from the request MIDs used below (1..8192)
		cc := sim.NewUDPConn(s, sim.UDPOpts{Mutate: func(cfg *udpclient.Config) { cfg.GetMID = func() int32 { return 40000 + 0xffff/2 } }, Handler: func(w *responsewriter.ResponseWriter[*udpclient.Conn], r *pool.Message) {
			b, _ := r.ReadBody()
			if len(b) != 1 || len(r.Token()) != 4 {
				return
			}
			// every other handler passes response options of its own through SetResponse
			var ropts []message.Option
			if r.Token()[3]&1 == 1 {
				ropts = []message.Option{{ID: message.ETag, Value: []byte{0xca, 0xfe}}, {ID: message.MaxAge, Value: []byte{60}}}
			}
			k := binary.BigEndian.Uint32(r.Token())
			if r.Token()[3]&7 == 3 {
				// every eighth handler takes the request over and is done with it before it answers: whether the reply
				// is suppressed, and what a confirmable request gets instead, must not depend on the request object
				r.Hijack()
				w.Conn().ReleaseMessage(r)
				ownedHandlers.Add(1)
			}
			err := w.SetResponse(codes.Code(b[0]), message.TextPlain, bytes.NewReader([]byte("r")), ropts...)
			mu.Lock()
			if results[k] == nil {
				results[k] = &hres{}
			}
			results[k].err = err
			results[k].runs++
			mu.Unlock()
		}})
		var dups [][]byte
		for i, c := range part {
			typ := uint8(1)
			if c.Con {
				typ = 0
			}
			m := ref.Msg{Type: typ, Code: reqMethod(i), MID: uint16(i + 1), Token: tokenOf(i),
				Opts: envOpts(c.Env, c.V), Payload: []byte{c.Code}}
			if err := cc.Process(nil, ref.EncodeUDP(m)); err != nil {
				rec.Violation("C20/harness/process-error", err.Error(), c)
			}
			if c.Con && i%4 == 0 && c.Code != 0 {
				// (a handler "responding" with code 0.00 is not a response at all - left out here)
				// the peer retransmits this confirmable request (same message ID): whatever the first copy got - the
				// piggybacked response or, for a suppressed class, the bare ACK - the copy gets the same
				dups = append(dups, ref.EncodeUDP(m))
			}
		}
		for _, d := range dups {
			_ = cc.Process(nil, d)
		}
		// sentinel: a CON GET without the option; its reply marks the end of the batch
		sent := ref.Msg{Type: 0, Code: 1, MID: 65000, Token: []byte{0x7f, 1, 2, 3}, Payload: []byte{0x45}}
		_ = cc.Process(nil, ref.EncodeUDP(sent))
		ok := sim.WaitFor(60*time.Second, func() bool {
			for _, d := range s.Log() {
				if m, err := ref.ParseUDP(d.Data); err == nil && m.MID == 65000 {
					return true
				}
			}
			return false
		})
		if !ok {
			rec.Inconclusive("udp batch: sentinel reply not observed within the watchdog")
			cc.Close()
			continue
		}
		byMID := map[uint16][]ref.Msg{}
		byTok := map[uint32][]ref.Msg{}
		for _, d := range s.Log() {
			m, err := ref.ParseUDP(d.Data)
			if err != nil {
				rec.Violation("C20/wire/unparsable-datagram", fmt.Sprintf("%x: %v", d.Data, err), nil)
				continue
			}
			byMID[m.MID] = append(byMID[m.MID], m)
			if len(m.Token) == 4 {
				k := binary.BigEndian.Uint32(m.Token)
				byTok[k] = append(byTok[k], m)
			}
			rec.Count("udp_datagrams_observed", 1)
		}
		mu.Lock()
		for i, c := range part {
			k := binary.BigEndian.Uint32(tokenOf(i))
			sup := suppressed(c.V, c.Code)
			hr := results[k]
			rec.Eval("")
			rec.DistinctAdd(1)
			if hr == nil || hr.runs != 1 {
				rec.Violation("C20/wire/handler-not-run-once", fmt.Sprintf("udp case %+v: handler runs=%v", c, hr), c)
				continue
			}
			if (hr.err != nil) != sup {
				rec.Violation(sig("wire-SetResponse", c.V, c.Code, sup), fmt.Sprintf("udp case %+v: SetResponse in handler returned %v, rule suppressed=%v", c, hr.err, sup), c)
			}
			if c.Con {
				acks := byMID[uint16(i+1)]
				wantAcks := 1
				if i%4 == 0 && c.Code != 0 {
					wantAcks = 2
				}
				if len(acks) != wantAcks {
					rec.Violation("C20/wire/con-ack-count", fmt.Sprintf("udp case %+v: %d datagrams with the request MID, want %d", c, len(acks), wantAcks), c)
					continue
				}
				a := acks[0]
				if wantAcks == 2 {
					rec.Count("udp_con_retransmissions_checked", 1)
					b := acks[1]
					if b.Type != a.Type || b.Code != a.Code || !bytes.Equal(b.Token, a.Token) || !bytes.Equal(b.Payload, a.Payload) || len(b.Opts) != len(a.Opts) {
						rec.Violation("C20/wire/retransmission-answered-differently", fmt.Sprintf("udp case %+v: first copy got %v, the retransmitted copy got %v", c, a, b), c)
						continue
					}
				}
				if a.Type != 2 {
					rec.Violation("C20/wire/con-reply-not-ack", fmt.Sprintf("udp case %+v: reply %v", c, a), c)
				}
				if sup {
					rec.Count("udp_con_suppressed", 1)
					if a.Code != 0 || len(a.Token) != 0 || len(a.Payload) != 0 || len(a.Opts) != 0 {
						rec.Violation("C20/wire/suppressed-response-on-wire", fmt.Sprintf("udp case %+v: expected a bare ACK, got %v", c, a), c)
					}
				} else {
					rec.Count("udp_con_delivered", 1)
					if a.Code != c.Code || (c.Code != 0 && (!bytes.Equal(a.Token, tokenOf(i)) || string(a.Payload) != "r")) {
						rec.Violation("C20/wire/response-dropped-or-altered", fmt.Sprintf("udp case %+v: expected piggybacked response, got %v", c, a), c)
					}
				}
			} else {
				got := byTok[k]
				if sup {
					rec.Count("udp_non_suppressed", 1)
					if len(got) != 0 {
						rec.Violation("C20/wire/suppressed-response-on-wire", fmt.Sprintf("udp case %+v: got %v", c, got), c)
					}
				} else {
					rec.Count("udp_non_delivered", 1)
					if len(got) != 1 || got[0].Code != c.Code {
						rec.Violation("C20/wire/response-dropped-or-altered", fmt.Sprintf("udp case %+v: got %v", c, got), c)
					}
				}
			}
		}
		mu.Unlock()
		cc.Close()
	}
}

func runTCP(rec *vr.Rec, cases []e2eCase) {
	const batch = 8192
	for off := 0; off < len(cases); off += batch {
		end := off + batch
		if end > len(cases) {
			end = len(cases)
		}
		part := cases[off:end]
		var mu sync.Mutex
		results := map[uint32]*hres{}
		sc := sim.NewScriptConn()
		cc, err := sim.NewTCPConn(sc, sim.TCPOpts{Handler: func(w *responsewriter.ResponseWriter[*tcpclient.Conn], r *pool.Message) {
			b, _ := r.ReadBody()
			if len(b) != 1 || len(r.Token()) != 4 {
				return
			}
			// every other handler passes response options of its own through SetResponse
			var ropts []message.Option
			if r.Token()[3]&1 == 1 {
				ropts = []message.Option{{ID: message.ETag, Value: []byte{0xca, 0xfe}}, {ID: message.MaxAge, Value: []byte{60}}}
			}
			k := binary.BigEndian.Uint32(r.Token())
			if r.Token()[3]&7 == 3 {
				// every eighth handler takes the request over and is done with it before it answers: whether the reply
				// is suppressed, and what a confirmable request gets instead, must not depend on the request object
				r.Hijack()
				w.Conn().ReleaseMessage(r)
				ownedHandlers.Add(1)
			}
			err := w.SetResponse(codes.Code(b[0]), message.TextPlain, bytes.NewReader([]byte("r")), ropts...)
			mu.Lock()
			if results[k] == nil {
				results[k] = &hres{}
			}
			results[k].err = err
			results[k].runs++
			mu.Unlock()
		}})
		if err != nil {
			rec.Violation("C20/harness/tcp-client", err.Error(), nil)
			return
		}
		var stream []byte
		for i, c := range part {
			m := ref.Msg{Code: reqMethod(i), Token: tokenOf(i), Opts: envOpts(c.Env, c.V), Payload: []byte{c.Code}}
			stream = append(stream, ref.EncodeTCP(m)...)
		}
		stream = append(stream, ref.EncodeTCP(ref.Msg{Code: 1, Token: []byte{0x7f, 1, 2, 3}, Payload: []byte{0x45}})...)
		for len(stream) > 0 {
			n := 1500
			if n > len(stream) {
				n = len(stream)
			}
			sc.Feed(stream[:n])
			stream = stream[n:]
		}
		parse := func() ([]ref.Msg, bool) {
			ms, _ := ref.ParseTCPStream(sc.Written())
			for _, m := range ms {
				if bytes.Equal(m.Token, []byte{0x7f, 1, 2, 3}) {
					return ms, true
				}
			}
			return ms, false
		}
		ok := sim.WaitFor(60*time.Second, func() bool { _, ok := parse(); return ok })
		if !ok {
			rec.Inconclusive("tcp batch: sentinel reply not observed within the watchdog")
			cc.Close()
			continue
		}
		ms, _ := parse()
		byTok := map[uint32][]ref.Msg{}
		for _, m := range ms {
			if len(m.Token) == 4 {
				k := binary.BigEndian.Uint32(m.Token)
				byTok[k] = append(byTok[k], m)
			}
			rec.Count("tcp_frames_observed", 1)
		}
		mu.Lock()
		for i, c := range part {
			k := binary.BigEndian.Uint32(tokenOf(i))
			sup := suppressed(c.V, c.Code)
			hr := results[k]
			rec.Eval("")
			rec.DistinctAdd(1)
			if hr == nil || hr.runs != 1 {
				rec.Violation("C20/wire/handler-not-run-once", fmt.Sprintf("tcp case %+v: handler runs=%v", c, hr), c)
				continue
			}
			if (hr.err != nil) != sup {
				rec.Violation(sig("wire-SetResponse", c.V, c.Code, sup), fmt.Sprintf("tcp case %+v: SetResponse in handler returned %v, rule suppressed=%v", c, hr.err, sup), c)
			}
			got := byTok[k]
			if sup {
				rec.Count("tcp_suppressed", 1)
				if len(got) != 0 {
					rec.Violation("C20/wire/suppressed-response-on-wire", fmt.Sprintf("tcp case %+v: got %v", c, got), c)
				}
			} else {
				rec.Count("tcp_delivered", 1)
				if len(got) != 1 || got[0].Code != c.Code {
					rec.Violation("C20/wire/response-dropped-or-altered", fmt.Sprintf("tcp case %+v: got %v", c, got), c)
				}
			}
		}
		mu.Unlock()
		cc.Close()
	}
}

// runLibraryHandlers: the responses the library generates itself — the mux router's built-in "not found" handler and the
// default handlers of the client/server configurations (all 4.04) — are subject to the same rule: a request that marked
// 4.xx as not of interest gets nothing (CON: a bare ACK), any other request gets the 4.04.
func runLibraryHandlers(rec *vr.Rec, values []uint32) {
	router := mux.NewRouter()
	_ = router.Handle("/x", mux.HandlerFunc(func(w mux.ResponseWriter, r *mux.Message) {
		_ = w.SetResponse(codes.Content, message.TextPlain, bytes.NewReader([]byte("x")))
	}))
	udpHandlers := map[string]udpclient.HandlerFunc{
		"mux-default-not-found": mux.ToHandler[*udpclient.Conn](router),
		"udp-client-default":    udpclient.DefaultConfig.Handler,
		"udp-server-default":    udpserver.DefaultConfig.Handler,
		"dtls-server-default":   dtlsserver.DefaultConfig.Handler,
	}
	tcpHandlers := map[string]tcpclient.HandlerFunc{
		"mux-default-not-found": mux.ToHandler[*tcpclient.Conn](router),
		"tcp-client-default":    tcpclient.DefaultConfig.Handler,
		"tcp-server-default":    tcpserver.DefaultConfig.Handler,
	}
	type lc struct {
		V   uint32 `json:"no_response_value"`
		Con bool   `json:"confirmable"`
		Env int    `json:"option_environment"`
		H   string `json:"library_handler"`
		Tr  string `json:"transport"`
	}
	for name, h := range udpHandlers {
		s := sim.NewMemSession()
		cc := sim.NewUDPConn(s, sim.UDPOpts{Mutate: func(cfg *udpclient.Config) { cfg.GetMID = func() int32 { return 40000 + 0xffff/2 } }, Handler: h})
		var cases []lc
		for i, v := range values {
			for _, con := range []bool{true, false} {
				env := (i + len(cases)) % nEnv
				if env == 1 {
					env = 0 // the router needs a path; NR-alone would be "/" which is not found either, keep it simple
				}
				cases = append(cases, lc{v, con, env, name, "udp"})
			}
		}
		for i, c := range cases {
			typ := uint8(1)
			if c.Con {
				typ = 0
			}
			opts := envOpts(c.Env, c.V)
			for j := range opts {
				if opts[j].ID == 11 {
					opts[j].Val = []byte("nope")
				}
			}
			_ = cc.Process(nil, ref.EncodeUDP(ref.Msg{Type: typ, Code: 1, MID: uint16(i + 1), Token: tokenOf(i), Opts: opts}))
		}
		_ = cc.Process(nil, ref.EncodeUDP(ref.Msg{Type: 0, Code: 1, MID: 65000, Token: []byte{0x7f, 1, 2, 3}, Opts: []ref.Opt{{ID: 11, Val: []byte("nope")}}}))
		ok := sim.WaitFor(60*time.Second, func() bool {
			for _, d := range s.Log() {
				if m, err := ref.ParseUDP(d.Data); err == nil && m.MID == 65000 {
					return true
				}
			}
			return false
		})
		if !ok {
			rec.Inconclusive("library handlers (udp): sentinel reply not observed within the watchdog")
			cc.Close()
			continue
		}
		byMID := map[uint16][]ref.Msg{}
		byTok := map[uint32][]ref.Msg{}
		for _, d := range s.Log() {
			if m, err := ref.ParseUDP(d.Data); err == nil {
				byMID[m.MID] = append(byMID[m.MID], m)
				if len(m.Token) == 4 {
					byTok[binary.BigEndian.Uint32(m.Token)] = append(byTok[binary.BigEndian.Uint32(m.Token)], m)
				}
			}
		}
		for i, c := range cases {
			sup := suppressed(c.V, 0x84)
			rec.Eval(fmt.Sprintf("lib|udp|%s|%d|%v", name, c.V, c.Con))
			rec.Count("library_handler_cases", 1)
			if c.Con {
				acks := byMID[uint16(i+1)]
				if len(acks) != 1 || acks[0].Type != 2 {
					rec.Violation("C20/library-handler/con-ack-count", fmt.Sprintf("%+v: replies %v", c, acks), c)
					continue
				}
				if sup && (acks[0].Code != 0 || len(acks[0].Token) != 0) {
					rec.Violation("C20/library-handler/suppressed-response-on-wire", fmt.Sprintf("%+v: the library's own 4.04 was piggybacked although 4.xx is marked not of interest: %v", c, acks[0]), c)
				}
				if !sup && acks[0].Code != 0x84 {
					rec.Violation("C20/library-handler/response-dropped-or-altered", fmt.Sprintf("%+v: got %v", c, acks[0]), c)
				}
			} else {
				got := byTok[binary.BigEndian.Uint32(tokenOf(i))]
				if sup && len(got) != 0 {
					rec.Violation("C20/library-handler/suppressed-response-on-wire", fmt.Sprintf("%+v: the library's own 4.04 was sent although 4.xx is marked not of interest: %v", c, got), c)
				}
				if !sup && (len(got) != 1 || got[0].Code != 0x84) {
					rec.Violation("C20/library-handler/response-dropped-or-altered", fmt.Sprintf("%+v: got %v", c, got), c)
				}
			}
		}
		cc.Close()
	}
	for name, h := range tcpHandlers {
		sc := sim.NewScriptConn()
		cc, err := sim.NewTCPConn(sc, sim.TCPOpts{Handler: h})
		if err != nil {
			rec.Violation("C20/harness/tcp-client", err.Error(), nil)
			return
		}
		var cases []lc
		for i, v := range values {
			env := i % nEnv
			if env == 1 {
				env = 0
			}
			cases = append(cases, lc{v, false, env, name, "tcp"})
		}
		var stream []byte
		for i, c := range cases {
			opts := envOpts(c.Env, c.V)
			for j := range opts {
				if opts[j].ID == 11 {
					opts[j].Val = []byte("nope")
				}
			}
			stream = append(stream, ref.EncodeTCP(ref.Msg{Code: 1, Token: tokenOf(i), Opts: opts})...)
		}
		stream = append(stream, ref.EncodeTCP(ref.Msg{Code: 1, Token: []byte{0x7f, 1, 2, 3}, Opts: []ref.Opt{{ID: 11, Val: []byte("nope")}}})...)
		sc.Feed(stream)
		parse := func() ([]ref.Msg, bool) {
			ms, _ := ref.ParseTCPStream(sc.Written())
			for _, m := range ms {
				if bytes.Equal(m.Token, []byte{0x7f, 1, 2, 3}) {
					return ms, true
				}
			}
			return ms, false
		}
		if !sim.WaitFor(60*time.Second, func() bool { _, ok := parse(); return ok }) {
			rec.Inconclusive("library handlers (tcp): sentinel reply not observed within the watchdog")
			cc.Close()
			continue
		}
		ms, _ := parse()
		byTok := map[uint32][]ref.Msg{}
		for _, m := range ms {
			if len(m.Token) == 4 {
				byTok[binary.BigEndian.Uint32(m.Token)] = append(byTok[binary.BigEndian.Uint32(m.Token)], m)
			}
		}
		for i, c := range cases {
			sup := suppressed(c.V, 0x84)
			rec.Eval(fmt.Sprintf("lib|tcp|%s|%d", name, c.V))
			rec.Count("library_handler_cases", 1)
			got := byTok[binary.BigEndian.Uint32(tokenOf(i))]
			if sup && len(got) != 0 {
				rec.Violation("C20/library-handler/suppressed-response-on-wire", fmt.Sprintf("%+v: the library's own 4.04 was sent although 4.xx is marked not of interest: %v", c, got), c)
			}
			if !sup && (len(got) != 1 || got[0].Code != 0x84) {
				rec.Violation("C20/library-handler/response-dropped-or-altered", fmt.Sprintf("%+v: got %v", c, got), c)
			}
		}
		cc.Close()
	}
}
