package c20

import (
	"bytes"
	"fmt"
	"sync"
	"sync/atomic"
	"time"

	"github.com/plgd-dev/go-coap/v3/message"
	"github.com/plgd-dev/go-coap/v3/message/codes"
	"github.com/plgd-dev/go-coap/v3/message/pool"
	"github.com/plgd-dev/go-coap/v3/net/responsewriter"
	"github.com/plgd-dev/go-coap/v3/options/config"
	udpclient "github.com/plgd-dev/go-coap/v3/udp/client"

	"verifharness/ref"
	"verifharness/sim"
	"verifharness/vr"
)

// runBlockwiseUploads: the request reaches the handler through the block-wise layer (a POST/PUT uploaded in two Block1
// blocks, No-Response on every block). What the LAST block request gets on the wire must be what the same request in one
// message gets: the response if its class is not suppressed; otherwise nothing for a non-confirmable request and exactly
// the bare 4-byte acknowledgement for a confirmable one. Replies to the first block (2.31 Continue) are not judged.
func runBlockwiseUploads(rec *vr.Rec, values []uint32) {
	type bwCase struct {
		V    uint32 `json:"no_response"`
		Code uint8  `json:"handler_code"`
		Con  bool   `json:"confirmable"`
	}
	var cases []bwCase
	for _, v := range values {
		for _, code := range []uint8{0x44, 0x45, 0x84, 0xa0, 0x5f} {
			for _, con := range []bool{true, false} {
				cases = append(cases, bwCase{v, code, con})
			}
		}
	}
	var mu sync.Mutex
	var finished atomic.Int64
	runs := map[string]int{}
	s := sim.NewMemSession()
	cc := sim.NewUDPConn(s, sim.UDPOpts{Blockwise: true, SZX: 0, BWTimeout: 3 * time.Second,
		Mutate: func(cfg *udpclient.Config) {
			cfg.GetMID = func() int32 { return 40000 + 0xffff/2 }
			// completion of a queued message is observed, not timed: the reply to the first block is written by the receive
			// goroutine, and it must be on the wire before the window for the last block's replies opens
			cfg.ProcessReceivedMessage = func(req *pool.Message, c *udpclient.Conn, h config.HandlerFunc[*udpclient.Conn]) {
				c.ProcessReceivedMessageWithHandler(req, h)
				finished.Add(1)
			}
		},
		Handler: func(w *responsewriter.ResponseWriter[*udpclient.Conn], r *pool.Message) {
			b, _ := r.ReadBody()
			if len(b) != 32 {
				return
			}
			mu.Lock()
			runs[string(r.Token())]++
			mu.Unlock()
			_ = w.SetResponse(codes.Code(b[0]), message.TextPlain, bytes.NewReader([]byte("r")))
		}})
	defer cc.Close()
	for i, c := range cases {
		typ := uint8(1)
		if c.Con {
			typ = 0
		}
		tok := []byte{0xb1, byte(i >> 8), byte(i), 0x20}
		body := bytes.Repeat([]byte{c.Code}, 32)
		mid1, mid2 := uint16(2*i+1), uint16(2*i+2)
		opts := func(num int, more bool) []ref.Opt {
			bv := uint32(num << 4)
			if more {
				bv |= 8
			}
			o := []ref.Opt{{ID: 11, Val: []byte("bw")}, {ID: 27, Val: ref.Uint(bv)}}
			if c.V != 0xffffffff {
				o = append(o, ref.Opt{ID: 258, Val: ref.Uint(c.V)})
			}
			return o
		}
		f0 := finished.Load()
		_ = cc.Process(nil, ref.EncodeUDP(ref.Msg{Type: typ, Code: 2, MID: mid1, Token: tok, Opts: opts(0, true), Payload: body[:16]}))
		// the first block is answered (or, suppressed, not): the connection is done with it when the receive path has
		// processed it to the end
		sim.WaitFor(5*time.Second, func() bool { return finished.Load() > f0 })
		mark := len(s.Log())
		f1 := finished.Load()
		_ = cc.Process(nil, ref.EncodeUDP(ref.Msg{Type: typ, Code: 2, MID: mid2, Token: tok, Opts: opts(1, false), Payload: body[16:]}))
		sim.WaitFor(5*time.Second, func() bool { return finished.Load() > f1 })
		mu.Lock()
		ran := runs[string(tok)] >= 1
		mu.Unlock()
		sup := c.V != 0xffffffff && suppressed(c.V, c.Code) // 0xffffffff: the request carries no No-Response option
		rec.Eval(fmt.Sprintf("bw-upload|%d|%d|%v", c.V, c.Code, c.Con))
		rec.Count("blockwise_upload_cases", 1)
		mu.Lock()
		n := runs[string(tok)]
		mu.Unlock()
		if !ran || n != 1 {
			rec.Violation("C20/blockwise-upload/handler-not-run-once", fmt.Sprintf("case %+v: handler runs=%d", c, n), c)
			continue
		}
		var replies []ref.Msg
		for _, d := range s.Log()[mark:] {
			m, err := ref.ParseUDP(d.Data)
			if err != nil {
				rec.Violation("C20/wire/unparsable-datagram", fmt.Sprintf("%x: %v", d.Data, err), c)
				continue
			}
			if (c.Con && m.MID == mid2) || bytes.Equal(m.Token, tok) {
				replies = append(replies, m)
			}
		}
		switch {
		case sup && !c.Con:
			if len(replies) != 0 {
				rec.Violation("C20/blockwise-upload/non-suppressed-class-sent", fmt.Sprintf("case %+v: the handler's %d.%02d is suppressed by No-Response=%d, yet %d datagram(s) went out for the last block: %v", c, c.Code>>5, c.Code&31, c.V, len(replies), replies), c)
				continue
			}
		case sup && c.Con:
			if len(replies) != 1 || replies[0].Type != 2 || replies[0].Code != 0 || len(replies[0].Token) != 0 || len(replies[0].Opts) != 0 || len(replies[0].Payload) != 0 {
				rec.Violation("C20/blockwise-upload/con-suppressed-not-bare-ack", fmt.Sprintf("case %+v: a suppressed response to a confirmable request leaves exactly the bare acknowledgement; on the wire for the last block: %v", c, replies), c)
				continue
			}
		default:
			if len(replies) != 1 || replies[0].Code != c.Code || !bytes.Equal(replies[0].Token, tok) {
				rec.Violation("C20/blockwise-upload/response-missing-or-wrong", fmt.Sprintf("case %+v: not suppressed; on the wire for the last block: %v", c, replies), c)
				continue
			}
		}
		rec.Count("blockwise_upload_replies_as_for_single_message_requests", 1)
	}
}

// optionlessAfterNoResponse: No-Response is a property of ONE request. The next request on the same connection - here one
// that carries no options at all (a GET of the root resource) - is answered normally, whatever the previous one said.
func optionlessAfterNoResponse(rec *vr.Rec) {
	var mu sync.Mutex
	errs := map[string]error{}
	s := sim.NewMemSession()
	cc := sim.NewUDPConn(s, sim.UDPOpts{
		Mutate: func(cfg *udpclient.Config) { cfg.GetMID = func() int32 { return 40000 + 0xffff/2 } },
		Handler: func(w *responsewriter.ResponseWriter[*udpclient.Conn], r *pool.Message) {
			b, _ := r.ReadBody()
			if len(b) != 1 {
				return
			}
			err := w.SetResponse(codes.Code(b[0]), message.TextPlain, bytes.NewReader([]byte("r")))
			mu.Lock()
			errs[string(r.Token())] = err
			mu.Unlock()
		}})
	defer cc.Close()
	i := 0
	for _, v := range []uint32{2, 8, 16, 26, 10, 24} {
		for _, con := range []bool{true, false} {
			for _, code := range []uint8{0x45, 0x84, 0xa0} {
				i++
				typ := uint8(1)
				if con {
					typ = 0
				}
				c := map[string]any{"scenario": "request without any option right after a request with No-Response", "previous_no_response": v, "confirmable": con, "handler_code": code}
				tokA, tokB := []byte{0xa0, byte(i)}, []byte{0xb0, byte(i)}
				midA, midB := uint16(3000+2*i), uint16(3001+2*i)
				// A: every class suppressed that v names; the handler answers with a code of a suppressed class if there is one
				codeA := uint8(0x45)
				if v&2 == 0 {
					codeA = 0x84
					if v&8 == 0 {
						codeA = 0xa0
					}
				}
				before := len(s.Log())
				_ = cc.Process(nil, ref.EncodeUDP(ref.Msg{Type: 0, Code: 1, MID: midA, Token: tokA, Opts: []ref.Opt{{ID: 11, Val: []byte("a")}, {ID: 258, Val: ref.Uint(v)}}, Payload: []byte{codeA}}))
				sim.WaitFor(3*time.Second, func() bool { return len(s.Log()) > before })
				mark := len(s.Log())
				_ = cc.Process(nil, ref.EncodeUDP(ref.Msg{Type: typ, Code: 1, MID: midB, Token: tokB, Payload: []byte{code}}))
				sim.WaitFor(3*time.Second, func() bool {
					for _, d := range s.Log()[mark:] {
						if m, err := ref.ParseUDP(d.Data); err == nil && (m.MID == midB || bytes.Equal(m.Token, tokB)) {
							return true
						}
					}
					return false
				})
				time.Sleep(200 * time.Microsecond)
				rec.Eval(fmt.Sprintf("optionless-after-nr|%d|%v|%d", v, con, code))
				rec.Count("optionless_requests_after_no_response", 1)
				mu.Lock()
				errB, ran := errs[string(tokB)]
				mu.Unlock()
				var reply *ref.Msg
				for _, d := range s.Log()[mark:] {
					if m, err := ref.ParseUDP(d.Data); err == nil && bytes.Equal(m.Token, tokB) && m.Code == code {
						mm := m
						reply = &mm
					}
				}
				switch {
				case !ran:
					rec.Violation("C20/optionless-request/handler-not-run", "", c)
				case errB != nil:
					rec.Violation("C20/optionless-request/response-refused", fmt.Sprintf("the request carries no No-Response option (no option at all); SetResponse returned %v - the previous request on the connection had No-Response=%d", errB, v), c)
				case reply == nil:
					rec.Violation("C20/optionless-request/response-not-sent", fmt.Sprintf("no %d.%02d with the request's token went out", code>>5, code&31), c)
				default:
					rec.Count("optionless_requests_answered", 1)
				}
			}
		}
	}
}
