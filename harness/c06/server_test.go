package c06

import (
	"bytes"
	"context"
	"fmt"
	"net"
	"sync"
	"sync/atomic"
	"time"

	coapNet "github.com/plgd-dev/go-coap/v3/net"
	"github.com/plgd-dev/go-coap/v3/options"
	"github.com/plgd-dev/go-coap/v3/udp"
	udpclient "github.com/plgd-dev/go-coap/v3/udp/client"

	"verifharness/vr"
)

// serverSideConn: the retransmission parameters given to a udp SERVER (options.WithTransmission) must govern the
// connections that server creates for its peers, not only connections an application dials. A real udp server whose
// housekeeping tick is owned by the harness (options.WithPeriodicRunner, virtual `now`) sends one confirmable request to a
// raw peer from OnNewConn; the peer never acknowledges and counts byte-identical copies. Verdicts are logical: more than
// 1+MAX_RETRANSMIT copies at any time, or fewer after MAX_RETRANSMIT+6 housekeeping runs one virtual hour apart.
func serverSideConn(rec *vr.Rec, reps int) {
	for rep := 0; rep < reps; rep++ {
		maxRetransmit := []uint32{1, 6, 2, 0, 5, 3}[rep%6]
		c := map[string]any{"scenario": "confirmable request sent by a udp server over a connection it created; never acknowledged", "max_retransmit": maxRetransmit, "ack_timeout": "2s (virtual)"}
		l, err := coapNet.NewListenUDP("udp4", "127.0.0.1:0")
		if err != nil {
			rec.Inconclusive("server-side connection: " + err.Error())
			continue
		}
		var tick atomic.Value // func(time.Time) bool
		runner := func(f func(now time.Time) bool) { tick.Store(f) }
		ctx, cancel := context.WithCancel(context.Background())
		var wg sync.WaitGroup
		var once sync.Once
		var reqErr atomic.Value
		reqDone := make(chan struct{})
		s := udp.NewServer(
			options.WithTransmission(1, 2*time.Second, maxRetransmit),
			options.WithPeriodicRunner(runner),
			options.WithInactivityMonitor(100000*time.Hour, func(cc *udpclient.Conn) { _ = cc.Close() }), // the silent peer must not be dropped for inactivity by a tick in virtual time
			options.WithOnNewConn(func(cc *udpclient.Conn) {
				once.Do(func() {
					wg.Add(1)
					go func() {
						defer wg.Done()
						defer close(reqDone)
						if _, errG := cc.Get(ctx, "/c06"); errG != nil {
							reqErr.Store(errG.Error())
						}
					}()
				})
			}),
		)
		wg.Add(1)
		go func() {
			defer wg.Done()
			_ = s.Serve(l)
		}()
		peer, err := net.Dial("udp4", l.LocalAddr().String())
		if err != nil {
			rec.Inconclusive("server-side connection: " + err.Error())
			cancel()
			s.Stop()
			_ = l.Close()
			wg.Wait()
			continue
		}
		_, _ = peer.Write([]byte{0x50, 0x01, 0x12, 0x34}) // a non-confirmable GET announces the peer
		copies := 0
		var first []byte
		differs := false
		buf := make([]byte, 2048)
		read := func(d time.Duration) bool {
			_ = peer.SetReadDeadline(time.Now().Add(d))
			n, errR := peer.Read(buf)
			if errR != nil {
				return false
			}
			if n < 4 || (buf[0]>>4)&3 != 0 || buf[1] != 0x01 {
				return true // not a confirmable GET (the reply to the announcement)
			}
			if first == nil {
				first = append([]byte(nil), buf[:n]...)
			} else if !bytes.Equal(first, buf[:n]) {
				differs = true
			}
			copies++
			return true
		}
		for k := 0; k < 40 && copies == 0; k++ {
			read(250 * time.Millisecond)
		}
		if copies == 0 {
			rec.Inconclusive("server-side connection: the server's request never reached the peer")
		} else {
			base := time.Now()
			finished := false
			for k := 1; k <= int(maxRetransmit)+6 && !finished; k++ {
				if f, ok := tick.Load().(func(time.Time) bool); ok {
					f(base.Add(time.Duration(k) * time.Hour))
				}
				for read(60 * time.Millisecond) {
				}
				select {
				case <-reqDone:
					finished = true
				default:
				}
			}
			// every tick has been delivered; a copy still missing gets three silent seconds to arrive over loopback
			if copies < 1+int(maxRetransmit) {
				for read(3 * time.Second) {
				}
			}
			rec.Eval(fmt.Sprintf("server-side-conn|%d|%d", maxRetransmit, rep))
			rec.Count("server_side_conn_cases", 1)
			rec.Count("server_side_conn_copies_seen", int64(copies))
			switch {
			case differs:
				rec.Violation("C06/server-conn/retransmission-differs", "", c)
			case copies > 1+int(maxRetransmit):
				rec.Violation("C06/server-conn/more-than-max-retransmit", fmt.Sprintf("%d transmissions of one confirmable request, MAX_RETRANSMIT %d", copies, maxRetransmit), c)
			case copies < 1+int(maxRetransmit):
				rec.Violation("C06/server-conn/gave-up-before-max-retransmit", fmt.Sprintf("%d transmissions after %d housekeeping runs one virtual hour apart (request error so far: %v), MAX_RETRANSMIT %d", copies, maxRetransmit+6, reqErr.Load(), maxRetransmit), c)
			}
		}
		cancel()
		_ = peer.Close()
		s.Stop()
		_ = l.Close()
		wg.Wait()
	}
}
