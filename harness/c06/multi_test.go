package c06

import (
	"bytes"
	"context"
	"errors"
	"fmt"
	"io"
	"math/rand"
	"sync"
	"sync/atomic"
	"time"

	"github.com/plgd-dev/go-coap/v3/message"
	"github.com/plgd-dev/go-coap/v3/message/codes"
	"github.com/plgd-dev/go-coap/v3/message/pool"
	"github.com/plgd-dev/go-coap/v3/net/responsewriter"
	udpclient "github.com/plgd-dev/go-coap/v3/udp/client"

	"verifharness/ref"
	"verifharness/sim"
	"verifharness/vr"
)

// multiPending: several confirmable requests of different shapes (with and without payload, different options, different
// sizes) are unacknowledged on one connection at once (NSTART and the client limits raised). Ticks at virtual times
// k x ACK_TIMEOUT + eps must produce, for EVERY pending message ID, copies that are byte-identical to that message's first
// transmission, at most MAX_RETRANSMIT of them, and none for a message that was acknowledged in between.
func multiPending(rec *vr.Rec, reps int, seed int64) {
	rnd := rand.New(rand.NewSource(seed*9157 + 3))
	for rep := 0; rep < reps; rep++ {
		n := 2 + rnd.Intn(5)
		maxRetr := 1 + rnd.Intn(3)
		ackTimeout := time.Hour
		c := map[string]any{"scenario": "several-pending-confirmables", "pending": n, "max_retransmit": maxRetr}
		s := sim.NewMemSession()
		cc := sim.NewUDPConn(s, sim.UDPOpts{Mutate: func(cfg *udpclient.Config) {
			cfg.TransmissionNStart = 64
			cfg.TransmissionAcknowledgeTimeout = ackTimeout
			cfg.TransmissionMaxRetransmit = uint32(maxRetr)
		}})
		var wg sync.WaitGroup
		ctx, cancel := context.WithCancel(context.Background())
		lo := time.Now()
		shapes := make([]string, n)
		for i := 0; i < n; i++ {
			i := i
			shape := []string{"get", "post-small", "post-large", "delete", "put-empty-body"}[rnd.Intn(5)]
			shapes[i] = shape
			plen := 1 + rnd.Intn(40)
			if shape == "post-large" {
				plen = 200 + rnd.Intn(300)
			}
			body := make([]byte, plen)
			rnd.Read(body)
			wg.Add(1)
			go func() {
				defer wg.Done()
				path := fmt.Sprintf("/m/%d", i)
				var err error
				switch shape {
				case "get":
					_, err = cc.Get(ctx, path)
				case "delete":
					_, err = cc.Delete(ctx, path)
				case "put-empty-body":
					_, err = cc.Put(ctx, path, message.TextPlain, nil)
				default:
					rd := bytes.NewReader(body)
					if i%2 == 1 {
						// the caller has already read its body (to hash or log it): the reader is not at offset 0
						_, _ = rd.Seek(int64(len(body))/2+1, io.SeekStart)
					}
					_, err = cc.Post(ctx, path, message.AppOctets, rd)
				}
				_ = err
			}()
			// strictly one after the other on the wire, so that "first transmission" is well defined per request
			if !s.WaitLen(i+1, 10*time.Second) {
				rec.Inconclusive("multi-pending: request not transmitted")
				cancel()
				cc.Close()
				wg.Wait()
				return
			}
		}
		hi := time.Now()
		_ = lo
		first := map[uint16][]byte{}
		order := []uint16{}
		for _, d := range s.Log() {
			m, err := ref.ParseUDP(d.Data)
			if err != nil || m.Type != 0 {
				rec.Violation("C06/multi/unexpected-first-transmission", fmt.Sprintf("%x", d.Data), c)
				continue
			}
			first[m.MID] = d.Data
			order = append(order, m.MID)
		}
		c["shapes"] = shapes
		// every other case: one more confirmable request is issued with the message ID of a request that is still
		// pending (caller-assigned, or what a wrapped 16-bit counter produces). Whatever happens to the newcomer, the
		// pending request keeps its retransmissions and its way to be acknowledged.
		if rep%2 == 1 && len(order) > 0 {
			victim := order[rnd.Intn(len(order))]
			c["colliding_request_with_pending_message_id"] = victim
			before := s.Len()
			wg.Add(1)
			go func() {
				defer wg.Done()
				req := cc.AcquireMessage(ctx)
				defer cc.ReleaseMessage(req)
				tok, _ := message.GetToken()
				_ = req.SetupGet("/collide", tok)
				req.SetType(message.Confirmable)
				req.SetMessageID(int32(victim))
				if resp, err := cc.Do(req); err == nil {
					cc.ReleaseMessage(resp)
				}
			}()
			time.Sleep(2 * time.Millisecond)
			if s.Len() != before {
				// the connection put a second message with a pending message ID on the wire: outside what this part judges
				rec.Count("multi_pending_colliding_request_was_transmitted", 1)
				cancel()
				cc.Close()
				wg.Wait()
				continue
			}
			rec.Count("multi_pending_colliding_requests_refused", 1)
		}
		acked := map[uint16]bool{}
		copies := map[uint16]int{}
		for k := 1; k <= maxRetr+2; k++ {
			// acknowledge one of the pending messages now and then: no further copy of it
			if k >= 2 && rnd.Intn(2) == 0 {
				for _, mid := range order {
					if !acked[mid] {
						acked[mid] = true
						_ = cc.Process(nil, ref.EncodeUDP(ref.Msg{Type: 2, Code: 0, MID: mid}))
						break
					}
				}
			}
			before := s.Len()
			cc.CheckExpirations(hi.Add(time.Duration(k)*ackTimeout + time.Minute))
			for _, d := range s.Log()[before:] {
				m, err := ref.ParseUDP(d.Data)
				if err != nil {
					rec.Violation("C06/multi/copy-not-a-message", fmt.Sprintf("tick %d emitted %x: %v", k, d.Data, err), c)
					continue
				}
				f, known := first[m.MID]
				if !known {
					rec.Violation("C06/multi/copy-of-unknown-message", fmt.Sprintf("tick %d emitted mid %d which was never transmitted", k, m.MID), c)
					continue
				}
				copies[m.MID]++
				rec.Count("multi_pending_copies_checked", 1)
				if !bytes.Equal(d.Data, f) {
					rec.Violation("C06/multi/copy-differs-from-first-transmission", fmt.Sprintf("tick %d, mid %d: copy %x..(%d bytes) first transmission %x..(%d bytes)", k, m.MID, head(d.Data), len(d.Data), head(f), len(f)), c)
				}
				if acked[m.MID] {
					rec.Violation("C06/multi/copy-after-ack", fmt.Sprintf("tick %d re-sent mid %d after its acknowledgement", k, m.MID), c)
				}
				if copies[m.MID] > maxRetr {
					rec.Violation("C06/multi/more-than-max-retransmit", fmt.Sprintf("copy %d of mid %d with MAX_RETRANSMIT %d", copies[m.MID], m.MID, maxRetr), c)
				}
			}
		}
		for _, mid := range order {
			if !acked[mid] && copies[mid] != maxRetr {
				rec.Violation("C06/multi/copies-missing", fmt.Sprintf("mid %d was re-sent %d times over %d ticks one ACK_TIMEOUT apart, MAX_RETRANSMIT %d", mid, copies[mid], maxRetr+2, maxRetr), c)
			}
		}
		rec.Eval(fmt.Sprintf("multi|%d|%d|%v", n, maxRetr, shapes))
		rec.Count("multi_pending_cases", 1)
		cancel()
		cc.Close()
		wg.Wait()
	}
}

func head(b []byte) []byte {
	if len(b) > 24 {
		return b[len(b)-24:]
	}
	return b
}

var _ = vr.Seed

// firstWriteFails: the very first transmission of a confirmable request fails in the socket write (a transient error; the
// connection stays usable). The call returns the error - and with it the exchange is over: no housekeeping tick may put a
// copy of that request on the wire afterwards, and its NSTART slot is free for the next request.
func firstWriteFails(rec *vr.Rec, reps int, seed int64) {
	rnd := rand.New(rand.NewSource(seed*7793 + 1))
	for rep := 0; rep < reps; rep++ {
		maxRetr := 1 + rnd.Intn(3)
		nstart := uint32(1 + rep%2)
		ackTimeout := time.Hour
		c := map[string]any{"scenario": "first-transmission-fails-in-the-write", "max_retransmit": maxRetr, "nstart": nstart}
		s := sim.NewMemSession()
		var failNext atomic.Int32
		s.OnWrite = func([]byte) error {
			if failNext.Load() > 0 && failNext.Add(-1) >= 0 {
				return errors.New("injected transient write failure")
			}
			return nil
		}
		cc := sim.NewUDPConn(s, sim.UDPOpts{Mutate: func(cfg *udpclient.Config) {
			cfg.TransmissionNStart = nstart
			cfg.TransmissionAcknowledgeTimeout = ackTimeout
			cfg.TransmissionMaxRetransmit = uint32(maxRetr)
		}})
		failNext.Store(1)
		ctx, cancel := context.WithTimeout(context.Background(), 10*time.Second)
		var err error
		if rep%3 == 2 {
			req := cc.AcquireMessage(ctx)
			tok, _ := message.GetToken()
			_ = req.SetupGet("/failed-write", tok)
			req.SetType(message.Confirmable)
			err = cc.WriteMessage(req)
			cc.ReleaseMessage(req)
		} else {
			_, err = cc.Get(ctx, "/failed-write")
		}
		cancel()
		rec.Eval(fmt.Sprintf("first-write-fails|%d|%d|%d", maxRetr, nstart, rep%3))
		rec.Count("first_write_failure_cases", 1)
		if err == nil {
			rec.Violation("C06/write-failure/call-succeeded", "the only transmission failed in the write, yet the call returned no error", c)
			cc.Close()
			continue
		}
		hi := time.Now()
		leaked := 0
		for k := 1; k <= maxRetr+1; k++ {
			before := s.Len()
			cc.CheckExpirations(hi.Add(time.Duration(k)*ackTimeout + time.Minute))
			for _, d := range s.Log()[before:] {
				if m, perr := ref.ParseUDP(d.Data); perr == nil && m.Type == 0 && m.Code == 1 {
					leaked++
				}
			}
		}
		if leaked > 0 {
			rec.Violation("C06/write-failure/copies-after-the-call-failed", fmt.Sprintf("the call returned %q; afterwards the housekeeping put %d copies of that request on the wire", err, leaked), c)
			cc.Close()
			continue
		}
		// the slot of the failed request is free again
		var cleanup []func()
		for i := 0; i < int(nstart); i++ {
			n0 := s.Len()
			done := make(chan struct{})
			ctx2, cancel2 := context.WithCancel(context.Background())
			go func() { defer close(done); _, _ = cc.Get(ctx2, "/next") }()
			cleanup = append(cleanup, func() { cancel2(); <-done })
			if !s.WaitLen(n0+1, 5*time.Second) {
				rec.Violation("C06/write-failure/next-request-not-transmitted", fmt.Sprintf("request %d after the failed one was not transmitted within the watchdog (NSTART %d): the failed request still counts as outstanding", i+1, nstart), c)
				break
			}
		}
		for _, f := range cleanup {
			f()
		}
		cc.Close()
	}
}

// retransmissionWriteFails: a transient write error hits a RETRANSMISSION (the first copy went out). The exchange is not
// over: copies that reached the peer can still be acknowledged, later retransmissions are still due. Whatever copy the
// peer finally acknowledges - one sent before the failed write or one sent after it - the call succeeds, as long as the
// acknowledgement arrives before the attempts are used up.
func retransmissionWriteFails(rec *vr.Rec, reps int, seed int64) {
	rnd := rand.New(rand.NewSource(seed*911 + 5))
	for rep := 0; rep < reps; rep++ {
		maxRetr := 2 + rnd.Intn(3)
		failAt := 1 + rnd.Intn(maxRetr-1) // which retransmission's write fails (1 = the first retransmission)
		ackAfterMore := rep%2 == 1        // the peer answers only after one more retransmission went out
		ackTimeout := time.Hour
		c := map[string]any{"scenario": "a retransmission fails in the write, the peer acknowledges afterwards", "max_retransmit": maxRetr, "failing_retransmission": failAt, "acknowledged_after_a_later_retransmission": ackAfterMore}
		s := sim.NewMemSession()
		var writes atomic.Int32
		s.OnWrite = func([]byte) error {
			if int(writes.Add(1)) == 1+failAt {
				return errors.New("injected transient write failure")
			}
			return nil
		}
		cc := sim.NewUDPConn(s, sim.UDPOpts{Mutate: func(cfg *udpclient.Config) {
			cfg.TransmissionAcknowledgeTimeout = ackTimeout
			cfg.TransmissionMaxRetransmit = uint32(maxRetr)
		}})
		type res struct {
			body []byte
			err  error
		}
		done := make(chan res, 1)
		// (no deadline on the context: housekeeping runs at virtual times hours ahead, and a deadline would end the exchange)
		ctx, cancel := context.WithCancel(context.Background())
		lo := time.Now()
		go func() {
			m, err := cc.Get(ctx, "/retr-write-fails")
			if err != nil {
				done <- res{nil, err}
				return
			}
			b, _ := m.ReadBody()
			cc.ReleaseMessage(m)
			done <- res{b, nil}
		}()
		if !s.WaitLen(1, 5*time.Second) {
			rec.Inconclusive("retransmission write fails: first copy not seen")
			cancel()
			cc.Close()
			continue
		}
		first, _ := ref.ParseUDP(s.Log()[0].Data)
		hi := time.Now()
		// housekeeping: retransmissions 1..failAt (the last of them fails in the write), optionally one more
		ticks := failAt
		if ackAfterMore && failAt < maxRetr {
			ticks++
		}
		for k := 1; k <= ticks; k++ {
			cc.CheckExpirations(hi.Add(time.Duration(k)*ackTimeout + time.Minute))
		}
		_ = lo
		// the peer acknowledges (by message ID) and answers
		_ = cc.Process(nil, ref.EncodeUDP(ref.Msg{Type: 2, Code: 0x45, MID: first.MID, Token: first.Token, Payload: []byte("hello")}))
		rec.Eval(fmt.Sprintf("retr-write-fails|%d|%d|%v", maxRetr, failAt, ackAfterMore))
		rec.Count("retransmission_write_failure_cases", 1)
		select {
		case r := <-done:
			if r.err != nil {
				rec.Violation("C06/retransmission-write-failure/exchange-dropped", fmt.Sprintf("the write of retransmission %d of %d failed once; the peer then acknowledged and answered (%d copies had been written): the call returned %v", failAt, maxRetr, writes.Load(), r.err), c)
			} else if string(r.body) != "hello" {
				rec.Violation("C06/retransmission-write-failure/wrong-response", fmt.Sprintf("%q", r.body), c)
			} else {
				rec.Count("calls_completed_after_a_failed_retransmission_write", 1)
			}
		case <-time.After(6 * time.Second):
			rec.Violation("C06/retransmission-write-failure/exchange-dropped", fmt.Sprintf("the write of retransmission %d of %d failed once; the peer then acknowledged and answered (%d copies had been written): the call had not returned 6 s later", failAt, maxRetr, writes.Load()), c)
			cancel()
			select {
			case <-done:
			case <-time.After(5 * time.Second):
			}
		}
		cancel()
		cc.Close()
	}
}

// ownIDMeetsAnsweredPeerID: the two endpoints number their messages independently. This endpoint has answered requests of
// the peer (their replies are remembered under the PEER's message IDs for de-duplication); its own next confirmable
// request happens to get one of those numbers. The acknowledgement the peer sends for it carries that number too - it is
// an acknowledgement, not a copy of the peer's old request: the call gets its response, the peer gets no stale reply.
func ownIDMeetsAnsweredPeerID(rec *vr.Rec, reps int) {
	for rep := 0; rep < reps; rep++ {
		separate := rep%2 == 1
		c := map[string]any{"scenario": "own confirmable request gets a message-ID number under which a reply to the peer is cached", "peer_answers_separately": separate}
		s := sim.NewMemSession()
		cc := sim.NewUDPConn(s, sim.UDPOpts{Handler: func(w *responsewriter.ResponseWriter[*udpclient.Conn], r *pool.Message) {
			_ = w.SetResponse(codes.Content, message.TextPlain, bytes.NewReader([]byte("reply-to-peer")))
		}})
		stop := make(chan struct{})
		peerDone := make(chan struct{})
		var staleToPeer atomic.Int32
		ownTokens := map[string]bool{}
		peerGot := map[string]int{}
		var mu sync.Mutex
		go func() {
			defer close(peerDone)
			seen := 0
			for {
				select {
				case <-stop:
					return
				default:
				}
				log := s.Log()
				for ; seen < len(log); seen++ {
					m, err := ref.ParseUDP(log[seen].Data)
					if err != nil {
						continue
					}
					if m.Type == 0 && m.Code == 1 { // a confirmable GET of the endpoint under test
						mu.Lock()
						ownTokens[string(m.Token)] = true
						mu.Unlock()
						body := []byte("answer:" + ref.PathOf(m))
						if separate {
							_ = cc.Process(nil, ref.EncodeUDP(ref.Msg{Type: 2, Code: 0, MID: m.MID}))
							_ = cc.Process(nil, ref.EncodeUDP(ref.Msg{Type: 1, Code: 0x45, MID: uint16(50000 + seen), Token: m.Token, Payload: body}))
						} else {
							_ = cc.Process(nil, ref.EncodeUDP(ref.Msg{Type: 2, Code: 0x45, MID: m.MID, Token: m.Token, Payload: body}))
						}
					} else if m.Code == 0x45 && string(m.Payload) == "reply-to-peer" {
						mu.Lock()
						dup := peerGot[string(m.Token)]
						peerGot[string(m.Token)]++
						mu.Unlock()
						if dup > 0 {
							staleToPeer.Add(1)
						}
					}
				}
				time.Sleep(50 * time.Microsecond)
			}
		}()
		get := func(path string) ([]byte, error) {
			ctx, cancel := context.WithTimeout(context.Background(), 4*time.Second)
			defer cancel()
			m, err := cc.Get(ctx, path)
			if err != nil {
				return nil, err
			}
			defer cc.ReleaseMessage(m)
			return m.ReadBody()
		}
		b1, err1 := get("/first")
		if err1 != nil || string(b1) != "answer:/first" {
			rec.Inconclusive(fmt.Sprintf("own id meets peer id: first request: %q %v", b1, err1))
			close(stop)
			<-peerDone
			cc.Close()
			continue
		}
		var m0 uint16
		for _, d := range s.Log() {
			if m, err := ref.ParseUDP(d.Data); err == nil && m.Type == 0 && m.Code == 1 {
				m0 = m.MID
				break
			}
		}
		// how many of its own message IDs does one reply of this endpoint consume? (measured, not assumed)
		_ = cc.Process(nil, ref.EncodeUDP(ref.Msg{Type: 1, Code: 1, MID: m0 + 3000, Token: []byte{0x9e, byte(rep), 0xff}, Opts: []ref.Opt{{ID: 11, Val: []byte("p")}}}))
		sim.WaitFor(5*time.Second, func() bool { mu.Lock(); defer mu.Unlock(); return len(peerGot) >= 1 })
		if bp, errp := get("/probe"); errp != nil || string(bp) != "answer:/probe" {
			rec.Inconclusive(fmt.Sprintf("own id meets peer id: probe request: %q %v", bp, errp))
			close(stop)
			<-peerDone
			cc.Close()
			continue
		}
		var m1 uint16
		for _, d := range s.Log() {
			if m, err := ref.ParseUDP(d.Data); err == nil && m.Type == 0 && m.Code == 1 && ref.PathOf(m) == "/probe" {
				m1 = m.MID
			}
		}
		perReply := m1 - m0 - 1
		if perReply == 0 || perReply > 8 {
			perReply = 1
		}
		// the peer's own requests: non-confirmable (nothing steers the endpoint's counter away from them), numbered around
		// the value the endpoint's counter will have reached once it has answered all twenty of them
		target := m1 + 1 + perReply*20
		lowest := target - 10
		for k := 0; k < 20; k++ {
			_ = cc.Process(nil, ref.EncodeUDP(ref.Msg{Type: 1, Code: 1, MID: lowest + uint16(k), Token: []byte{0x9e, byte(rep), byte(k)}, Opts: []ref.Opt{{ID: 11, Val: []byte("p")}}}))
		}
		sim.WaitFor(5*time.Second, func() bool { mu.Lock(); defer mu.Unlock(); return len(peerGot) >= 21 })
		b2, err2 := get("/second")
		var m2 uint16
		for _, d := range s.Log() {
			if m, err := ref.ParseUDP(d.Data); err == nil && m.Type == 0 && m.Code == 1 && ref.PathOf(m) == "/second" {
				m2 = m.MID
			}
		}
		rec.Eval(fmt.Sprintf("own-id-meets-peer-id|%v|%d", separate, rep))
		rec.Count("own_id_meets_answered_peer_id_cases", 1)
		inRange := m2-lowest < 20
		if inRange {
			rec.Count("own_requests_numbered_like_an_answered_peer_request", 1)
		}
		c["own_request_message_id"] = m2
		c["answered_peer_ids"] = fmt.Sprintf("%d..%d", lowest, lowest+19)
		switch {
		case err2 != nil:
			rec.Violation("C06/own-id-equals-answered-peer-id/call-failed", fmt.Sprintf("the peer acknowledged and answered the request (message ID %d, in the range of peer request IDs this endpoint had answered: %v), the call returned %v", m2, inRange, err2), c)
		case string(b2) != "answer:/second":
			rec.Violation("C06/own-id-equals-answered-peer-id/wrong-response", fmt.Sprintf("%q", b2), c)
		case staleToPeer.Load() > 0:
			rec.Violation("C06/own-id-equals-answered-peer-id/stale-reply-sent-to-peer", fmt.Sprintf("%d replies to old peer requests were sent again", staleToPeer.Load()), c)
		default:
			rec.Count("own_requests_completed", 1)
		}
		close(stop)
		<-peerDone
		cc.Close()
	}
}

// lateResponseAfterExhaustion: every copy of a confirmable request went unanswered until the attempts were used up
// (housekeeping at virtual times beyond the last retransmission reports the exchange as failed). A response that
// straggles in after that - piggybacked on an acknowledgement of a copy, or as a separate message - does not turn the
// failed exchange into a success: when the caller's context ends, the call returns an error.
func lateResponseAfterExhaustion(rec *vr.Rec, reps int) {
	for rep := 0; rep < reps; rep++ {
		maxRetr := 1 + rep%3
		separate := (rep/3)%2 == 1
		ackTimeout := time.Hour
		c := map[string]any{"scenario": "response arrives after all attempts were given up", "max_retransmit": maxRetr, "late_response_separate": separate}
		s := sim.NewMemSession()
		var gaveUp atomic.Int32
		cc := sim.NewUDPConn(s, sim.UDPOpts{Errors: func(error) { gaveUp.Add(1) }, Mutate: func(cfg *udpclient.Config) {
			cfg.TransmissionAcknowledgeTimeout = ackTimeout
			cfg.TransmissionMaxRetransmit = uint32(maxRetr)
		}})
		type res struct {
			body []byte
			err  error
		}
		done := make(chan res, 1)
		ctx, cancel := context.WithCancel(context.Background())
		go func() {
			m, err := cc.Get(ctx, "/late")
			if err != nil {
				done <- res{nil, err}
				return
			}
			b, _ := m.ReadBody()
			cc.ReleaseMessage(m)
			done <- res{b, nil}
		}()
		if !s.WaitLen(1, 5*time.Second) {
			rec.Inconclusive("late response: first copy not seen")
			cancel()
			cc.Close()
			continue
		}
		first, _ := ref.ParseUDP(s.Log()[0].Data)
		hi := time.Now()
		for k := 1; k <= maxRetr+2; k++ {
			cc.CheckExpirations(hi.Add(time.Duration(k)*ackTimeout + time.Minute))
		}
		copies := 0
		for _, d := range s.Log() {
			if m, err := ref.ParseUDP(d.Data); err == nil && m.Type == 0 && m.Code == 1 {
				copies++
			}
		}
		rec.Eval(fmt.Sprintf("late-response|%d|%v", maxRetr, separate))
		rec.Count("late_response_cases", 1)
		early := false
		select {
		case r := <-done:
			// ending the call right at exhaustion is fine too - as long as it is an error
			early = true
			if r.err == nil {
				rec.Violation("C06/exhaustion/call-succeeded", fmt.Sprintf("no copy was ever answered (%d copies), the call returned %q", copies, r.body), c)
			}
		default:
		}
		if !early {
			if gaveUp.Load() == 0 {
				rec.Count("late_response_exhaustion_not_reported", 1)
			}
			if separate {
				_ = cc.Process(nil, ref.EncodeUDP(ref.Msg{Type: 1, Code: 0x45, MID: 51000, Token: first.Token, Payload: []byte("late")}))
			} else {
				_ = cc.Process(nil, ref.EncodeUDP(ref.Msg{Type: 2, Code: 0x45, MID: first.MID, Token: first.Token, Payload: []byte("late")}))
			}
			time.Sleep(2 * time.Millisecond)
			cancel()
			select {
			case r := <-done:
				if r.err == nil {
					rec.Violation("C06/exhaustion/late-response-turns-failure-into-success", fmt.Sprintf("all %d attempts (MAX_RETRANSMIT %d) had been given up when a response arrived; the call then returned it as its result (%q)", copies, maxRetr, r.body), c)
				} else {
					rec.Count("late_responses_not_credited", 1)
				}
			case <-time.After(6 * time.Second):
				rec.Violation("C06/exhaustion/call-does-not-return", "context cancelled after exhaustion, no return within 6 s", c)
			}
		}
		cancel()
		cc.Close()
	}
}
