// C06 — confirmable requests are retransmitted correctly and boundedly.
//
// Monitor: a real udp connection on an in-memory session, ACK_TIMEOUT = 1 h; time only
// advances through Conn.CheckExpirations(now) with harness-chosen now relative to the
// bracketed start stamp. Tick schedules, the position and kind of the returning
// ACK/response/reset and the cancel position are enumerated; a pure function over the
// outbox and the tick log decides.
package c06

import (
	"bytes"
	"context"
	"fmt"
	"math/rand"
	"sync"
	"sync/atomic"
	"testing"
	"time"

	"github.com/plgd-dev/go-coap/v3/message"
	"github.com/plgd-dev/go-coap/v3/message/codes"
	"github.com/plgd-dev/go-coap/v3/message/pool"
	udpclient "github.com/plgd-dev/go-coap/v3/udp/client"

	"verifharness/ref"
	"verifharness/sim"
	"verifharness/vr"
)

const T = time.Hour
const eps = time.Minute

// tick positions in units relative to the start stamp
type tpos struct {
	K    int    // multiple of ACK_TIMEOUT
	Kind string // "-" (k*T - eps), "+" (k*T + eps), "h" ((k+1/2)*T), "J" (k*T + 10*T)
}

func (t tpos) String() string { return fmt.Sprintf("%d%s", t.K, t.Kind) }

type scen struct {
	Max    int    `json:"max_retransmit"`
	Style  string `json:"style"` // do / write
	Ticks  []tpos `json:"-"`
	TickS  string `json:"ticks"`
	AckAt  int    `json:"ack_after_tick"` // -1 before any tick, len(ticks) = never
	Ack    string `json:"ack_kind"`       // piggy / empty+sep / rst / none
	Cancel int    `json:"cancel_after_tick"`
	NStart int    `json:"nstart"`
}

func offset(t tpos, lo, hi time.Time) time.Time {
	switch t.Kind {
	case "-":
		return lo.Add(time.Duration(t.K)*T - eps)
	case "+":
		return hi.Add(time.Duration(t.K)*T + eps)
	case "h":
		return hi.Add(time.Duration(t.K)*T + T/2)
	}
	return hi.Add(time.Duration(t.K)*T + 10*T)
}

// certainlyAfter reports whether the tick lies after start + k*T for every possible start in the bracket.
func (t tpos) certainlyAfter(k int) bool {
	switch t.Kind {
	case "-":
		return t.K > k
	case "+", "h":
		return t.K >= k
	}
	return t.K+10 >= k
}

// possiblyAfter: could the tick lie after start + k*T for some start in the bracket?
func (t tpos) possiblyAfter(k int) bool { return t.certainlyAfter(k) }

type run struct {
	rec *vr.Rec
}

func (r *run) one(sc scen) {
	sc.TickS = fmt.Sprint(sc.Ticks)
	s := sim.NewMemSession()
	var errs []string
	var emu sync.Mutex
	cc := sim.NewUDPConn(s, sim.UDPOpts{Mutate: func(cfg *udpclient.Config) {
		cfg.TransmissionAcknowledgeTimeout = T
		cfg.TransmissionMaxRetransmit = uint32(sc.Max)
		cfg.TransmissionNStart = uint32(sc.NStart)
	}, Errors: func(err error) { emu.Lock(); errs = append(errs, err.Error()); emu.Unlock() }})
	defer cc.Close()
	ctx, cancel := context.WithCancel(context.Background())
	defer cancel()

	type result struct {
		resp []byte
		code codes.Code
		tok  []byte
		err  error
	}
	done := make(chan result, 1)
	var returned atomic.Bool
	lo := time.Now()
	var reqTok []byte
	go func() {
		var res result
		if sc.Style == "do" {
			req, err := cc.NewPostRequest(ctx, "/r", message.TextPlain, bytes.NewReader([]byte("hello")))
			if err != nil {
				res.err = err
			} else {
				resp, err := cc.Do(req)
				res.err = err
				if err == nil {
					res.resp, _ = resp.ReadBody()
					res.code = resp.Code()
					res.tok = resp.Token()
				}
			}
		} else {
			req := cc.AcquireMessage(ctx)
			req.SetCode(codes.POST)
			req.SetToken(message.Token{9, 9, 9})
			req.SetType(message.Confirmable)
			req.SetBody(bytes.NewReader([]byte("oneway")))
			res.err = cc.WriteMessage(req)
		}
		returned.Store(true)
		done <- res
	}()
	if !s.WaitLen(1, 20*time.Second) {
		r.rec.Inconclusive("first transmission not observed within the watchdog")
		return
	}
	hi := time.Now()
	first := s.Log()[0].Data
	fm, err := ref.ParseUDP(first)
	if err != nil || fm.Type != 0 {
		r.rec.Violation("C06/first-transmission-not-confirmable", fmt.Sprintf("%x: %v", first, err), sc)
		return
	}
	reqTok = fm.Token
	copies := 0
	acked := false   // ACK/RST processed
	stopped := false // cancel returned or call returned
	alive := true    // the pending entry can still retransmit by the model of the statement
	var res *result
	takeResult := func(wait time.Duration) bool {
		if res != nil {
			return true
		}
		select {
		case x := <-done:
			res = &x
			return true
		case <-time.After(wait):
			return false
		}
	}
	countCopies := func(from int) (n int, other [][]byte) {
		for _, d := range s.Log()[from:] {
			if bytes.Equal(d.Data, first) {
				n++
			} else {
				other = append(other, d.Data)
			}
		}
		return
	}
	deliverAck := func() bool {
		switch sc.Ack {
		case "piggy":
			_ = cc.Process(nil, ref.EncodeUDP(ref.Msg{Type: 2, Code: 0x45, MID: fm.MID, Token: reqTok, Payload: []byte("answer")}))
		case "empty+sep":
			_ = cc.Process(nil, ref.EncodeUDP(ref.Msg{Type: 2, Code: 0, MID: fm.MID}))
			_ = cc.Process(nil, ref.EncodeUDP(ref.Msg{Type: 0, Code: 0x45, MID: 777, Token: reqTok, Payload: []byte("answer")}))
		case "rst":
			_ = cc.Process(nil, ref.EncodeUDP(ref.Msg{Type: 3, Code: 0, MID: fm.MID}))
		}
		acked = true
		if sc.Ack == "rst" {
			return true
		}
		// the call must now succeed if the pending entry was still alive
		if alive && !stopped {
			if !takeResult(20 * time.Second) {
				r.rec.Violation("C06/no-success-although-acknowledged", fmt.Sprintf("%s delivered after %d copies while attempts were not exhausted, call did not return", sc.Ack, copies), sc)
				return false
			}
			if res.err != nil {
				r.rec.Violation("C06/no-success-although-acknowledged", fmt.Sprintf("%s delivered while attempts were not exhausted, call returned %v", sc.Ack, res.err), sc)
				return false
			}
			if sc.Style == "do" && (string(res.resp) != "answer" || res.code != codes.Content || !bytes.Equal(res.tok, reqTok)) {
				r.rec.Violation("C06/wrong-response", fmt.Sprintf("code %v body %q token %x", res.code, res.resp, res.tok), sc)
				return false
			}
			stopped = true
		}
		return true
	}
	if sc.AckAt == -1 && sc.Ack != "none" {
		if !deliverAck() {
			return
		}
	}
	if sc.Cancel == -1 {
		cancel()
		if !takeResult(20 * time.Second) {
			r.rec.Violation("C06/call-does-not-return-after-cancel", "", sc)
			return
		}
		stopped = true
	}
	for i, tp := range sc.Ticks {
		before := s.Len()
		tickStartedAfterStop := acked || stopped || returned.Load()
		cc.CheckExpirations(offset(tp, lo, hi))
		n, _ := countCopies(before)
		r.rec.Count("ticks_driven", 1)
		// --- oracle for this tick
		if n > 1 {
			r.rec.Violation("C06/several-copies-in-one-tick", fmt.Sprintf("tick %v emitted %d copies", tp, n), sc)
			return
		}
		if n == 1 {
			copies++
			r.rec.Count("retransmissions_observed", 1)
			if tickStartedAfterStop {
				what := "acknowledgement/reset"
				if stopped {
					what = "cancellation or return of the call"
				}
				r.rec.Violation("C06/copy-after-"+map[bool]string{true: "ack", false: "stop"}[acked], fmt.Sprintf("tick %v (started after the %s) emitted a copy", tp, what), sc)
				return
			}
			if copies > sc.Max {
				r.rec.Violation("C06/more-than-max-retransmit", fmt.Sprintf("copy %d with MAX_RETRANSMIT %d", copies, sc.Max), sc)
				return
			}
			if !tp.possiblyAfter(copies) {
				r.rec.Violation("C06/copy-too-early", fmt.Sprintf("copy %d emitted by tick %v, i.e. before %d x ACK_TIMEOUT after the first transmission", copies, tp, copies), sc)
				return
			}
		} else if alive && !acked && !stopped && copies < sc.Max && tp.certainlyAfter(copies+1) {
			r.rec.Violation("C06/due-copy-not-sent", fmt.Sprintf("tick %v is after %d x ACK_TIMEOUT, %d copies so far, MAX_RETRANSMIT %d, request unacknowledged, but nothing was sent", tp, copies+1, copies, sc.Max), sc)
			return
		}
		// model of "attempts exhausted": a tick that finds all copies sent ends the exchange
		if n == 0 && copies >= sc.Max {
			alive = false
		}
		if i == sc.AckAt && sc.Ack != "none" {
			if !deliverAck() {
				return
			}
		}
		if i == sc.Cancel {
			cancel()
			if !takeResult(20 * time.Second) {
				r.rec.Violation("C06/call-does-not-return-after-cancel", "", sc)
				return
			}
			stopped = true
		}
	}
	// end: cancel and collect
	cancel()
	if !takeResult(20 * time.Second) {
		r.rec.Violation("C06/call-does-not-return-after-cancel", "", sc)
		return
	}
	// all copies byte-identical is implied by counting only identical datagrams; anything
	// else on the wire must not look like a modified copy of the request (same MID, CON)
	_, others := countCopies(1)
	for _, o := range others {
		if m, err := ref.ParseUDP(o); err == nil && m.Type == 0 && m.MID == fm.MID {
			r.rec.Violation("C06/copies-differ", fmt.Sprintf("first %x, later %x", first, o), sc)
			return
		}
	}
	// success is only legitimate with a delivered ACK+response (never after reset/exhaustion alone)
	if res.err == nil && sc.Style == "do" {
		if !(sc.Ack == "piggy" || sc.Ack == "empty+sep") || !acked {
			r.rec.Violation("C06/success-without-response", fmt.Sprintf("ack kind %s delivered=%v but the call returned a response", sc.Ack, acked), sc)
		}
	}
	if res.err == nil && sc.Style == "write" && !acked {
		r.rec.Violation("C06/write-success-without-ack", "", sc)
	}
}

func subsets(pos []tpos, maxLen int, visit func([]tpos)) {
	var rec func(start int, cur []tpos)
	rec = func(start int, cur []tpos) {
		visit(append([]tpos(nil), cur...))
		if len(cur) == maxLen {
			return
		}
		for i := start; i < len(pos); i++ {
			rec(i+1, append(cur, pos[i]))
		}
	}
	rec(0, nil)
}

func TestRun(t *testing.T) {
	rec := vr.New("C06", "fault enumeration on a real udp connection with ACK_TIMEOUT = 1 h and virtual ticks: MAX_RETRANSMIT in {0,1,2} (quick) / {0,1,2,4} (thorough); tick schedules = all monotone subsequences (bounded length) of {k*T-eps, k*T+eps, (k+1/2)*T, k*T+10T}; returning message in {piggybacked ACK, empty ACK + separate CON response, reset, none} delivered before any tick or after tick i; cancel before any tick / after tick i / never; styles Do and confirmable WriteMessage; NSTART 1 and 2 for the concurrent-requests part. Distinct = distinct scenarios.")
	defer rec.Flush(true)
	seed := vr.Seed()
	r := &run{rec}
	var scens []scen
	maxes := []int{0, 1, 2}
	if vr.Thorough() {
		maxes = append(maxes, 4)
	}
	for _, M := range maxes {
		var pos []tpos
		for k := 1; k <= M+1; k++ {
			pos = append(pos, tpos{k, "-"}, tpos{k, "+"}, tpos{k, "h"})
		}
		pos = append(pos, tpos{M + 2, "+"}, tpos{1, "J"})
		// keep monotone order of positions: "-" < "+" < "h" within k; J at the end
		maxLen := M + 3
		if M >= 4 {
			maxLen = 6
		}
		subsets(pos, maxLen, func(ticks []tpos) {
			for _, style := range []string{"do", "write"} {
				kinds := []string{"none", "piggy", "empty+sep", "rst"}
				if style == "write" {
					kinds = []string{"none", "piggy", "rst"}
				}
				for _, ak := range kinds {
					ackPositions := []int{len(ticks)}
					if ak != "none" {
						ackPositions = ackPositions[:0]
						for p := -1; p < len(ticks); p++ {
							ackPositions = append(ackPositions, p)
						}
					}
					for _, ap := range ackPositions {
						scens = append(scens, scen{Max: M, Style: style, Ticks: ticks, AckAt: ap, Ack: ak, Cancel: len(ticks) + 5, NStart: 1})
					}
				}
				// cancel positions without any ack
				for cp := -1; cp < len(ticks); cp++ {
					scens = append(scens, scen{Max: M, Style: style, Ticks: ticks, AckAt: len(ticks), Ack: "none", Cancel: cp, NStart: 1})
				}
			}
		})
	}
	rec.Count("scenarios_enumerated", int64(len(scens)))
	rnd := rand.New(rand.NewSource(seed))
	limit := vr.Scale(60000, 3000000)
	if len(scens) > limit {
		rnd.Shuffle(len(scens), func(i, j int) { scens[i], scens[j] = scens[j], scens[i] })
		rec.Note(fmt.Sprintf("%d of %d enumerated scenarios driven in this tier (PRNG subset)", limit, len(scens)))
		scens = scens[:limit]
	} else {
		rec.SetExhaustive(true)
	}
	var wg sync.WaitGroup
	var next atomic.Int64
	for w := 0; w < 12; w++ {
		wg.Add(1)
		go func() {
			defer wg.Done()
			for {
				i := int(next.Add(1)) - 1
				if i >= len(scens) {
					return
				}
				if rec.NViolations() > 12 {
					rec.Count("scenarios_skipped_after_violations", 1)
					continue
				}
				sc := scens[i]
				r.one(sc)
				rec.Eval(fmt.Sprintf("%d|%s|%v|%d|%s|%d", sc.Max, sc.Style, sc.Ticks, sc.AckAt, sc.Ack, sc.Cancel))
				if i < 3 {
					sc.TickS = fmt.Sprint(sc.Ticks)
					rec.Sample(sc)
				}
			}
		}()
	}
	wg.Wait()
	nstart(rec)
	nstartClock(rec)
	multiPending(rec, vr.Scale(40, 2000), seed)
	firstWriteFails(rec, vr.Scale(12, 600), seed)
	retransmissionWriteFails(rec, vr.Scale(16, 600), seed)
	ownIDMeetsAnsweredPeerID(rec, vr.Scale(12, 240))
	lateResponseAfterExhaustion(rec, vr.Scale(18, 360))
	serverSideConn(rec, vr.Scale(6, 60))
	rec.Assume("start stamp of the pending entry lies in [time before the call, time after the first datagram was observed]; ticks are never placed inside that bracket +/- 1 min")
	rec.Assume("'attempts exhausted' = a tick finds all MAX_RETRANSMIT copies already sent; an ACK delivered before that must make the call succeed, afterwards either outcome is accepted")
	_ = pool.New
}

// nstart: with NSTART = n at most n confirmable requests are outstanding (sent, unacknowledged).
func nstart(rec *vr.Rec) {
	for _, n := range []int{1, 2} {
		for rep := 0; rep < vr.Scale(20, 400); rep++ {
			s := sim.NewMemSession()
			cc := sim.NewUDPConn(s, sim.UDPOpts{Mutate: func(cfg *udpclient.Config) {
				cfg.TransmissionAcknowledgeTimeout = T
				cfg.TransmissionNStart = uint32(n)
			}})
			const calls = 5
			var wg sync.WaitGroup
			for c := 0; c < calls; c++ {
				wg.Add(1)
				go func(c int) {
					defer wg.Done()
					ctx, cancel := context.WithTimeout(context.Background(), 30*time.Second)
					defer cancel()
					resp, err := cc.Post(ctx, fmt.Sprintf("/n%d", c), message.TextPlain, bytes.NewReader([]byte{byte(c)}))
					if err == nil {
						cc.ReleaseMessage(resp)
					}
				}(c)
			}
			ackedN := 0
			for ackedN < calls {
				if !s.WaitLen(ackedN+1, 20*time.Second) {
					rec.Inconclusive("nstart: request not observed")
					break
				}
				// give further requests the chance to show up (they must not)
				time.Sleep(300 * time.Microsecond)
				outstanding := s.Len() - ackedN
				rec.Count("nstart_observations", 1)
				if outstanding > n {
					rec.Violation("C06/nstart-exceeded", fmt.Sprintf("%d confirmable requests outstanding with NSTART %d", outstanding, n), map[string]int{"nstart": n})
					break
				}
				d := s.Log()[ackedN].Data
				m, _ := ref.ParseUDP(d)
				_ = cc.Process(nil, ref.EncodeUDP(ref.Msg{Type: 2, Code: 0x44, MID: m.MID, Token: m.Token}))
				ackedN++
			}
			wg.Wait()
			cc.Close()
			rec.Eval(fmt.Sprintf("nstart|%d|%d", n, rep%3))
		}
	}
}

// nstartClock: the retransmission clock of a request that had to wait for its NSTART slot starts
// at its first transmission, not when it was queued. The wait is real time (the library stamps
// with the wall clock) and several times longer than ACK_TIMEOUT; the ticks are virtual and placed
// relative to the observed first transmission.
func nstartClock(rec *vr.Rec) {
	const ackTimeout = 300 * time.Millisecond
	reps := vr.Scale(4, 40)
	var wg sync.WaitGroup
	for rep := 0; rep < reps; rep++ {
		wg.Add(1)
		go func(rep int) {
			defer wg.Done()
			c := map[string]any{"scenario": "second request queued behind NSTART=1 for 2.5 x ACK_TIMEOUT", "ack_timeout_ms": 300, "rep": rep}
			s := sim.NewMemSession()
			cc := sim.NewUDPConn(s, sim.UDPOpts{Mutate: func(cfg *udpclient.Config) {
				cfg.TransmissionAcknowledgeTimeout = ackTimeout
				cfg.TransmissionMaxRetransmit = 3
				cfg.TransmissionNStart = 1
			}})
			defer cc.Close()
			get := func(path string, done chan error) {
				ctx, cancel := context.WithTimeout(context.Background(), 20*time.Second)
				defer cancel()
				m, err := cc.Get(ctx, path)
				if err == nil {
					cc.ReleaseMessage(m)
				}
				done <- err
			}
			da, db := make(chan error, 1), make(chan error, 1)
			go get("/a", da)
			if !s.WaitLen(1, 10*time.Second) {
				rec.Inconclusive("nstart-clock: first request not seen")
				return
			}
			go get("/b", db)
			time.Sleep(750 * time.Millisecond) // /b waits for its slot 2.5 x ACK_TIMEOUT (no tick is driven meanwhile)
			if s.Len() != 1 {
				rec.Violation("C06/nstart-exceeded", "second confirmable request transmitted while the first was outstanding (NSTART 1)", c)
				return
			}
			a, _ := ref.ParseUDP(s.Log()[0].Data)
			lo := time.Now()
			_ = cc.Process(nil, ref.EncodeUDP(ref.Msg{Type: 2, Code: 0x45, MID: a.MID, Token: a.Token, Payload: []byte("a")}))
			if err := <-da; err != nil {
				rec.Inconclusive("nstart-clock: first request failed: " + err.Error())
				return
			}
			if !s.WaitLen(2, 10*time.Second) {
				rec.Inconclusive("nstart-clock: second request not transmitted")
				return
			}
			hi := time.Now()
			_ = lo
			first := s.Log()[1].Data
			// a tick 30 ms after the first transmission: nothing may be re-sent
			cc.CheckExpirations(hi.Add(30 * time.Millisecond))
			n := 0
			for _, d := range s.Log()[2:] {
				if bytes.Equal(d.Data, first) {
					n++
				}
			}
			rec.Eval(fmt.Sprintf("nstart-clock|%d", rep%2))
			rec.Count("nstart_clock_cases", 1)
			if n > 0 {
				rec.Violation("C06/copy-too-early", "a request that waited 750 ms for its NSTART slot was re-sent by a tick 30 ms after its first transmission (ACK_TIMEOUT 300 ms): its retransmission clock started when it was queued", c)
				return
			}
			// a tick after ACK_TIMEOUT: exactly one copy
			before := s.Len()
			cc.CheckExpirations(hi.Add(ackTimeout + 50*time.Millisecond))
			n = 0
			for _, d := range s.Log()[before:] {
				if bytes.Equal(d.Data, first) {
					n++
				}
			}
			if n != 1 {
				rec.Violation("C06/due-copy-not-sent", fmt.Sprintf("tick at first transmission + ACK_TIMEOUT + 50 ms emitted %d copies", n), c)
				return
			}
			b, _ := ref.ParseUDP(first)
			_ = cc.Process(nil, ref.EncodeUDP(ref.Msg{Type: 2, Code: 0x45, MID: b.MID, Token: b.Token, Payload: []byte("b")}))
			if err := <-db; err != nil {
				rec.Violation("C06/no-success-although-acknowledged", "second request: "+err.Error(), c)
			}
		}(rep)
	}
	wg.Wait()
}
