// Package netenv starts real go-coap servers on loopback sockets for the four transports
// (udp, dtls with PSK, tcp, tls with a run-time generated certificate) and dials real
// clients to them. Used by the close/cancel monitor (C09) and the server robustness monitor (C10).
package netenv

import (
	"context"
	"crypto/ecdsa"
	"crypto/elliptic"
	"crypto/rand"
	"crypto/tls"
	"crypto/x509"
	"crypto/x509/pkix"
	"fmt"
	"io"
	"math/big"
	"net"
	"sync"
	"time"

	piondtls "github.com/pion/dtls/v3"
	"github.com/plgd-dev/go-coap/v3/dtls"
	dtlsserver "github.com/plgd-dev/go-coap/v3/dtls/server"
	"github.com/plgd-dev/go-coap/v3/message"
	"github.com/plgd-dev/go-coap/v3/message/pool"
	"github.com/plgd-dev/go-coap/v3/mux"
	coapNet "github.com/plgd-dev/go-coap/v3/net"
	netclient "github.com/plgd-dev/go-coap/v3/net/client"
	"github.com/plgd-dev/go-coap/v3/options"
	"github.com/plgd-dev/go-coap/v3/tcp"
	tcpclient "github.com/plgd-dev/go-coap/v3/tcp/client"
	tcpserver "github.com/plgd-dev/go-coap/v3/tcp/server"
	"github.com/plgd-dev/go-coap/v3/udp"
	udpclient "github.com/plgd-dev/go-coap/v3/udp/client"
	udpserver "github.com/plgd-dev/go-coap/v3/udp/server"
)

var Kinds = []string{"udp", "dtls", "tcp", "tls"}

// Conn is the client API shared by the datagram and the stream connection types.
type Conn interface {
	Get(ctx context.Context, path string, opts ...message.Option) (*pool.Message, error)
	Post(ctx context.Context, path string, cf message.MediaType, payload io.ReadSeeker, opts ...message.Option) (*pool.Message, error)
	Do(req *pool.Message) (*pool.Message, error)
	Observe(ctx context.Context, path string, observeFunc func(req *pool.Message), opts ...message.Option) (netclient.Observation, error)
	Ping(ctx context.Context) error
	WriteMessage(req *pool.Message) error
	AcquireMessage(ctx context.Context) *pool.Message
	ReleaseMessage(m *pool.Message)
	AddOnClose(f func())
	Close() error
	Done() <-chan struct{}
	Context() context.Context
	RemoteAddr() net.Addr
	LocalAddr() net.Addr
}

type Server struct {
	Kind   string
	Addr   string
	Stop   func()
	Served chan error
	Errs   struct {
		sync.Mutex
		L []string
	}
	dtlsCfg *piondtls.Config
	tlsCli  *tls.Config
}

var (
	certOnce sync.Once
	srvTLS   *tls.Config
	cliTLS   *tls.Config
)

func tlsConfigs() (*tls.Config, *tls.Config) {
	certOnce.Do(func() {
		key, err := ecdsa.GenerateKey(elliptic.P256(), rand.Reader)
		if err != nil {
			panic(err)
		}
		tmpl := &x509.Certificate{SerialNumber: big.NewInt(1), Subject: pkix.Name{CommonName: "verif"}, NotBefore: time.Now().Add(-time.Hour), NotAfter: time.Now().Add(240 * time.Hour),
			KeyUsage: x509.KeyUsageDigitalSignature | x509.KeyUsageCertSign, ExtKeyUsage: []x509.ExtKeyUsage{x509.ExtKeyUsageServerAuth}, IsCA: true, BasicConstraintsValid: true,
			IPAddresses: []net.IP{net.IPv4(127, 0, 0, 1)}, DNSNames: []string{"localhost"}}
		der, err := x509.CreateCertificate(rand.Reader, tmpl, tmpl, &key.PublicKey, key)
		if err != nil {
			panic(err)
		}
		cert := tls.Certificate{Certificate: [][]byte{der}, PrivateKey: key}
		pool := x509.NewCertPool()
		c, _ := x509.ParseCertificate(der)
		pool.AddCert(c)
		srvTLS = &tls.Config{Certificates: []tls.Certificate{cert}, MinVersion: tls.VersionTLS12}
		cliTLS = &tls.Config{RootCAs: pool, ServerName: "localhost", MinVersion: tls.VersionTLS12}
	})
	return srvTLS, cliTLS
}

func pskConfig() *piondtls.Config {
	return &piondtls.Config{
		PSK:             func([]byte) ([]byte, error) { return []byte{0xAB, 0xC1, 0x23}, nil },
		PSKIdentityHint: []byte("verif"),
		CipherSuites:    []piondtls.CipherSuiteID{piondtls.TLS_PSK_WITH_AES_128_CCM_8},
	}
}

// ServerOpts configures Start. Only options valid for every transport may be passed in Common.
type ServerOpts struct {
	Router           *mux.Router
	HandshakeTimeout time.Duration
	Udp              []udpServerOption
	Tcp              []tcpServerOption
	Dtls             []dtlsServerOption
}

// Start starts a server of the given kind with the given router on a free loopback port.
func Start(kind string, o ServerOpts) (*Server, error) {
	s := &Server{Kind: kind, Served: make(chan error, 1)}
	errf := options.WithErrors(func(err error) {
		s.Errs.Lock()
		if len(s.Errs.L) < 200 {
			s.Errs.L = append(s.Errs.L, err.Error())
		}
		s.Errs.Unlock()
	})
	switch kind {
	case "udp":
		l, err := coapNet.NewListenUDP("udp4", "127.0.0.1:0")
		if err != nil {
			return nil, err
		}
		opts := append([]udpServerOption{options.WithMux(o.Router), errf}, o.Udp...)
		srv := udp.NewServer(opts...)
		s.Addr = l.LocalAddr().String()
		s.Stop = srv.Stop
		go func() { s.Served <- srv.Serve(l); _ = l.Close() }()
	case "dtls":
		s.dtlsCfg = pskConfig()
		l, err := coapNet.NewDTLSListener("udp4", "127.0.0.1:0", s.dtlsCfg)
		if err != nil {
			return nil, err
		}
		opts := append([]dtlsServerOption{options.WithMux(o.Router), errf}, o.Dtls...)
		if o.HandshakeTimeout > 0 {
			opts = append(opts, options.WithDTLSHandshakeTimeout(o.HandshakeTimeout))
		}
		srv := dtls.NewServer(opts...)
		s.Addr = l.Addr().String()
		s.Stop = srv.Stop
		go func() { s.Served <- srv.Serve(l); _ = l.Close() }()
	case "tcp":
		l, err := coapNet.NewTCPListener("tcp4", "127.0.0.1:0")
		if err != nil {
			return nil, err
		}
		opts := append([]tcpServerOption{options.WithMux(o.Router), errf}, o.Tcp...)
		srv := tcp.NewServer(opts...)
		s.Addr = l.Addr().String()
		s.Stop = srv.Stop
		go func() { s.Served <- srv.Serve(l); _ = l.Close() }()
	case "tls":
		st, ct := tlsConfigs()
		s.tlsCli = ct
		l, err := coapNet.NewTLSListener("tcp4", "127.0.0.1:0", st)
		if err != nil {
			return nil, err
		}
		opts := append([]tcpServerOption{options.WithMux(o.Router), errf}, o.Tcp...)
		srv := tcp.NewServer(opts...)
		s.Addr = l.Addr().String()
		s.Stop = srv.Stop
		go func() { s.Served <- srv.Serve(l); _ = l.Close() }()
	default:
		return nil, fmt.Errorf("unknown kind %s", kind)
	}
	return s, nil
}

type (
	udpServerOption  = udpserver.Option
	tcpServerOption  = tcpserver.Option
	dtlsServerOption = dtlsserver.Option
)

// ClientOpts: options valid for both client kinds.
type ClientOpts struct {
	Udp []udp.Option
	Tcp []tcp.Option
}

// Dial connects a real client to the server.
func (s *Server) Dial(o ClientOpts) (Conn, error) {
	switch s.Kind {
	case "udp":
		cc, err := udp.Dial(s.Addr, o.Udp...)
		if err != nil {
			return nil, err
		}
		return cc, nil
	case "dtls":
		cc, err := dtls.Dial(s.Addr, pskConfig(), o.Udp...)
		if err != nil {
			return nil, err
		}
		return cc, nil
	case "tcp":
		cc, err := tcp.Dial(s.Addr, o.Tcp...)
		if err != nil {
			return nil, err
		}
		return cc, nil
	case "tls":
		cc, err := tcp.Dial(s.Addr, append([]tcp.Option{options.WithTLS(s.tlsCli)}, o.Tcp...)...)
		if err != nil {
			return nil, err
		}
		return cc, nil
	}
	return nil, fmt.Errorf("unknown kind")
}

// ClientTLS returns the client TLS configuration trusted by the tls server.
func (s *Server) ClientTLS() *tls.Config { return s.tlsCli }

// PSK returns a DTLS client configuration accepted by the dtls server.
func PSK() *piondtls.Config { return pskConfig() }

var _ Conn = (*udpclient.Conn)(nil)
var _ Conn = (*tcpclient.Conn)(nil)
