// Package gen generates well-formed CoAP messages over the boundary classes of the wire
// format (shared by the codec monitors C01/C02 and the framing monitor C07).
package gen

import (
	"math/rand"

	"verifharness/ref"
)

func ExtLen(v int) int {
	switch {
	case v < 13:
		return 0
	case v < 269:
		return 1
	}
	return 2
}

func BodyLen(m ref.Msg) int {
	n := 0
	prev := 0
	for _, o := range m.Opts {
		n += 1 + ExtLen(int(o.ID)-prev) + ExtLen(len(o.Val)) + len(o.Val)
		prev = int(o.ID)
	}
	if len(m.Payload) > 0 {
		n += 1 + len(m.Payload)
	}
	return n
}

// ---------------------------------------------------------------- generator

var deltaClasses = []int{1, 2, 12, 13, 14, 100, 268, 269, 270, 1000, 40000}
var valLenClasses = []int{0, 1, 2, 12, 13, 14, 100, 268, 269, 270, 1034, 5000, 65803, 65804}
var payClasses = []int{0, 0, 1, 2, 11, 12, 13, 14, 100, 255, 256, 267, 268, 269, 270, 1000, 1152, 65535, 65804, 65805, 65806, 70000}
var midClasses = []uint16{0, 1, 255, 256, 32767, 32768, 65534, 65535}

func Fill(rnd *rand.Rand, n int) []byte {
	b := make([]byte, n)
	x := rnd.Uint32()
	for i := range b {
		x = x*1664525 + 1013904223
		b[i] = byte(x >> 24)
	}
	return b
}

// Msg generates one well-formed message. i drives the enumerated classes.
func Msg(rnd *rand.Rand, i int, big bool) ref.Msg {
	var m ref.Msg
	m.Type = uint8(i & 3)
	m.Code = uint8(i >> 2)
	m.Token = Fill(rnd, (i/7)%9)
	if rnd.Intn(3) == 0 {
		m.MID = midClasses[rnd.Intn(len(midClasses))]
	} else {
		m.MID = uint16(rnd.Intn(65536))
	}
	nopts := []int{0, 1, 1, 2, 2, 3, 4, 6, 10, 20}[rnd.Intn(10)]
	id := 0
	budget := 70000
	for k := 0; k < nopts; k++ {
		var delta int
		if k > 0 && rnd.Intn(4) == 0 {
			delta = 0 // repeated option
		} else if rnd.Intn(3) == 0 {
			delta = 1 + rnd.Intn(30)
		} else {
			delta = deltaClasses[rnd.Intn(len(deltaClasses))]
		}
		if id+delta > 65535 {
			delta = 65535 - id
		}
		if id+delta == 0 {
			delta = 1
		}
		id += delta
		var vl int
		if lo, hi, known := ref.RegistryRange(uint16(id)); known {
			// registry-legal length, biased to the bounds
			switch rnd.Intn(4) {
			case 0:
				vl = lo
			case 1:
				vl = hi
			default:
				vl = lo + rnd.Intn(hi-lo+1)
			}
		} else {
			vl = valLenClasses[rnd.Intn(len(valLenClasses))]
			if !big && vl > 1034 {
				vl = valLenClasses[rnd.Intn(11)]
			}
			if rnd.Intn(4) == 0 {
				vl = rnd.Intn(300)
			}
		}
		if vl > budget {
			vl = 0
		}
		budget -= vl
		m.Opts = append(m.Opts, ref.Opt{ID: uint16(id), Val: Fill(rnd, vl)})
	}
	pl := payClasses[rnd.Intn(len(payClasses))]
	if !big && pl > 1152 {
		pl = payClasses[rnd.Intn(17)]
	}
	if rnd.Intn(4) == 0 {
		pl = rnd.Intn(64)
	}
	m.Payload = Fill(rnd, pl)
	return m
}

// Legalize returns m with every option value length made legal for the registry that applies
// to (transport, code): on the stream transport the 7.xx signalling codes have their own
// option registries (RFC 8323 section 5).
func Legalize(stream bool, m ref.Msg) ref.Msg {
	out := m
	out.Opts = append([]ref.Opt(nil), m.Opts...)
	for i, o := range out.Opts {
		lo, hi, known := ref.LegalRange(stream, m.Code, o.ID)
		if !known {
			continue
		}
		switch {
		case len(o.Val) < lo:
			out.Opts[i].Val = append(append([]byte(nil), o.Val...), make([]byte, lo-len(o.Val))...)
		case len(o.Val) > hi:
			out.Opts[i].Val = o.Val[:hi]
		}
	}
	return out
}

// Steer adjusts the payload so that the stream body length (options + marker + payload)
// hits target exactly, when possible.
func Steer(rnd *rand.Rand, m ref.Msg, target int) (ref.Msg, bool) {
	m.Payload = nil
	ol := BodyLen(m)
	switch {
	case ol == target:
		return m, true
	case target-ol-1 >= 1:
		m.Payload = Fill(rnd, target-ol-1)
		return m, true
	}
	return m, false
}
