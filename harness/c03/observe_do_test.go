package c03

import (
	"bytes"
	"context"
	"errors"
	"fmt"
	"sync"
	"sync/atomic"
	"time"

	"github.com/plgd-dev/go-coap/v3/message"
	"github.com/plgd-dev/go-coap/v3/message/codes"
	"github.com/plgd-dev/go-coap/v3/message/pool"
	tcpclient "github.com/plgd-dev/go-coap/v3/tcp/client"

	"verifharness/ref"
	"verifharness/sim"
	"verifharness/vr"
)

// observeDo: a request that carries the Observe option may be issued with Do like any other request (the application
// wants the current representation and the registration in one go, or talks to a peer that answers every GET with an
// Observe option). Its response - here one that needs several blocks - goes to the caller of that Do: same token, the code
// and the whole body the peer produced, and it stays that response while the caller holds it and other exchanges run.
func observeDo(rec *vr.Rec, reps int) {
	for rep := 0; rep < reps; rep++ {
		kind := []string{"udp", "tcp"}[rep%2]
		withObserveInResponse := (rep/2)%2 == 0
		size := []int{100, 700, 3172}[(rep/4)%3]
		c := map[string]any{"scenario": "Do with a request that carries Observe; block-wise response", "transport": kind, "response_carries_observe": withObserveInResponse, "body_bytes": size}
		body := produce([]byte{0xd0, byte(rep)}, []byte(fmt.Sprintf("Bobs-%d", rep)))
		for len(body) < size {
			body = append(body, body...)
		}
		body = body[:size]
		const szx = 2
		const bs = 64
		var cc conn
		var inject func(m ref.Msg)
		var sent func() []ref.Msg
		if kind == "udp" {
			s := sim.NewMemSession()
			u := sim.NewUDPConn(s, sim.UDPOpts{Blockwise: true, SZX: szx, BWTimeout: 3 * time.Second, Pool: pool.New(4, 2048)})
			cc = u
			inject = func(m ref.Msg) { _ = u.Process(nil, ref.EncodeUDP(m)) }
			sent = func() []ref.Msg {
				var out []ref.Msg
				for _, d := range s.Log() {
					if m, err := ref.ParseUDP(d.Data); err == nil {
						out = append(out, m)
					}
				}
				return out
			}
		} else {
			sc := sim.NewScriptConn()
			t, err := sim.NewTCPConn(sc, sim.TCPOpts{Pool: pool.New(4, 2048), Mutate: func(cfg *tcpclient.Config) { cfg.BlockwiseEnable = true; cfg.BlockwiseSZX = szx }})
			if err != nil {
				continue
			}
			cc = t
			inject = func(m ref.Msg) { sc.Feed(ref.EncodeTCP(m)) }
			sent = func() []ref.Msg { ms, _ := ref.ParseTCPStream(sc.Written()); return ms }
			sim.AnnounceBlockwise(sc, t, ref.EncodeTCP(ref.Msg{Code: 7<<5 | 1, Opts: []ref.Opt{{ID: 2, Val: ref.Uint(1152)}, {ID: 4, Val: nil}}}))
		}
		// the peer: serves /obsdo block by block, answers everything else with the path as body
		stop := make(chan struct{})
		peerDone := make(chan struct{})
		go func() {
			defer close(peerDone)
			seen := 0
			for {
				select {
				case <-stop:
					return
				default:
				}
				ms := sent()
				for ; seen < len(ms); seen++ {
					m := ms[seen]
					if m.Code != 1 {
						continue
					}
					if ref.PathOf(m) != "/obsdo" {
						inject(ref.Msg{Type: 2, Code: 0x45, MID: m.MID, Token: m.Token, Payload: []byte("other:" + ref.PathOf(m))})
						continue
					}
					num := 0
					if v, ok := m.GetUint(23); ok {
						num = int(v >> 4)
					}
					lo := num * bs
					if lo > len(body) {
						lo = len(body)
					}
					hi := lo + bs
					more := true
					if hi >= len(body) {
						hi, more = len(body), false
					}
					bv := uint32(num<<4) | szx
					if more {
						bv |= 8
					}
					opts := []ref.Opt{{ID: 4, Val: []byte{0xe7}}}
					if withObserveInResponse && num == 0 { // RFC 7959 2.6: only the first block of a notification carries Observe
						opts = append(opts, ref.Opt{ID: 6, Val: ref.Uint(7)})
					}
					opts = append(opts, ref.Opt{ID: 23, Val: ref.Uint(bv)})
					inject(ref.Msg{Type: 2, Code: 0x45, MID: m.MID, Token: m.Token, Opts: opts, Payload: body[lo:hi]})
				}
				time.Sleep(50 * time.Microsecond)
			}
		}()
		ctx, cancel := context.WithTimeout(context.Background(), 10*time.Second)
		req := cc.AcquireMessage(ctx)
		tok := []byte{0xd0, byte(rep), 0x0b, 0x5e}
		_ = req.SetupGet("/obsdo", tok)
		req.SetObserve(0)
		resp, err := cc.Do(req)
		cc.ReleaseMessage(req)
		rec.Eval(fmt.Sprintf("observe-do|%s|%v|%d", kind, withObserveInResponse, size))
		rec.Count("observe_do_cases", 1)
		check := func(when string) bool {
			b, _ := resp.ReadBody()
			if !bytes.Equal(resp.Token(), tok) || resp.Code() != codes.Content || !bytes.Equal(b, body) {
				rec.Violation("C03/"+kind+"/observe-do/"+when, fmt.Sprintf("the caller of Do (token %x, Observe request) holds a message with token %x, code %v and %d body bytes; the peer produced 2.05 with %d bytes for that token", tok, resp.Token(), resp.Code(), len(b), len(body)), c)
				return false
			}
			return true
		}
		if err != nil {
			nreq, lastNum := 0, -1
			for _, m := range sent() {
				if m.Code == 1 && ref.PathOf(m) == "/obsdo" {
					nreq++
					if v, ok := m.GetUint(23); ok {
						lastNum = int(v >> 4)
					} else {
						lastNum = 0
					}
				}
			}
			rec.Violation("C03/"+kind+"/observe-do/call-failed", fmt.Sprintf("%v (the connection sent %d requests for the resource, the last one for block %d of %d)", err, nreq, lastNum, (len(body)+bs-1)/bs), c)
		} else if check("wrong-response-delivered") {
			// other exchanges while the caller keeps its response
			for k := 0; k < 4; k++ {
				gctx, gc := context.WithTimeout(context.Background(), 5*time.Second)
				greq := cc.AcquireMessage(gctx)
				gt, _ := message.GetToken()
				_ = greq.SetupGet(fmt.Sprintf("/other/%d", k), gt)
				if r2, e2 := cc.Do(greq); e2 == nil {
					cc.ReleaseMessage(r2)
				}
				cc.ReleaseMessage(greq)
				gc()
			}
			if check("response-changed-while-held-by-its-caller") {
				rec.Count("observe_do_responses_intact", 1)
			}
			cc.ReleaseMessage(resp)
		}
		cancel()
		close(stop)
		<-peerDone
		_ = cc.Close()
	}
}

var _ = vr.Seed

// responseOfAnAbandonedRequest: request A is answered by a separate response BEFORE its own acknowledgement arrives (the
// ACK is lost); A's caller gives up while A still waits for that acknowledgement, so A ends with an error although a
// response for it has been received. Request B (another token) is issued next; the peer acknowledges it and takes its
// time with the response. B returns B's response - never what was received for A.
func responseOfAnAbandonedRequest(rec *vr.Rec, reps int) {
	s := sim.NewMemSession()
	cc := sim.NewUDPConn(s, sim.UDPOpts{Pool: pool.New(4, 2048)})
	defer cc.Close()
	seen := 0
	waitReq := func(tok []byte) (ref.Msg, bool) {
		var got ref.Msg
		ok := sim.WaitFor(3*time.Second, func() bool {
			log := s.Log()
			for ; seen < len(log); seen++ {
				if m, err := ref.ParseUDP(log[seen].Data); err == nil && m.Code == 1 && bytes.Equal(m.Token, tok) {
					got = m
					seen++
					return true
				}
			}
			return false
		})
		return got, ok
	}
	type res struct {
		tok, body []byte
		err       error
	}
	do := func(ctx context.Context, path string, tok []byte) chan res {
		ch := make(chan res, 1)
		go func() {
			req := cc.AcquireMessage(ctx)
			_ = req.SetupGet(path, tok)
			resp, err := cc.Do(req)
			cc.ReleaseMessage(req)
			if err != nil {
				ch <- res{err: err}
				return
			}
			b, _ := resp.ReadBody()
			r := res{tok: append([]byte(nil), resp.Token()...), body: b}
			cc.ReleaseMessage(resp)
			ch <- r
		}()
		return ch
	}
	for rep := 0; rep < reps; rep++ {
		c := map[string]any{"scenario": "a request ends with an error after its response had arrived; the next request", "transport": "udp", "round": rep}
		tokA, tokB := []byte{0xa0, byte(rep >> 8), byte(rep)}, []byte{0xb0, byte(rep >> 8), byte(rep)}
		ctxA, cancelA := context.WithCancel(context.Background())
		chA := do(ctxA, "/a", tokA)
		if _, ok := waitReq(tokA); !ok {
			cancelA()
			<-chA
			continue
		}
		_ = cc.Process(nil, ref.EncodeUDP(ref.Msg{Type: 1, Code: 0x45, MID: uint16(52000 + rep), Token: tokA, Payload: []byte(fmt.Sprintf("content of A in round %d", rep))}))
		time.Sleep(300 * time.Microsecond)
		cancelA()
		rA := <-chA
		ctxB, cancelB := context.WithTimeout(context.Background(), 3*time.Second)
		chB := do(ctxB, "/b", tokB)
		reqB, ok := waitReq(tokB)
		if !ok {
			cancelB()
			<-chB
			continue
		}
		_ = cc.Process(nil, ref.EncodeUDP(ref.Msg{Type: 2, Code: 0, MID: reqB.MID}))
		var rB res
		early := false
		select {
		case rB = <-chB:
			early = true
		case <-time.After(15 * time.Millisecond):
			_ = cc.Process(nil, ref.EncodeUDP(ref.Msg{Type: 1, Code: 0x45, MID: uint16(56000 + rep), Token: tokB, Payload: []byte(fmt.Sprintf("content of B in round %d", rep))}))
			rB = <-chB
		}
		cancelB()
		rec.Eval(fmt.Sprintf("abandoned-then-next|%d", rep))
		rec.Count("abandoned_request_rounds", 1)
		if rA.err == nil {
			rec.Count("abandoned_requests_that_still_completed", 1)
		}
		switch {
		case rB.err != nil && early:
			rec.Violation("C03/udp/after-abandoned-request/next-request-failed-early", rB.err.Error(), c)
		case rB.err != nil:
			rec.Violation("C03/udp/after-abandoned-request/next-request-failed", rB.err.Error(), c)
		case !bytes.Equal(rB.tok, tokB) || string(rB.body) != fmt.Sprintf("content of B in round %d", rep):
			rec.Violation("C03/udp/after-abandoned-request/foreign-response-delivered", fmt.Sprintf("request B (token %x) returned a response with token %x and payload %q (returned before its own response was sent: %v)", tokB, rB.tok, rB.body, early), c)
			return
		default:
			rec.Count("next_requests_got_their_own_response", 1)
		}
	}
}

// equalTokenCrowd: many callers (not two) issue a request with ONE caller-chosen token from a barrier while the peer stays
// silent for the whole round. The token is outstanding from the first admitted request until the harness ends the round, so
// every further transmission with that token is a second request accepted on an outstanding token - whatever the order
// in which the callers arrived. The verdict is a count of what was put on the wire, not a time.
func equalTokenCrowd(rec *vr.Rec, kind string, blockwise bool, rounds, callers int) {
	c := ccase{Kind: kind, Blockwise: blockwise, Callers: callers, Tokens: "equal", Policy: "silent"}
	e := newEnv(kind, blockwise, 16)
	defer e.cc.Close()
	witnesses := 0
	for it := 0; it < rounds && witnesses < 4; it++ {
		tok := []byte{0xc7, byte(it), byte(it >> 8), 0x33, byte(callers)}
		var wg sync.WaitGroup
		var start atomic.Bool
		var admitted, rejected atomic.Int32
		// the admitted call stays outstanding until the harness ends the round: a caller the scheduler lets in late
		// still meets an outstanding token (a deadline of the callers' own would let a late one in legitimately)
		ctx, cancel := context.WithCancel(context.Background())
		for i := 0; i < callers; i++ {
			wg.Add(1)
			go func(i int) {
				defer wg.Done()
				req := e.cc.AcquireMessage(ctx)
				_ = req.SetupGet("/crowd", tok)
				for !start.Load() {
				}
				resp, err := e.cc.Do(req)
				e.cc.ReleaseMessage(req)
				if err == nil {
					e.cc.ReleaseMessage(resp)
				}
				if errors.Is(err, context.Canceled) {
					admitted.Add(1)
				} else {
					rejected.Add(1)
				}
			}(i)
		}
		start.Store(true)
		sim.WaitFor(2*time.Second, func() bool { return int(rejected.Load()) >= callers-1 })
		refusedBeforeEnd := rejected.Load()
		onWire := 0
		for _, m := range e.sent() {
			if m.Code == 1 && bytes.Equal(m.Token, tok) {
				onWire++
			}
		}
		cancel()
		wg.Wait()
		rec.Count("equal_token_crowd_rounds", 1)
		rec.Count("equal_token_crowd_refused_while_outstanding", int64(refusedBeforeEnd))
		if onWire > 1 {
			witnesses++
		}
		if onWire > 1 { // housekeeping is owned by the harness and never runs here: no copy is a retransmission
			rec.Violation("C03/"+kind+"/equal-token/second-request-accepted", fmt.Sprintf("%d callers, silent peer: %d requests with the one token were transmitted (%d calls were refused while the round lasted)", callers, onWire, refusedBeforeEnd), c)
		}
	}
	rec.EvalN(int64(rounds), fmt.Sprintf("equal-crowd|%s|%v|%d", kind, blockwise, callers))
}
