package c03

import (
	"bytes"
	"context"
	"fmt"
	"time"

	"github.com/plgd-dev/go-coap/v3/message"
	"github.com/plgd-dev/go-coap/v3/message/codes"
	"github.com/plgd-dev/go-coap/v3/message/pool"
	tcpclient "github.com/plgd-dev/go-coap/v3/tcp/client"

	"verifharness/ref"
	"verifharness/sim"
	"verifharness/vr"
)

// observeDo: a request that carries the Observe option may be issued with Do like any other request (the application
// wants the current representation and the registration in one go, or talks to a peer that answers every GET with an
// Observe option). Its response - here one that needs several blocks - goes to the caller of that Do: same token, the code
// and the whole body the peer produced, and it stays that response while the caller holds it and other exchanges run.
func observeDo(rec *vr.Rec, reps int) {
	for rep := 0; rep < reps; rep++ {
		kind := []string{"udp", "tcp"}[rep%2]
		withObserveInResponse := (rep/2)%2 == 0
		size := []int{100, 700, 3172}[(rep/4)%3]
		c := map[string]any{"scenario": "Do with a request that carries Observe; block-wise response", "transport": kind, "response_carries_observe": withObserveInResponse, "body_bytes": size}
		body := produce([]byte{0xd0, byte(rep)}, []byte(fmt.Sprintf("Bobs-%d", rep)))
		for len(body) < size {
			body = append(body, body...)
		}
		body = body[:size]
		const szx = 2
		const bs = 64
		var cc conn
		var inject func(m ref.Msg)
		var sent func() []ref.Msg
		if kind == "udp" {
			s := sim.NewMemSession()
			u := sim.NewUDPConn(s, sim.UDPOpts{Blockwise: true, SZX: szx, BWTimeout: 3 * time.Second, Pool: pool.New(4, 2048)})
			cc = u
			inject = func(m ref.Msg) { _ = u.Process(nil, ref.EncodeUDP(m)) }
			sent = func() []ref.Msg {
				var out []ref.Msg
				for _, d := range s.Log() {
					if m, err := ref.ParseUDP(d.Data); err == nil {
						out = append(out, m)
					}
				}
				return out
			}
		} else {
			sc := sim.NewScriptConn()
			t, err := sim.NewTCPConn(sc, sim.TCPOpts{Pool: pool.New(4, 2048), Mutate: func(cfg *tcpclient.Config) { cfg.BlockwiseEnable = true; cfg.BlockwiseSZX = szx }})
			if err != nil {
				continue
			}
			cc = t
			inject = func(m ref.Msg) { sc.Feed(ref.EncodeTCP(m)) }
			sent = func() []ref.Msg { ms, _ := ref.ParseTCPStream(sc.Written()); return ms }
			sim.AnnounceBlockwise(sc, t, ref.EncodeTCP(ref.Msg{Code: 7<<5 | 1, Opts: []ref.Opt{{ID: 2, Val: ref.Uint(1152)}, {ID: 4, Val: nil}}}))
		}
		// the peer: serves /obsdo block by block, answers everything else with the path as body
		stop := make(chan struct{})
		peerDone := make(chan struct{})
		go func() {
			defer close(peerDone)
			seen := 0
			for {
				select {
				case <-stop:
					return
				default:
				}
				ms := sent()
				for ; seen < len(ms); seen++ {
					m := ms[seen]
					if m.Code != 1 {
						continue
					}
					if ref.PathOf(m) != "/obsdo" {
						inject(ref.Msg{Type: 2, Code: 0x45, MID: m.MID, Token: m.Token, Payload: []byte("other:" + ref.PathOf(m))})
						continue
					}
					num := 0
					if v, ok := m.GetUint(23); ok {
						num = int(v >> 4)
					}
					lo := num * bs
					if lo > len(body) {
						lo = len(body)
					}
					hi := lo + bs
					more := true
					if hi >= len(body) {
						hi, more = len(body), false
					}
					bv := uint32(num<<4) | szx
					if more {
						bv |= 8
					}
					opts := []ref.Opt{{ID: 4, Val: []byte{0xe7}}}
					if withObserveInResponse && num == 0 { // RFC 7959 2.6: only the first block of a notification carries Observe
						opts = append(opts, ref.Opt{ID: 6, Val: ref.Uint(7)})
					}
					opts = append(opts, ref.Opt{ID: 23, Val: ref.Uint(bv)})
					inject(ref.Msg{Type: 2, Code: 0x45, MID: m.MID, Token: m.Token, Opts: opts, Payload: body[lo:hi]})
				}
				time.Sleep(50 * time.Microsecond)
			}
		}()
		ctx, cancel := context.WithTimeout(context.Background(), 10*time.Second)
		req := cc.AcquireMessage(ctx)
		tok := []byte{0xd0, byte(rep), 0x0b, 0x5e}
		_ = req.SetupGet("/obsdo", tok)
		req.SetObserve(0)
		resp, err := cc.Do(req)
		cc.ReleaseMessage(req)
		rec.Eval(fmt.Sprintf("observe-do|%s|%v|%d", kind, withObserveInResponse, size))
		rec.Count("observe_do_cases", 1)
		check := func(when string) bool {
			b, _ := resp.ReadBody()
			if !bytes.Equal(resp.Token(), tok) || resp.Code() != codes.Content || !bytes.Equal(b, body) {
				rec.Violation("C03/"+kind+"/observe-do/"+when, fmt.Sprintf("the caller of Do (token %x, Observe request) holds a message with token %x, code %v and %d body bytes; the peer produced 2.05 with %d bytes for that token", tok, resp.Token(), resp.Code(), len(b), len(body)), c)
				return false
			}
			return true
		}
		if err != nil {
			nreq, lastNum := 0, -1
			for _, m := range sent() {
				if m.Code == 1 && ref.PathOf(m) == "/obsdo" {
					nreq++
					if v, ok := m.GetUint(23); ok {
						lastNum = int(v >> 4)
					} else {
						lastNum = 0
					}
				}
			}
			rec.Violation("C03/"+kind+"/observe-do/call-failed", fmt.Sprintf("%v (the connection sent %d requests for the resource, the last one for block %d of %d)", err, nreq, lastNum, (len(body)+bs-1)/bs), c)
		} else if check("wrong-response-delivered") {
			// other exchanges while the caller keeps its response
			for k := 0; k < 4; k++ {
				gctx, gc := context.WithTimeout(context.Background(), 5*time.Second)
				greq := cc.AcquireMessage(gctx)
				gt, _ := message.GetToken()
				_ = greq.SetupGet(fmt.Sprintf("/other/%d", k), gt)
				if r2, e2 := cc.Do(greq); e2 == nil {
					cc.ReleaseMessage(r2)
				}
				cc.ReleaseMessage(greq)
				gc()
			}
			if check("response-changed-while-held-by-its-caller") {
				rec.Count("observe_do_responses_intact", 1)
			}
			cc.ReleaseMessage(resp)
		}
		cancel()
		close(stop)
		<-peerDone
		_ = cc.Close()
	}
}

var _ = vr.Seed
