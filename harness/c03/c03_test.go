// C03 — every response reaches exactly the request that carries its token.
//
// Monitor: a scripted peer records, per request it decodes, the response it produced
// (body = H(token || request payload)); every call that returns successfully is checked
// against that table: own token, own content. Callers are released by a barrier; the peer
// answers piggybacked / separate / delayed / duplicated / permuted. Equal-token races and
// CRC-64 colliding tokens of different length are separate sub-cases.
package c03

import (
	"bytes"
	"context"
	"crypto/sha256"
	"fmt"
	"github.com/plgd-dev/go-coap/v3/net/responsewriter"
	"hash/crc64"
	"math/rand"
	"strings"
	"sync"
	"sync/atomic"
	"testing"
	"time"

	"github.com/plgd-dev/go-coap/v3/message"
	"github.com/plgd-dev/go-coap/v3/message/codes"
	"github.com/plgd-dev/go-coap/v3/message/pool"
	tcpclient "github.com/plgd-dev/go-coap/v3/tcp/client"
	udpclient "github.com/plgd-dev/go-coap/v3/udp/client"

	"verifharness/ref"
	"verifharness/sim"
	"verifharness/vr"
)

func produce(tok, pl []byte) []byte {
	h := sha256.Sum256(append(append([]byte{0x03}, tok...), pl...))
	if len(pl) > 0 && pl[0] == 'B' {
		// a response of 2-3.5 KiB in ONE message (no block-wise): larger than every internal buffer threshold
		n := 2100 + int(h[0])*6
		out := make([]byte, 0, n+32)
		for len(out) < n {
			out = append(out, h[:]...)
		}
		return out[:n]
	}
	return h[:20]
}

// conn abstracts the two client connection types.
type conn interface {
	AcquireMessage(ctx context.Context) *pool.Message
	ReleaseMessage(m *pool.Message)
	Do(req *pool.Message) (*pool.Message, error)
	Close() error
}

type env struct {
	kind   string
	cc     conn
	inject func(m ref.Msg)
	sent   func() []ref.Msg
	mid    atomic.Uint32
	stray  atomic.Int64 // responses that reached the default handler
	// strayMu/strayL: separate (CON/NON typed) responses that reached the connection's default handler
	strayMu sync.Mutex
	strayL  []string
}

// slowMonitor: an inactivity monitor whose Notify takes a while - it runs in the receive path after the handler, i.e.
// after a response was handed to its caller, and widens the window in which the caller already owns (and may already
// have released) the message while the receive path is not done with it yet.
type slowMonitor struct{}

func (slowMonitor) Notify() {
	t0 := time.Now()
	for time.Since(t0) < 150*time.Microsecond {
	}
}
func (slowMonitor) CheckInactivity(time.Time, *udpclient.Conn) {}

func newEnv(kind string, blockwise bool, queue int, slowNotify ...bool) *env {
	e := &env{kind: kind}
	var connOpts []udpclient.Option
	if len(slowNotify) > 0 && slowNotify[0] {
		connOpts = append(connOpts, udpclient.WithInactivityMonitor(slowMonitor{}))
	}
	e.mid.Store(20000)
	switch kind {
	case "udp":
		s := sim.NewMemSession()
		cc := sim.NewUDPConn(s, sim.UDPOpts{Blockwise: blockwise, SZX: 6, ConnOptions: connOpts, Handler: func(w *responsewriter.ResponseWriter[*udpclient.Conn], r *pool.Message) {
			if r.Code() >= codes.Created && (r.Type() == message.Confirmable || r.Type() == message.NonConfirmable) {
				e.strayMu.Lock()
				if len(e.strayL) < 50 {
					e.strayL = append(e.strayL, fmt.Sprintf("type=%v mid=%d token=%x code=%v", r.Type(), r.MessageID(), r.Token(), r.Code()))
				}
				e.strayMu.Unlock()
			}
		}, Mutate: func(cfg *udpclient.Config) {
			cfg.ReceivedMessageQueueSize = queue
			cfg.GetMID = func() int32 { return int32((40000 + 0xffff/2) & 0xffff) }
			h := cfg.Handler
			_ = h
		}})
		e.cc = cc
		// like a socket reader: ONE receive buffer per connection, overwritten by the next datagram as soon as Process
		// has returned - whatever the connection keeps of a datagram, it has to keep in memory of its own
		var rxMu sync.Mutex
		rx := make([]byte, 1<<16)
		e.inject = func(m ref.Msg) {
			d := ref.EncodeUDP(m)
			rxMu.Lock()
			n := copy(rx, d)
			_ = cc.Process(nil, rx[:n])
			for i := 0; i < n; i++ {
				rx[i] = 0xA5
			}
			rxMu.Unlock()
		}
		e.sent = func() []ref.Msg {
			var out []ref.Msg
			for _, d := range s.Log() {
				if m, err := ref.ParseUDP(d.Data); err == nil {
					out = append(out, m)
				}
			}
			return out
		}
	case "tcp":
		sc := sim.NewScriptConn()
		cc, err := sim.NewTCPConn(sc, sim.TCPOpts{Mutate: func(cfg *tcpclient.Config) {
			cfg.ReceivedMessageQueueSize = queue
			cfg.BlockwiseEnable = blockwise
		}})
		if err != nil {
			panic(err)
		}
		e.cc = cc
		e.inject = func(m ref.Msg) { sc.Feed(ref.EncodeTCP(m)) }
		e.sent = func() []ref.Msg { ms, _ := ref.ParseTCPStream(sc.Written()); return ms }
		if blockwise {
			// two go-coap stream endpoints never announce block-wise to each other; a peer does
			sim.AnnounceBlockwise(sc, cc, ref.EncodeTCP(ref.Msg{Code: 7<<5 | 1, Opts: []ref.Opt{{ID: 2, Val: ref.Uint(1152)}, {ID: 4, Val: nil}}}))
		}
	}
	return e
}

type ccase struct {
	Kind      string `json:"transport"`
	Blockwise bool   `json:"blockwise"`
	Queue     int    `json:"queue_size"`
	Callers   int    `json:"callers"`
	Tokens    string `json:"tokens"`
	Policy    string `json:"peer_policy"`
	// Hold: callers keep the response for a moment, verify it again and only then release it, while the receive path is
	// slowed down after the hand-over (udp)
	Hold bool `json:"callers_hold_and_recheck,omitempty"`
	// Big: every response is a single message of 2-3.5 KiB
	Big bool `json:"responses_of_2_to_3_KiB_in_one_message,omitempty"`
}

// peer answers requests according to the policy; it keeps the production table.
type peer struct {
	e        *env
	rnd      *rand.Rand
	seen     int
	pending  []ref.Msg
	prod     sync.Map // token(string) -> produced body
	reqSeen  map[string]int
	n        int
	total    int
	crossing bool
	// held: datagram requests not answered yet; crossed: tokens whose response travelled in the ACK of ANOTHER request
	// (a delayed response riding on a later acknowledgement): the ACK acknowledges by message ID, the response is matched
	// by token - a call may get nothing out of it, but never another request's content
	held    []ref.Msg
	crossed sync.Map
}

func (p *peer) isRequest(m ref.Msg) bool { return m.Code >= 1 && m.Code <= 4 }

func (p *peer) flush() {
	if p.n >= p.total {
		for _, x := range p.held {
			xb, _ := p.prod.Load(string(x.Token))
			p.pending = append(p.pending, ref.Msg{Type: 2, Code: 0x45, MID: x.MID, Token: x.Token, Payload: xb.([]byte)})
		}
		p.held = nil
	}
	p.rnd.Shuffle(len(p.pending), func(i, j int) { p.pending[i], p.pending[j] = p.pending[j], p.pending[i] })
	for _, m := range p.pending {
		p.e.inject(m)
	}
	p.pending = nil
}

func (p *peer) step() bool {
	msgs := p.e.sent()
	progressed := false
	for ; p.seen < len(msgs); p.seen++ {
		m := msgs[p.seen]
		if !p.isRequest(m) {
			continue
		}
		progressed = true
		p.n++
		p.reqSeen[string(m.Token)]++
		body := produce(m.Token, m.Payload)
		p.prod.Store(string(m.Token), body)
		pol := p.rnd.Intn(6)
		if p.e.kind == "udp" && p.crossing {
			pol = p.rnd.Intn(9)
		}
		if p.e.kind == "udp" {
			switch pol {
			case 6, 7: // hold: answered later, possibly inside another request's ACK
				if len(p.held) < 3 && p.n < p.total && m.Type == 0 {
					p.held = append(p.held, m)
					continue
				}
				fallthrough
			case 8: // the ACK of this request carries the response of a held one; this request is answered separately
				if len(p.held) > 0 && m.Type == 0 {
					x := p.held[0]
					p.held = p.held[1:]
					xb, _ := p.prod.Load(string(x.Token))
					p.crossed.Store(string(x.Token), true)
					p.e.inject(ref.Msg{Type: 2, Code: 0x45, MID: m.MID, Token: x.Token, Payload: xb.([]byte)})
					p.e.inject(ref.Msg{Type: 2, Code: 0, MID: x.MID})
					p.pending = append(p.pending, ref.Msg{Type: 1, Code: 0x45, MID: uint16(p.e.mid.Add(1)), Token: m.Token, Payload: body})
					break
				}
				p.pending = append(p.pending, ref.Msg{Type: 2, Code: 0x45, MID: m.MID, Token: m.Token, Payload: body})
			case 0, 3: // piggybacked, possibly duplicated
				a := ref.Msg{Type: 2, Code: 0x45, MID: m.MID, Token: m.Token, Payload: body}
				p.pending = append(p.pending, a)
				if pol == 3 {
					p.pending = append(p.pending, a)
				}
			default: // empty ACK now, separate response later (CON or NON, possibly duplicated)
				p.e.inject(ref.Msg{Type: 2, Code: 0, MID: m.MID})
				typ := uint8(0)
				if pol == 2 {
					typ = 1
				}
				a := ref.Msg{Type: typ, Code: 0x45, MID: uint16(p.e.mid.Add(1)), Token: m.Token, Payload: body}
				p.pending = append(p.pending, a)
				if pol >= 4 {
					p.pending = append(p.pending, a)
				}
			}
		} else {
			a := ref.Msg{Code: 0x45, Token: m.Token, Payload: body}
			p.pending = append(p.pending, a)
			if pol >= 4 {
				p.pending = append(p.pending, a)
			}
		}
		if p.rnd.Intn(3) == 0 || p.n >= p.total {
			p.flush()
		}
	}
	return progressed
}

func (p *peer) run(stop chan struct{}) {
	idle := 0
	for {
		select {
		case <-stop:
			return
		default:
		}
		if p.step() {
			idle = 0
			continue
		}
		idle++
		if idle > 40 && (len(p.pending) > 0 || len(p.held) > 0) {
			// nobody else is coming: release what is held back
			for _, x := range p.held {
				xb, _ := p.prod.Load(string(x.Token))
				p.pending = append(p.pending, ref.Msg{Type: 2, Code: 0x45, MID: x.MID, Token: x.Token, Payload: xb.([]byte)})
			}
			p.held = nil
			p.flush()
		}
		time.Sleep(25 * time.Microsecond)
	}
}

func mkToken(rnd *rand.Rand, mode string, i int) []byte {
	switch mode {
	case "library":
		return nil
	case "short":
		l := 1 + i%8
		t := make([]byte, l)
		for k := range t {
			t[k] = byte(rnd.Intn(256))
		}
		t[0] = byte(i) // distinct
		if l > 1 {
			t[1] = byte(i >> 8)
		}
		return t
	case "zero-prefix":
		// tokens that differ only in their length: k zero bytes followed by one value byte
		t := make([]byte, 1+i%8)
		t[len(t)-1] = byte(1 + i/8)
		return t
	case "shared-prefix":
		return []byte{0xab, 0xcd, 0xef, 0x01, 0x23, byte(i >> 8), byte(i)}
	}
	return nil
}

func runCase(rec *vr.Rec, c ccase, rnd *rand.Rand) {
	e := newEnv(c.Kind, c.Blockwise, c.Queue, c.Hold)
	defer e.cc.Close()
	p := &peer{e: e, rnd: rand.New(rand.NewSource(rnd.Int63())), reqSeen: map[string]int{}, total: c.Callers, crossing: c.Policy == "crossed-acks"}
	stop := make(chan struct{})
	var pwg sync.WaitGroup
	pwg.Add(1)
	go func() { defer pwg.Done(); p.run(stop) }()
	var wg sync.WaitGroup
	start := make(chan struct{})
	var okN, errN atomic.Int64
	toks := make([][]byte, c.Callers)
	for i := range toks {
		toks[i] = mkToken(rnd, c.Tokens, i)
	}
	for i := 0; i < c.Callers; i++ {
		wg.Add(1)
		go func(i int) {
			defer wg.Done()
			<-start
			ctx, cancel := context.WithTimeout(context.Background(), 30*time.Second)
			defer cancel()
			pl := []byte(fmt.Sprintf("req-%d", i))
			if c.Big {
				pl = []byte(fmt.Sprintf("Breq-%d", i))
			}
			req := e.cc.AcquireMessage(ctx)
			tok := toks[i]
			if tok == nil {
				t, _ := message.GetToken()
				tok = t
			}
			if err := req.SetupPost("/p", tok, message.TextPlain, bytes.NewReader(pl)); err != nil {
				panic(err)
			}
			resp, err := e.cc.Do(req)
			e.cc.ReleaseMessage(req)
			if err != nil {
				errN.Add(1)
				if _, x := p.crossed.Load(string(tok)); x {
					rec.Count("calls_failed_whose_response_rode_on_a_foreign_ack", 1)
					return
				}
				rec.Violation("C03/"+c.Kind+"/call-failed", fmt.Sprintf("caller %d token %x: %v", i, tok, err), c)
				return
			}
			b, _ := resp.ReadBody()
			if !bytes.Equal(resp.Token(), tok) {
				rec.Violation("C03/"+c.Kind+"/foreign-token-delivered", fmt.Sprintf("caller %d sent token %x, got a response with token %x", i, tok, resp.Token()), c)
			} else if !bytes.Equal(b, produce(tok, pl)) || resp.Code() != codes.Content {
				rec.Violation("C03/"+c.Kind+"/foreign-content-delivered", fmt.Sprintf("caller %d token %x: body %x is not what the peer produced for this request", i, tok, b), c)
			} else {
				okN.Add(1)
			}
			if c.Hold && i%2 == 0 {
				// the response belongs to this caller until it releases it: it must still be the same response a moment later
				t0 := time.Now()
				for time.Since(t0) < time.Duration(40+i%7*30)*time.Microsecond {
				}
				b2, _ := resp.ReadBody()
				if !bytes.Equal(resp.Token(), tok) || !bytes.Equal(b2, produce(tok, pl)) || resp.Code() != codes.Content {
					rec.Violation("C03/"+c.Kind+"/response-changed-while-held-by-its-caller", fmt.Sprintf("caller %d (token %x): the response it holds now has token %x, code %v, %d body bytes", i, tok, resp.Token(), resp.Code(), len(b2)), c)
				}
			}
			e.cc.ReleaseMessage(resp)
		}(i)
	}
	close(start)
	wg.Wait()
	close(stop)
	pwg.Wait()
	rec.Count("calls_checked", okN.Load())
	// every request was answered and every call returned: a separate response that reached the connection's default
	// handler is a copy of a response that was already delivered to its call - processed a second time instead of being
	// recognised as a duplicate by its message ID
	time.Sleep(200 * time.Microsecond)
	e.strayMu.Lock()
	if len(e.strayL) > 0 && errN.Load() == 0 {
		rec.Violation("C03/"+c.Kind+"/duplicate-separate-response-processed-again", fmt.Sprintf("%d separate response(s) reached the default handler although every call had received its response: %v", len(e.strayL), e.strayL), c)
	}
	e.strayMu.Unlock()
	for tok, n := range p.reqSeen {
		if n != 1 {
			rec.Violation("C03/"+c.Kind+"/request-transmitted-more-than-once", fmt.Sprintf("token %x seen %d times on the wire without any retransmission tick", tok, n), c)
		}
	}
}

// equalToken: two calls with the same token from a barrier: at most one is transmitted, the other
// fails without blocking, the first completes with its own response.
func equalToken(rec *vr.Rec, kind string, blockwise bool, n int, rnd *rand.Rand) {
	c := ccase{Kind: kind, Blockwise: blockwise, Callers: 2, Tokens: "equal"}
	for it := 0; it < n; it++ {
		if rec.NViolations() > 8 {
			// every failing iteration costs a caller's full deadline: enough witnesses, end the run with them
			rec.Count("equal_token_iterations_skipped_after_violations", int64(n-it))
			break
		}
		e := newEnv(kind, blockwise, 16)
		tok := []byte{0xe0, byte(it), byte(it >> 8), 0x55}
		type res struct {
			err  error
			body []byte
			tok  []byte
			dur  time.Duration
		}
		results := make([]res, 2)
		var wg sync.WaitGroup
		var startFlag atomic.Bool
		for i := 0; i < 2; i++ {
			wg.Add(1)
			go func(i int) {
				defer wg.Done()
				// short deadline: a caller that registers after the first exchange got its response but
				// before the first call returned loses its handler to the first call's deferred
				// removal-by-key and times out (a failed call, which the statement allows; noted in DESIGN.md)
				ctx, cancel := context.WithTimeout(context.Background(), 2*time.Second)
				defer cancel()
				req := e.cc.AcquireMessage(ctx)
				_ = req.SetupPost("/q", tok, message.TextPlain, bytes.NewReader([]byte{byte(i)}))
				for !startFlag.Load() {
				}
				t0 := time.Now()
				resp, err := e.cc.Do(req)
				results[i].dur = time.Since(t0)
				e.cc.ReleaseMessage(req)
				results[i].err = err
				if err == nil {
					results[i].body, _ = resp.ReadBody()
					results[i].tok = resp.Token()
					e.cc.ReleaseMessage(resp)
				}
			}(i)
		}
		startFlag.Store(true)
		// peer: wait until a request is on the wire, give the second caller the chance to collide,
		// then answer every request that shows up until both callers have returned (a caller that
		// starts only after the first exchange completed issues a legitimate new request)
		sim.WaitFor(20*time.Second, func() bool {
			for _, m := range e.sent() {
				if m.Code == 2 {
					return true
				}
			}
			return false
		})
		time.Sleep(time.Duration(rnd.Intn(200)) * time.Microsecond)
		callersDone := make(chan struct{})
		go func() { wg.Wait(); close(callersDone) }()
		var reqs []ref.Msg
		answered := 0
		overlapped := 0 // requests seen in one scan, i.e. outstanding together
		for done := false; !done; {
			select {
			case <-callersDone:
				done = true
			default:
			}
			reqs = reqs[:0]
			for _, m := range e.sent() {
				if m.Code == 2 {
					reqs = append(reqs, m)
				}
			}
			if n := len(reqs) - answered; n > overlapped {
				overlapped = n
			}
			for _, m := range reqs[answered:] {
				body := produce(m.Token, m.Payload)
				if kind == "udp" {
					e.inject(ref.Msg{Type: 2, Code: 0x45, MID: m.MID, Token: m.Token, Payload: body})
				} else {
					e.inject(ref.Msg{Code: 0x45, Token: m.Token, Payload: body})
				}
				answered++
			}
			if !done {
				time.Sleep(20 * time.Microsecond)
			}
		}
		rec.Count("equal_token_races", 1)
		succ := 0
		for i, r := range results {
			if r.err == nil {
				succ++
				if !bytes.Equal(r.tok, tok) || !bytes.Equal(r.body, produce(tok, []byte{byte(i)})) {
					rec.Violation("C03/"+kind+"/equal-token/displaced", fmt.Sprintf("caller %d got the response produced for the other request with the same token", i), c)
				}
			}
		}
		if overlapped > 1 {
			// two requests with the same token were outstanding on the wire at the same time
			rec.Count("equal_token_both_transmitted", 1)
			rec.Violation("C03/"+kind+"/equal-token/second-request-accepted", "two requests with one token were outstanding (transmitted, unanswered) at the same time", c)
		}
		for _, r := range results {
			if r.err != nil && r.dur > time.Second {
				rec.Count("equal_token_late_registration_timed_out", 1)
			}
		}
		if succ == 0 {
			rec.Violation("C03/"+kind+"/equal-token/first-request-lost", fmt.Sprintf("neither call succeeded: %v / %v", results[0].err, results[1].err), c)
		}
		e.cc.Close()
	}
	rec.EvalN(int64(n), fmt.Sprintf("equal|%s|%v", kind, blockwise))
}

// ---- CRC-64 collision between a 7-byte token and an 8-byte token
func collide8(t7 []byte) []byte {
	tab := crc64.MakeTable(crc64.ISO)
	target := crc64.Checksum(t7, tab)
	zero := make([]byte, 8)
	c0 := crc64.Checksum(zero, tab)
	// columns: effect of each message bit
	var cols [64]uint64
	for i := 0; i < 64; i++ {
		m := make([]byte, 8)
		m[i/8] = 1 << uint(i%8)
		cols[i] = crc64.Checksum(m, tab) ^ c0
	}
	// solve sum x_i cols[i] = target ^ c0 over GF(2)
	want := target ^ c0
	type row struct {
		v    uint64 // combination of columns (as value)
		comb uint64 // which message bits
	}
	var basis [64]*row
	for i := 0; i < 64; i++ {
		r := &row{cols[i], 1 << uint(i)}
		for b := 63; b >= 0; b-- {
			if r.v>>uint(b)&1 == 0 {
				continue
			}
			if basis[b] == nil {
				basis[b] = r
				break
			}
			r.v ^= basis[b].v
			r.comb ^= basis[b].comb
		}
	}
	var comb uint64
	v := want
	for b := 63; b >= 0; b-- {
		if v>>uint(b)&1 == 0 {
			continue
		}
		if basis[b] == nil {
			return nil
		}
		v ^= basis[b].v
		comb ^= basis[b].comb
	}
	out := make([]byte, 8)
	for i := 0; i < 64; i++ {
		if comb>>uint(i)&1 == 1 {
			out[i/8] |= 1 << uint(i%8)
		}
	}
	if crc64.Checksum(out, tab) != target {
		return nil
	}
	return out
}

func collision(rec *vr.Rec, kind string, n int, rnd *rand.Rand) {
	for it := 0; it < n; it++ {
		t7 := make([]byte, 7)
		rnd.Read(t7)
		t8 := collide8(t7)
		if t8 == nil {
			rec.Inconclusive("no colliding 8-byte token found")
			continue
		}
		sigName := "crc64-collision"
		note := "both tokens have the same CRC-64/ISO"
		if it%2 == 1 {
			// second family: tokens that differ only in length (leading zero bytes); distinct keys on the unchanged tree
			t7 = []byte{byte(1 + rnd.Intn(255))}
			t8 = append(make([]byte, 1+rnd.Intn(7)), t7[0])
			sigName = "length-only-difference"
			note = "tokens differ only by leading zero bytes"
		}
		c := map[string]any{"transport": kind, "token_waiting": fmt.Sprintf("%x", t7), "token_cancelled": fmt.Sprintf("%x", t8), "note": note}
		e := newEnv(kind, false, 16)
		// request 1 with the 8-byte token, cancelled before the peer answers
		ctx1, cancel1 := context.WithCancel(context.Background())
		r1 := e.cc.AcquireMessage(ctx1)
		_ = r1.SetupPost("/c", t8, message.TextPlain, bytes.NewReader([]byte("first")))
		d1 := make(chan struct{})
		go func() { _, _ = e.cc.Do(r1); close(d1) }()
		var m1 ref.Msg
		sim.WaitFor(20*time.Second, func() bool {
			for _, m := range e.sent() {
				if m.Code == 2 && bytes.Equal(m.Token, t8) {
					m1 = m
					return true
				}
			}
			return false
		})
		if kind == "udp" {
			e.inject(ref.Msg{Type: 2, Code: 0, MID: m1.MID}) // empty ACK: response will come later
		}
		cancel1()
		<-d1
		// request 2 with the colliding 7-byte token
		ctx2, cancel2 := context.WithTimeout(context.Background(), 20*time.Second)
		r2 := e.cc.AcquireMessage(ctx2)
		_ = r2.SetupPost("/c", t7, message.TextPlain, bytes.NewReader([]byte("second")))
		type res struct {
			tok, body []byte
			err       error
		}
		d2 := make(chan res, 1)
		go func() {
			resp, err := e.cc.Do(r2)
			if err != nil {
				d2 <- res{err: err}
				return
			}
			b, _ := resp.ReadBody()
			d2 <- res{resp.Token(), b, nil}
		}()
		var m2 ref.Msg
		sim.WaitFor(20*time.Second, func() bool {
			for _, m := range e.sent() {
				if m.Code == 2 && bytes.Equal(m.Token, t7) {
					m2 = m
					return true
				}
			}
			return false
		})
		if kind == "udp" {
			e.inject(ref.Msg{Type: 2, Code: 0, MID: m2.MID})
		}
		// the late response to the first (cancelled) request arrives first
		late := ref.Msg{Type: 1, Code: 0x45, MID: uint16(e.mid.Add(1)), Token: t8, Payload: produce(t8, []byte("first"))}
		own := ref.Msg{Type: 1, Code: 0x45, MID: uint16(e.mid.Add(1)), Token: t7, Payload: produce(t7, []byte("second"))}
		e.inject(late)
		time.Sleep(100 * time.Microsecond)
		e.inject(own)
		r := <-d2
		cancel2()
		rec.Eval(fmt.Sprintf("collision|%s|%d", kind, it%4))
		rec.Count("crc64_collision_cases", 1)
		if r.err == nil && (!bytes.Equal(r.tok, t7) || !bytes.Equal(r.body, produce(t7, []byte("second")))) {
			rec.Violation("C03/"+sigName+"/stale-response-delivered", fmt.Sprintf("request with token %x returned the late response of an earlier, cancelled request with the different token %x (%s)", t7, t8, note), c)
		}
		e.cc.Close()
	}
}

func TestRun(t *testing.T) {
	rec := vr.New("C03", "histories: 1..32 (quick) / 1..128 (thorough) callers released together on one real udp (in-memory session) or tcp (scripted net.Conn) connection, block-wise on/off, receive-queue sizes 0/1/16, tokens {library-generated 8-byte, caller-chosen 1..8 bytes, shared 5-byte prefix, zero-prefixed families that differ only in length}; the scripted peer answers piggybacked / piggybacked twice / empty ACK + separate CON or NON / separate twice, holds answers back and releases them permuted; crossed-acks policy (datagram): the response of a held request travels in the ACK of a later request, which is itself answered separately; equal-token races from a barrier; 7-byte vs CRC-64-colliding 8-byte token with a late response to a cancelled request. Distinct = distinct history tuples (transport, block-wise, queue, callers, token mode, PRNG policy stream).")
	defer rec.Flush(true)
	seed := vr.Seed()
	// the pool's lifecycle tracker runs along: a response that is recycled while its caller still holds it (released
	// twice, written after release) is how one response ends up with two callers; the tracker quarantines a double
	// release, so the run survives to report it
	pool.VerifTrackerEnable(true)
	defer pool.VerifTrackerEnable(false)
	defer func() {
		for _, r := range pool.VerifTrackerReports() {
			first := r
			if i := strings.IndexAny(r, ":\n"); i > 0 {
				first = r[:i]
			}
			rec.Violation("C03/pool/"+strings.TrimSpace(strings.Split(first, " (")[0]), r, nil)
		}
	}()
	rnd := rand.New(rand.NewSource(seed))
	var cases []ccase
	maxCallers := vr.Scale(32, 128)
	for i := 0; i < vr.Scale(240, 12000); i++ {
		cases = append(cases, ccase{
			Kind:      []string{"udp", "tcp"}[i%2],
			Blockwise: i%4 < 2,
			Queue:     []int{0, 1, 16}[i%3],
			Callers:   1 + rnd.Intn(maxCallers),
			Tokens:    []string{"library", "short", "shared-prefix", "zero-prefix"}[rnd.Intn(4)],
			Policy:    fmt.Sprintf("prng-%d", i),
		})
	}
	for i := 0; i < vr.Scale(60, 3000); i++ {
		cases = append(cases, ccase{
			Kind:      "udp",
			Blockwise: i%2 == 0,
			Queue:     []int{0, 1, 16}[i%3],
			Callers:   2 + rnd.Intn(maxCallers),
			Tokens:    []string{"library", "short", "shared-prefix", "zero-prefix"}[rnd.Intn(4)],
			Policy:    "crossed-acks",
		})
	}
	for i := 0; i < vr.Scale(40, 2000); i++ {
		cases = append(cases, ccase{
			Kind:    "udp",
			Queue:   []int{1, 16}[i%2],
			Callers: 8 + rnd.Intn(maxCallers),
			Tokens:  "library",
			Policy:  fmt.Sprintf("hold-%d", i),
			Hold:    true,
			Big:     i%2 == 1,
		})
	}
	var wg sync.WaitGroup
	var next atomic.Int64
	for w := 0; w < 6; w++ {
		wg.Add(1)
		go func(w int) {
			defer wg.Done()
			r := rand.New(rand.NewSource(seed*17 + int64(w)))
			for {
				i := int(next.Add(1)) - 1
				if i >= len(cases) {
					return
				}
				if rec.NViolations() > 25 {
					continue
				}
				tc := time.Now()
				runCase(rec, cases[i], r)
				if d := time.Since(tc); d > 3*time.Second {
					rec.Note(fmt.Sprintf("slow history %v: %+v", d, cases[i]))
				}
				rec.Eval(fmt.Sprintf("%+v", cases[i]))
				rec.Count("histories_"+cases[i].Kind, 1)
				if i < 2 {
					rec.Sample(cases[i])
				}
			}
		}(w)
	}
	wg.Wait()
	for _, kind := range []string{"udp", "tcp"} {
		for _, bw := range []bool{false, true} {
			tc := time.Now()
			equalToken(rec, kind, bw, vr.Scale(400, 10000), rnd)
			rec.Count(fmt.Sprintf("phase_ms_equal_token_%s_%v", kind, bw), time.Since(tc).Milliseconds())
			equalTokenCrowd(rec, kind, bw, vr.Scale(50, 1500), 32)
		}
		tc := time.Now()
		collision(rec, kind, vr.Scale(20, 500), rnd)
		rec.Count("phase_ms_collision_"+kind, time.Since(tc).Milliseconds())
	}
	observeDo(rec, vr.Scale(24, 240))
	responseOfAnAbandonedRequest(rec, vr.Scale(40, 800))
	rec.Assume("responses forged for tokens that were never outstanding are not part of the statement")
	rec.Assume("real-thread schedules are sampled: callers start from a barrier, the peer permutes and delays answers by a seeded PRNG")
}
