// C15 — option list and message builder behave like a sorted multiset model.
//
// Monitor: every operation is applied to the real message.Options (caller buffers) or the
// real pool.Message builder and to a reference list; the full list and all queries are
// compared (after every step for PRNG sequences, at the end of every enumerated
// sequence — all prefixes are themselves enumerated).
package c15

import (
	"bytes"
	"context"
	"errors"
	"fmt"
	"math/rand"
	"runtime"
	"strings"
	"sync"
	"testing"

	"github.com/plgd-dev/go-coap/v3/message"
	"github.com/plgd-dev/go-coap/v3/message/pool"

	"verifharness/vr"
)

// ---------------------------------------------------------------- reference model

type mopt struct {
	id  uint16
	val []byte
}
type model []mopt

func (m model) clone() model {
	out := make(model, len(m))
	for i, o := range m {
		out[i] = mopt{o.id, append([]byte(nil), o.val...)}
	}
	return out
}

// rotated returns m rotated left by k positions (a sorted list becomes "up, down, up again").
func rotated(m model, k int) model {
	if len(m) < 2 {
		return m
	}
	k %= len(m)
	return append(append(model{}, m[k:]...), m[:k]...)
}

// sortedStable is the list an input in this order stands for: ascending numbers, equal numbers in input order.
func sortedStable(m model) model {
	var out model
	for _, o := range m {
		out = out.add(o.id, o.val)
	}
	return out
}

func (m model) remove(id uint16) model {
	out := m[:0:0]
	for _, o := range m {
		if o.id != id {
			out = append(out, o)
		}
	}
	return out
}

func (m model) add(id uint16, v []byte) model {
	pos := len(m)
	for i, o := range m {
		if o.id > id {
			pos = i
			break
		}
	}
	out := append(model{}, m[:pos]...)
	out = append(out, mopt{id, append([]byte(nil), v...)})
	return append(out, m[pos:]...)
}

func (m model) set(id uint16, v []byte) model { return m.remove(id).add(id, v) }

func (m model) all(id uint16) [][]byte {
	var out [][]byte
	for _, o := range m {
		if o.id == id {
			out = append(out, o.val)
		}
	}
	return out
}

func (m model) first(id uint16) (int, int) {
	f, l := -1, -1
	for i, o := range m {
		if o.id == id {
			if f < 0 {
				f = i
			}
			l = i + 1
		}
	}
	return f, l
}

func segments(path string) ([]string, bool) {
	var segs []string
	ok := true
	for _, s := range strings.Split(path, "/") {
		if s == "" {
			continue
		}
		if len(s) > 255 {
			ok = false
		}
		segs = append(segs, s)
	}
	return segs, ok
}

func (m model) setPath(id uint16, path string) (model, bool) {
	if path == "" {
		return m, true
	}
	segs, ok := segments(path)
	if !ok {
		return m, false
	}
	out := m.remove(id)
	for _, s := range segs {
		out = out.add(id, []byte(s))
	}
	return out, true
}

func uintVal(v []byte) uint32 {
	if len(v) > 4 {
		v = v[:4]
	}
	var x uint32
	for _, b := range v {
		x = x<<8 | uint32(b)
	}
	return x
}

func uintBytes(v uint32) []byte {
	switch {
	case v == 0:
		return nil
	case v < 1<<8:
		return []byte{byte(v)}
	case v < 1<<16:
		return []byte{byte(v >> 8), byte(v)}
	case v < 1<<24:
		return []byte{byte(v >> 16), byte(v >> 8), byte(v)}
	}
	return []byte{byte(v >> 24), byte(v >> 16), byte(v >> 8), byte(v)}
}

// ---------------------------------------------------------------- comparison

type mismatch struct {
	what, detail string
}

func listEqual(opts message.Options, m model) *mismatch {
	if len(opts) != len(m) {
		return &mismatch{"list-mismatch", fmt.Sprintf("length %d, model %d: got %s want %s", len(opts), len(m), fmtOpts(opts), fmtModel(m))}
	}
	for i := range m {
		if uint16(opts[i].ID) != m[i].id || !bytes.Equal(opts[i].Value, m[i].val) {
			return &mismatch{"list-mismatch", fmt.Sprintf("index %d: got %s want %s", i, fmtOpts(opts), fmtModel(m))}
		}
	}
	return nil
}

func short(b []byte) string {
	if len(b) > 6 {
		return fmt.Sprintf("%x..(%d)", b[:4], len(b))
	}
	return fmt.Sprintf("%x", b)
}

func fmtOpts(o message.Options) string {
	var sb strings.Builder
	for _, x := range o {
		fmt.Fprintf(&sb, "[%d:%s]", x.ID, short(x.Value))
	}
	return sb.String()
}

func fmtModel(m model) string {
	var sb strings.Builder
	for _, x := range m {
		fmt.Fprintf(&sb, "[%d:%s]", x.id, short(x.val))
	}
	return sb.String()
}

var queryIDs = []uint16{1, 4, 6, 8, 11, 12, 15, 17, 60, 258, 65000, 9}

// queriesEqual compares every query operation with the model; it never lets a panic of
// one query hide the others (the caller recovers and names the query).
func queriesEqual(opts message.Options, m model, cur *string) *mismatch {
	for _, id := range queryIDs {
		oid := message.OptionID(id)
		vals := m.all(id)
		n := len(vals)
		wf, wl := m.first(id)
		*cur = "Find"
		f, l, err := opts.Find(oid)
		if n == 0 {
			if !errors.Is(err, message.ErrOptionNotFound) {
				return &mismatch{"Find", fmt.Sprintf("id %d absent: Find = (%d,%d,%v)", id, f, l, err)}
			}
		} else if err != nil || f != wf || l != wl {
			return &mismatch{"Find", fmt.Sprintf("id %d: Find = (%d,%d,%v), model (%d,%d)", id, f, l, err, wf, wl)}
		}
		*cur = "HasOption"
		if opts.HasOption(oid) != (n > 0) {
			return &mismatch{"HasOption", fmt.Sprintf("id %d", id)}
		}
		*cur = "GetBytes"
		b, err := opts.GetBytes(oid)
		if n == 0 {
			if err == nil {
				return &mismatch{"GetBytes", fmt.Sprintf("id %d absent but returned %x", id, b)}
			}
		} else if err != nil || !bytes.Equal(b, vals[0]) {
			return &mismatch{"GetBytes", fmt.Sprintf("id %d: %x %v, model %x", id, b, err, vals[0])}
		}
		*cur = "GetString"
		s, err := opts.GetString(oid)
		if n == 0 {
			if err == nil {
				return &mismatch{"GetString", fmt.Sprintf("id %d absent but returned %q", id, s)}
			}
		} else if err != nil || s != string(vals[0]) {
			return &mismatch{"GetString", fmt.Sprintf("id %d", id)}
		}
		*cur = "GetUint32"
		u, err := opts.GetUint32(oid)
		if n == 0 {
			if err == nil {
				return &mismatch{"GetUint32", fmt.Sprintf("id %d absent but returned %d", id, u)}
			}
		} else if err != nil || u != uintVal(vals[0]) {
			return &mismatch{"GetUint32", fmt.Sprintf("id %d: %d %v, model %d", id, u, err, uintVal(vals[0]))}
		}
		// multi getters with result buffers shorter, equal and longer than needed
		for _, rl := range []int{n - 1, n, n + 2} {
			if rl < 0 {
				continue
			}
			*cur = "GetBytess"
			rb := make([][]byte, rl)
			k, err := opts.GetBytess(oid, rb)
			if mm := multiCheck("GetBytess", id, n, rl, k, err); mm != nil {
				return mm
			}
			if n > 0 && rl >= n {
				for i := 0; i < n; i++ {
					if !bytes.Equal(rb[i], vals[i]) {
						return &mismatch{"GetBytess", fmt.Sprintf("id %d value %d differs", id, i)}
					}
				}
			}
			*cur = "GetStrings"
			rs := make([]string, rl)
			k, err = opts.GetStrings(oid, rs)
			if mm := multiCheck("GetStrings", id, n, rl, k, err); mm != nil {
				return mm
			}
			if n > 0 && rl >= n {
				for i := 0; i < n; i++ {
					if rs[i] != string(vals[i]) {
						return &mismatch{"GetStrings", fmt.Sprintf("id %d value %d differs", id, i)}
					}
				}
			}
			*cur = "GetUint32s"
			ru := make([]uint32, rl)
			k, err = opts.GetUint32s(oid, ru)
			if mm := multiCheck("GetUint32s", id, n, rl, k, err); mm != nil {
				return mm
			}
			if n > 0 && rl >= n {
				for i := 0; i < n; i++ {
					if ru[i] != uintVal(vals[i]) {
						return &mismatch{"GetUint32s", fmt.Sprintf("id %d value %d: %d model %d", id, i, ru[i], uintVal(vals[i]))}
					}
				}
			}
		}
	}
	// derived queries
	for _, pc := range []struct {
		name string
		id   uint16
		f    func() (string, error)
	}{{"Path", 11, opts.Path}, {"LocationPath", 8, opts.LocationPath}} {
		*cur = pc.name
		p, err := pc.f()
		vals := m.all(pc.id)
		if len(vals) == 0 {
			if !errors.Is(err, message.ErrOptionNotFound) {
				return &mismatch{pc.name, fmt.Sprintf("no segments: (%q,%v)", p, err)}
			}
			continue
		}
		want := ""
		for _, v := range vals {
			want += "/" + string(v)
		}
		if err != nil || p != want {
			return &mismatch{pc.name, fmt.Sprintf("got (%q,%v) want %q", short([]byte(p)), err, short([]byte(want)))}
		}
	}
	*cur = "Queries"
	q, err := opts.Queries()
	qv := m.all(15)
	if len(qv) == 0 {
		if err == nil {
			return &mismatch{"Queries", "absent but no error"}
		}
	} else {
		if err != nil || len(q) != len(qv) {
			return &mismatch{"Queries", fmt.Sprintf("got %d (%v) want %d", len(q), err, len(qv))}
		}
		for i := range q {
			if q[i] != string(qv[i]) {
				return &mismatch{"Queries", fmt.Sprintf("value %d differs", i)}
			}
		}
	}
	for _, tc := range []struct {
		name string
		id   uint16
		f    func() (uint32, error)
	}{
		{"ContentFormat", 12, func() (uint32, error) { v, e := opts.ContentFormat(); return uint32(v), e }},
		{"Accept", 17, func() (uint32, error) { v, e := opts.Accept(); return uint32(v), e }},
		{"Observe", 6, opts.Observe},
	} {
		*cur = tc.name
		v, err := tc.f()
		vals := m.all(tc.id)
		if len(vals) == 0 {
			if err == nil {
				return &mismatch{tc.name, "absent but no error"}
			}
			continue
		}
		want := uintVal(vals[0])
		if tc.name != "Observe" {
			want = uint32(uint16(want)) // MediaType is 16 bits wide
		}
		if err != nil || v != want {
			return &mismatch{tc.name, fmt.Sprintf("got %d %v want %d", v, err, want)}
		}
	}
	return nil
}

func multiCheck(name string, id uint16, n, rl, k int, err error) *mismatch {
	switch {
	case n == 0:
		if !errors.Is(err, message.ErrOptionNotFound) {
			return &mismatch{name, fmt.Sprintf("id %d absent: (%d,%v)", id, k, err)}
		}
	case rl < n:
		if !errors.Is(err, message.ErrTooSmall) || k != n {
			return &mismatch{name, fmt.Sprintf("id %d, %d values, result buffer %d: (%d,%v), want (%d,ErrTooSmall)", id, n, rl, k, err, n)}
		}
	default:
		if err != nil || k != n {
			return &mismatch{name, fmt.Sprintf("id %d, %d values, result buffer %d: (%d,%v)", id, n, rl, k, err)}
		}
	}
	return nil
}

// ---------------------------------------------------------------- operations

type op struct {
	Kind string `json:"op"`
	ID   uint16 `json:"id,omitempty"`
	Len  int    `json:"len,omitempty"`  // value length
	Buf  int    `json:"buf,omitempty"`  // -1: one byte too short caller buffer (layer A)
	Path string `json:"path,omitempty"` // for SetPath
	U    uint32 `json:"u,omitempty"`
	Tag  byte   `json:"tag,omitempty"`
}

func value(o op, step int) []byte {
	v := make([]byte, o.Len)
	for i := range v {
		v[i] = byte(int(o.Tag) + step*31 + i*7 + int(o.ID))
	}
	return v
}

func pathOf(o op) string {
	switch o.Path {
	case "LONG255":
		return "/a/" + strings.Repeat("s", 255) + "/z"
	case "LONG256":
		return "/a/" + strings.Repeat("t", 256) + "/z"
	case "BIG":
		return "/" + strings.Repeat("u", 200) + "/" + strings.Repeat("v", 200)
	}
	return o.Path
}

// applyA applies o to the real options (layer A) and to the model; returns a mismatch
// when the immediate result (error/used bytes) disagrees with the model.
func applyA(opts message.Options, m model, o op, step int) (message.Options, model, *mismatch) {
	v := value(o, step)
	oid := message.OptionID(o.ID)
	bufLen := len(v) + 3
	if o.Buf < 0 && len(v) > 0 {
		bufLen = len(v) - 1
	}
	mkbuf := func(n int) []byte {
		if n < 0 {
			n = 0
		}
		return make([]byte, n)
	}
	switch o.Kind {
	case "Set":
		return opts.Set(message.Option{ID: oid, Value: v}), m.set(o.ID, v), nil
	case "Add":
		return opts.Add(message.Option{ID: oid, Value: v}), m.add(o.ID, v), nil
	case "Remove":
		return opts.Remove(oid), m.remove(o.ID), nil
	case "SetBytes", "AddBytes", "SetString", "AddString":
		var no message.Options
		var used int
		var err error
		buf := mkbuf(bufLen)
		switch o.Kind {
		case "SetBytes":
			no, used, err = opts.SetBytes(buf, oid, v)
		case "AddBytes":
			no, used, err = opts.AddBytes(buf, oid, v)
		case "SetString":
			no, used, err = opts.SetString(buf, oid, string(v))
		case "AddString":
			no, used, err = opts.AddString(buf, oid, string(v))
		}
		switch {
		case bufLen < len(v):
			if !errors.Is(err, message.ErrTooSmall) || used != len(v) {
				return no, m, &mismatch{"short-buffer", fmt.Sprintf("(%d,%v), want (%d,ErrTooSmall)", used, err, len(v))}
			}
			return no, m, nil
		case o.ID == 11 && len(v) > 255:
			if !errors.Is(err, message.ErrInvalidValueLength) {
				return no, m, &mismatch{"long-segment-accepted", fmt.Sprintf("%d-byte Uri-Path value: err=%v", len(v), err)}
			}
			return no, m, nil
		}
		if err != nil || used != len(v) {
			return no, m, &mismatch{"unexpected-error", fmt.Sprintf("(%d,%v)", used, err)}
		}
		if strings.HasPrefix(o.Kind, "Set") {
			return no, m.set(o.ID, v), nil
		}
		return no, m.add(o.ID, v), nil
	case "SetUint32", "AddUint32", "SetContentFormat", "SetObserve", "SetAccept":
		enc := uintBytes(o.U)
		bl := len(enc) + 2
		if o.Buf < 0 && len(enc) > 0 {
			bl = len(enc) - 1
		}
		buf := mkbuf(bl)
		var no message.Options
		var used int
		var err error
		id := o.ID
		switch o.Kind {
		case "SetUint32":
			no, used, err = opts.SetUint32(buf, oid, o.U)
		case "AddUint32":
			no, used, err = opts.AddUint32(buf, oid, o.U)
		case "SetContentFormat":
			id = 12
			enc = uintBytes(uint32(uint16(o.U)))
			no, used, err = opts.SetContentFormat(mkbuf(4), message.MediaType(o.U))
		case "SetObserve":
			id = 6
			no, used, err = opts.SetObserve(mkbuf(4), o.U)
			enc = uintBytes(o.U)
		case "SetAccept":
			id = 17
			enc = uintBytes(uint32(uint16(o.U)))
			no, used, err = opts.SetAccept(mkbuf(4), message.MediaType(o.U))
		}
		if (o.Kind == "SetUint32" || o.Kind == "AddUint32") && bl < len(enc) {
			if !errors.Is(err, message.ErrTooSmall) || used != len(enc) {
				return no, m, &mismatch{"short-buffer", fmt.Sprintf("(%d,%v), want (%d,ErrTooSmall)", used, err, len(enc))}
			}
			return no, m, nil
		}
		if err != nil || used != len(enc) {
			return no, m, &mismatch{"unexpected-error", fmt.Sprintf("(%d,%v) want %d", used, err, len(enc))}
		}
		if o.Kind == "AddUint32" {
			return no, m.add(id, enc), nil
		}
		return no, m.set(id, enc), nil
	case "SetPath", "SetLocationPath":
		id := uint16(11)
		if o.Kind == "SetLocationPath" {
			id = 8
		}
		p := pathOf(o)
		segs, ok := segments(p)
		need := 0
		for _, s := range segs {
			need += len(s)
		}
		bl := need + 2
		if o.Buf < 0 && need > 0 {
			bl = need - 1
		}
		buf := mkbuf(bl)
		var no message.Options
		var used int
		var err error
		if id == 11 {
			no, used, err = opts.SetPath(buf, p)
		} else {
			no, used, err = opts.SetLocationPath(buf, p)
		}
		switch {
		case p == "":
			if err != nil || used != 0 {
				return no, m, &mismatch{"unexpected-error", fmt.Sprintf("(%d,%v)", used, err)}
			}
			return no, m, nil
		case !ok:
			if !errors.Is(err, message.ErrInvalidValueLength) {
				return no, m, &mismatch{"long-segment-accepted", fmt.Sprintf("err=%v", err)}
			}
			// refused: the caller keeps its own list, which must be intact
			return opts, m, nil
		case bl < need:
			if !errors.Is(err, message.ErrTooSmall) {
				return no, m, &mismatch{"short-buffer", fmt.Sprintf("(%d,%v), want ErrTooSmall", used, err)}
			}
			return opts, m, nil
		}
		if err != nil || used != need {
			return no, m, &mismatch{"unexpected-error", fmt.Sprintf("(%d,%v) want %d", used, err, need)}
		}
		nm, _ := m.setPath(id, p)
		return no, nm, nil
	case "ResetOptionsTo":
		// reset to a copy of the current model with one more option, through caller buffer
		in := make(message.Options, 0, len(m)+1)
		total := 0
		nm := m.clone()
		nm = nm.add(o.ID, v)
		// the input list is handed over in a rotated (i.e. in general unsorted) order: the result must be the sorted
		// multiset, options of equal number in the order they were given
		nm = rotated(nm, o.Len)
		for _, x := range nm {
			in = append(in, message.Option{ID: message.OptionID(x.id), Value: x.val})
			total += len(x.val)
		}
		nm = sortedStable(nm)
		bl := total + 1
		if o.Buf < 0 && total > 0 {
			bl = total - 1
		}
		no, used, err := opts.ResetOptionsTo(mkbuf(bl), in)
		if bl < total {
			if !errors.Is(err, message.ErrTooSmall) || used != total {
				return no, m, &mismatch{"short-buffer", fmt.Sprintf("(%d,%v) want (%d,ErrTooSmall)", used, err, total)}
			}
			// The statement does not say what a refused reset-to leaves behind (the old content is
			// being discarded anyway), so do what a caller does (and what pool.Message does):
			// retry with a buffer of the reported size; that must succeed.
			no, used, err = opts.ResetOptionsTo(mkbuf(used), in)
			if err != nil || used != total {
				return no, m, &mismatch{"retry-failed", fmt.Sprintf("(%d,%v) want %d", used, err, total)}
			}
			return no, nm, nil
		}
		if err != nil || used != total {
			return no, m, &mismatch{"unexpected-error", fmt.Sprintf("(%d,%v) want %d", used, err, total)}
		}
		return no, nm, nil
	case "Clone":
		c, err := opts.Clone()
		if err != nil {
			return opts, m, &mismatch{"unexpected-error", err.Error()}
		}
		// continue on the clone; scribble over the original's values to prove independence
		for i := range opts {
			for j := range opts[i].Value {
				opts[i].Value[j] ^= 0xff
			}
		}
		return c, m, nil
	}
	panic("unknown op " + o.Kind)
}

// ---------------------------------------------------------------- layer B (pool.Message)

func applyB(msg *pool.Message, m model, o op, step int, p *pool.Pool) (*pool.Message, model, *mismatch) {
	v := value(o, step)
	oid := message.OptionID(o.ID)
	switch o.Kind {
	case "SetBytes":
		msg.SetOptionBytes(oid, v)
		return msg, m.set(o.ID, v), nil
	case "AddBytes":
		msg.AddOptionBytes(oid, v)
		return msg, m.add(o.ID, v), nil
	case "SetString":
		if o.ID == 11 && len(v) > 255 {
			return msg, m, nil // documented panic path (ErrInvalidValueLength -> panic); not exercised
		}
		msg.SetOptionString(oid, string(v))
		return msg, m.set(o.ID, v), nil
	case "AddString":
		if o.ID == 11 && len(v) > 255 {
			return msg, m, nil
		}
		msg.AddOptionString(oid, string(v))
		return msg, m.add(o.ID, v), nil
	case "SetUint32":
		msg.SetOptionUint32(oid, o.U)
		return msg, m.set(o.ID, uintBytes(o.U)), nil
	case "AddUint32":
		msg.AddOptionUint32(oid, o.U)
		return msg, m.add(o.ID, uintBytes(o.U)), nil
	case "SetContentFormat":
		msg.SetContentFormat(message.MediaType(o.U))
		return msg, m.set(12, uintBytes(uint32(uint16(o.U)))), nil
	case "SetObserve":
		msg.SetObserve(o.U)
		return msg, m.set(6, uintBytes(o.U)), nil
	case "SetAccept":
		msg.SetAccept(message.MediaType(o.U))
		return msg, m.set(17, uintBytes(uint32(uint16(o.U)))), nil
	case "Remove":
		msg.Remove(oid)
		return msg, m.remove(o.ID), nil
	case "AddQuery":
		msg.AddQuery(string(v))
		return msg, m.add(15, v), nil
	case "SetETag", "AddETag":
		var err error
		if o.Kind == "SetETag" {
			err = msg.SetETag(v)
		} else {
			err = msg.AddETag(v)
		}
		if len(v) < 1 || len(v) > 8 {
			if err == nil {
				return msg, m, &mismatch{"illegal-etag-accepted", fmt.Sprintf("len %d", len(v))}
			}
			return msg, m, nil
		}
		if err != nil {
			return msg, m, &mismatch{"unexpected-error", err.Error()}
		}
		if o.Kind == "SetETag" {
			return msg, m.set(4, v), nil
		}
		return msg, m.add(4, v), nil
	case "SetPath":
		pth := pathOf(o)
		err := msg.SetPath(pth)
		nm, ok := m.setPath(11, pth)
		if !ok {
			if err == nil {
				return msg, m, &mismatch{"long-segment-accepted", ""}
			}
			return msg, m, nil
		}
		if err != nil {
			return msg, m, &mismatch{"unexpected-error", err.Error()}
		}
		return msg, nm, nil
	case "ResetOptionsTo":
		nm := rotated(m.clone().add(o.ID, v), o.Len)
		in := make(message.Options, 0, len(nm))
		for _, x := range nm {
			in = append(in, message.Option{ID: message.OptionID(x.id), Value: append([]byte(nil), x.val...)})
		}
		nm = sortedStable(nm)
		msg.ResetOptionsTo(in)
		for i := range in { // the input must have been copied
			for j := range in[i].Value {
				in[i].Value[j] ^= 0xff
			}
		}
		return msg, nm, nil
	case "ResetToSelf":
		// reset a message to (a tail of) its own option list: the input values live in the message's own value buffer
		// (the list itself is copied - handing in a sub-slice of the destination's own backing array is not something
		// the statement covers; the VALUES still point into the message's own value buffer)
		own := append(message.Options(nil), msg.Options()...)
		nm := m.clone()
		if o.Len%2 == 1 && len(own) > 1 {
			own = own[1:]
			nm = nm[1:]
		}
		msg.ResetOptionsTo(own)
		return msg, nm, nil
	case "Clone":
		c := p.AcquireMessage(context.Background())
		if err := msg.Clone(c); err != nil {
			return msg, m, &mismatch{"unexpected-error", err.Error()}
		}
		p.ReleaseMessage(msg) // reset of the original must not disturb the clone
		return c, m, nil
	case "Reset":
		msg.Reset()
		return msg, model{}, nil
	case "Recycle":
		p.ReleaseMessage(msg)
		n := p.AcquireMessage(context.Background())
		if len(n.Options()) != 0 {
			return n, model{}, &mismatch{"recycled-not-empty", fmtOpts(n.Options())}
		}
		return n, model{}, nil
	}
	panic("unknown op " + o.Kind)
}

func msgQueries(msg *pool.Message, m model, cur *string) *mismatch {
	*cur = "Message.Path"
	p, err := msg.Path()
	vals := m.all(11)
	if len(vals) == 0 {
		if err == nil {
			return &mismatch{"Message.Path", "absent but no error"}
		}
	} else {
		want := ""
		for _, v := range vals {
			want += "/" + string(v)
		}
		if err != nil || p != want {
			return &mismatch{"Message.Path", fmt.Sprintf("got (%s,%v) want %s", short([]byte(p)), err, short([]byte(want)))}
		}
	}
	*cur = "Message.ETags"
	ev := m.all(4)
	eb := make([][]byte, len(ev)+1)
	n, err := msg.ETags(eb)
	if len(ev) == 0 {
		if err == nil {
			return &mismatch{"Message.ETags", "absent but no error"}
		}
	} else if err != nil || n != len(ev) {
		return &mismatch{"Message.ETags", fmt.Sprintf("(%d,%v) want %d", n, err, len(ev))}
	}
	*cur = "Message.HasOption"
	for _, id := range queryIDs {
		if msg.HasOption(message.OptionID(id)) != (len(m.all(id)) > 0) {
			return &mismatch{"Message.HasOption", fmt.Sprintf("id %d", id)}
		}
	}
	return nil
}

// ---------------------------------------------------------------- drivers

type seqCase struct {
	Layer string `json:"layer"`
	Cap   int    `json:"initial_capacity"`
	Ops   []op   `json:"ops"`
}

type runner struct {
	rec *vr.Rec
	mu  sync.Mutex
}

func (r *runner) violation(layer string, last op, mm *mismatch, c seqCase) {
	r.rec.Violation(fmt.Sprintf("C15/%s/%s/%s", layer, last.Kind, mm.what), mm.detail, c)
}

// runA runs one sequence on message.Options; checkEvery: full check after every step.
func (r *runner) runA(c seqCase, checkEvery bool) {
	opts := make(message.Options, 0, c.Cap)
	m := model{}
	cur := ""
	var last op
	defer func() {
		if e := recover(); e != nil {
			r.rec.Violation(fmt.Sprintf("C15/options/%s/panic", curOr(cur, last.Kind)), fmt.Sprintf("panic: %v (list %s)", e, fmtModel(m)), c)
		}
	}()
	for i, o := range c.Ops {
		last = o
		cur = ""
		var mm *mismatch
		opts, m, mm = applyA(opts, m, o, i)
		if mm != nil {
			r.violation("options", o, mm, c)
			return
		}
		if checkEvery || i == len(c.Ops)-1 {
			if mm := listEqual(opts, m); mm != nil {
				r.violation("options", o, mm, c)
				return
			}
			if mm := queriesEqual(opts, m, &cur); mm != nil {
				r.rec.Violation(fmt.Sprintf("C15/options/%s/query-mismatch", mm.what), mm.detail+" list "+fmtModel(m), c)
				return
			}
			cur = ""
		}
	}
}

func curOr(cur, kind string) string {
	if cur != "" {
		return cur
	}
	return kind
}

func (r *runner) runB(c seqCase, checkEvery bool, p *pool.Pool) {
	msg := p.AcquireMessage(context.Background())
	if c.Cap >= 0 && c.Cap != 16 {
		// start from a message whose option slice has the requested capacity
		msg.SetMessage(message.Message{Options: make(message.Options, 0, c.Cap)})
	}
	m := model{}
	cur := ""
	var last op
	defer func() {
		if e := recover(); e != nil {
			r.rec.Violation(fmt.Sprintf("C15/message/%s/panic", curOr(cur, last.Kind)), fmt.Sprintf("panic: %v (list %s)", e, fmtModel(m)), c)
		}
	}()
	for i, o := range c.Ops {
		last = o
		cur = ""
		var mm *mismatch
		msg, m, mm = applyB(msg, m, o, i, p)
		if mm != nil {
			r.violation("message", o, mm, c)
			return
		}
		if checkEvery || i == len(c.Ops)-1 {
			if mm := listEqual(msg.Options(), m); mm != nil {
				r.violation("message", o, mm, c)
				return
			}
			if mm := queriesEqual(msg.Options(), m, &cur); mm != nil {
				r.rec.Violation(fmt.Sprintf("C15/message/%s/query-mismatch", mm.what), mm.detail+" list "+fmtModel(m), c)
				return
			}
			if mm := msgQueries(msg, m, &cur); mm != nil {
				r.rec.Violation(fmt.Sprintf("C15/message/%s/query-mismatch", mm.what), mm.detail, c)
				return
			}
			cur = ""
		}
	}
	p.ReleaseMessage(msg)
}

func sigOf(c seqCase) string {
	var sb strings.Builder
	sb.WriteString(c.Layer)
	fmt.Fprintf(&sb, "%d", c.Cap)
	for _, o := range c.Ops {
		fmt.Fprintf(&sb, "|%s,%d,%d,%d,%s,%d", o.Kind, o.ID, o.Len, o.Buf, o.Path, o.U)
	}
	return sb.String()
}

func TestRun(t *testing.T) {
	rec := vr.New("C15", "operation sequences on message.Options (caller buffers incl. one-byte-short ones) and on the pool.Message builder: exhaustive over a small alphabet (options: Set/Add/SetBytes/Remove/SetPath/typed setters x ids {4,11,12,15} x sizes; initial capacities 0,1,2,16) up to length 4 (quick) / 5 (thorough), final state fully compared (every prefix is itself enumerated); PRNG sequences of 50..500 ops over the full alphabet with value sizes around the 256-byte inline buffer and paths with empty/255/256-byte segments, compared after every step. A case is one sequence; distinct = distinct sequences (hashed), non-trivial = at least one op.")
	defer rec.Flush(true)
	seed := vr.Seed()
	r := &runner{rec: rec}
	workers := runtime.GOMAXPROCS(0)

	// ---- exhaustive part
	alphaA := []op{
		{Kind: "Set", ID: 11, Len: 1}, {Kind: "Set", ID: 12, Len: 2}, {Kind: "Set", ID: 15, Len: 0}, {Kind: "Set", ID: 4, Len: 3},
		{Kind: "Add", ID: 11, Len: 2}, {Kind: "Add", ID: 12, Len: 1}, {Kind: "Add", ID: 15, Len: 3}, {Kind: "Add", ID: 4, Len: 1},
		{Kind: "Remove", ID: 11}, {Kind: "Remove", ID: 12}, {Kind: "Remove", ID: 15},
		{Kind: "SetBytes", ID: 15, Len: 5}, {Kind: "AddBytes", ID: 11, Len: 4, Buf: -1}, {Kind: "AddBytes", ID: 11, Len: 256},
		{Kind: "SetPath", Path: "/a/b"}, {Kind: "SetPath", Path: "/"}, {Kind: "SetPath", Path: "LONG256"}, {Kind: "SetPath", Path: "//q/", Buf: -1},
		{Kind: "SetUint32", ID: 12, U: 50}, {Kind: "AddUint32", ID: 60, U: 70000},
	}
	alphaB := []op{
		{Kind: "SetBytes", ID: 11, Len: 1}, {Kind: "SetBytes", ID: 12, Len: 2}, {Kind: "SetBytes", ID: 15, Len: 120},
		{Kind: "AddBytes", ID: 11, Len: 2}, {Kind: "AddBytes", ID: 15, Len: 130}, {Kind: "AddBytes", ID: 4, Len: 1},
		{Kind: "Remove", ID: 11}, {Kind: "Remove", ID: 15},
		{Kind: "SetPath", Path: "/a/b"}, {Kind: "SetPath", Path: "LONG256"}, {Kind: "SetPath", Path: "BIG"}, {Kind: "SetPath", Path: "/"},
		{Kind: "SetUint32", ID: 12, U: 50}, {Kind: "AddQuery", Len: 3}, {Kind: "SetETag", Len: 9}, {Kind: "AddETag", Len: 8},
		{Kind: "ResetOptionsTo", ID: 15, Len: 200}, {Kind: "Clone"}, {Kind: "Recycle"},
	}
	maxLen := vr.Scale(4, 5)
	caps := []int{0, 1, 2, 16}
	enumerate := func(layer string, alpha []op, maxLen int) {
		jobs := make(chan seqCase, 1024)
		var wg sync.WaitGroup
		for w := 0; w < workers; w++ {
			wg.Add(1)
			go func() {
				defer wg.Done()
				p := pool.New(2, 2048)
				var n int64
				for c := range jobs {
					if layer == "options" {
						r.runA(c, false)
					} else {
						r.runB(c, false, p)
					}
					n++
				}
				rec.EvalN(n, "")
				rec.DistinctAdd(n)
				rec.Count("enumerated_sequences_"+layer, n)
			}()
		}
		idx := make([]int, maxLen)
		for L := 1; L <= maxLen; L++ {
			for i := range idx {
				idx[i] = 0
			}
			for {
				ops := make([]op, L)
				for i := 0; i < L; i++ {
					ops[i] = alpha[idx[i]]
				}
				for _, cp := range caps {
					jobs <- seqCase{Layer: layer, Cap: cp, Ops: ops}
				}
				k := L - 1
				for k >= 0 {
					idx[k]++
					if idx[k] < len(alpha) {
						break
					}
					idx[k] = 0
					k--
				}
				if k < 0 {
					break
				}
			}
		}
		close(jobs)
		wg.Wait()
	}
	enumerate("options", alphaA, maxLen)
	enumerate("message", alphaB, maxLen-1)

	// ---- PRNG part
	ids := []uint16{1, 4, 6, 8, 11, 12, 15, 17, 60, 258, 65000}
	lens := []int{0, 1, 2, 3, 4, 5, 8, 9, 12, 13, 100, 200, 254, 255, 256, 257, 300, 600}
	paths := []string{"", "/", "//", "/a", "a", "a/", "/a/b/c", "//a///b//", "LONG255", "LONG256", "BIG", "/x/" + strings.Repeat("y", 254), strings.Repeat("/k", 40)}
	kindsA := []string{"Set", "Add", "Remove", "SetBytes", "AddBytes", "SetString", "AddString", "SetUint32", "AddUint32", "SetContentFormat", "SetObserve", "SetAccept", "SetPath", "SetLocationPath", "ResetOptionsTo", "Clone"}
	kindsB := []string{"SetBytes", "AddBytes", "SetString", "AddString", "SetUint32", "AddUint32", "SetContentFormat", "SetObserve", "SetAccept", "Remove", "AddQuery", "SetETag", "AddETag", "SetPath", "ResetOptionsTo", "ResetToSelf", "Clone", "Reset", "Recycle"}
	uints := []uint32{0, 1, 255, 256, 65535, 65536, 1<<24 - 1, 1 << 24, 1<<32 - 1, 42, 10000}
	gen := func(rnd *rand.Rand, kinds []string, n int) []op {
		ops := make([]op, n)
		for i := range ops {
			o := op{Kind: kinds[rnd.Intn(len(kinds))], ID: ids[rnd.Intn(len(ids))], Len: lens[rnd.Intn(len(lens))], Tag: byte(rnd.Intn(256)), U: uints[rnd.Intn(len(uints))]}
			if rnd.Intn(8) == 0 {
				o.Buf = -1
			}
			if o.Kind == "SetPath" || o.Kind == "SetLocationPath" {
				o.Path = paths[rnd.Intn(len(paths))]
			}
			if (o.Kind == "Reset" || o.Kind == "Recycle" || o.Kind == "Clone") && rnd.Intn(3) != 0 {
				o.Kind = "AddBytes" // keep resets rare so that lists grow
			}
			if o.Kind == "Remove" && rnd.Intn(2) == 0 {
				o.Kind = "AddBytes"
			}
			ops[i] = o
		}
		return ops
	}
	nseq := vr.Scale(600, 20000)
	var wg sync.WaitGroup
	for w := 0; w < workers; w++ {
		wg.Add(1)
		go func(w int) {
			defer wg.Done()
			rnd := rand.New(rand.NewSource(seed*1000 + int64(w)))
			p := pool.New(4, 2048)
			for i := w; i < nseq; i += workers {
				n := 50 + rnd.Intn(451)
				if i%2 == 0 {
					c := seqCase{Layer: "options", Cap: caps[rnd.Intn(len(caps))], Ops: gen(rnd, kindsA, n)}
					r.runA(c, true)
					rec.Eval(sigOf(c))
					rec.Count("prng_steps_options", int64(n))
					if i < 2 {
						rec.Sample(seqCase{c.Layer, c.Cap, c.Ops[:6]})
					}
				} else {
					c := seqCase{Layer: "message", Cap: []int{0, 1, 2, 16}[rnd.Intn(4)], Ops: gen(rnd, kindsB, n)}
					r.runB(c, true, p)
					rec.Eval(sigOf(c))
					rec.Count("prng_steps_message", int64(n))
					if i < 2 {
						rec.Sample(seqCase{c.Layer, c.Cap, c.Ops[:6]})
					}
				}
			}
		}(w)
	}
	wg.Wait()

	// ---- path split/join over a grammar
	rnd := rand.New(rand.NewSource(seed ^ 0x15))
	npath := vr.Scale(20000, 400000)
	segPool := []string{"", "", "a", "b", "seg", "x.y", "%20", strings.Repeat("m", 254), strings.Repeat("n", 255), strings.Repeat("o", 256), strings.Repeat("p", 300), "ü", " "}
	for i := 0; i < npath; i++ {
		k := rnd.Intn(7)
		parts := make([]string, k)
		for j := range parts {
			parts[j] = segPool[rnd.Intn(len(segPool))]
		}
		pth := strings.Join(parts, "/")
		if rnd.Intn(2) == 0 {
			pth = "/" + pth
		}
		segs, ok := segments(pth)
		func() {
			defer func() {
				if e := recover(); e != nil {
					rec.Violation("C15/path/panic", fmt.Sprint(e), pth)
				}
			}()
			msg := pool.NewMessage(context.Background())
			err := msg.SetPath(pth)
			if !ok {
				if err == nil {
					rec.Violation("C15/path/long-segment-accepted", short([]byte(pth)), nil)
				}
				return
			}
			if err != nil {
				rec.Violation("C15/path/refused", fmt.Sprintf("%s: %v", short([]byte(pth)), err), nil)
				return
			}
			got, err := msg.Path()
			if len(segs) == 0 {
				if pth != "" && err == nil && got != "" {
					rec.Violation("C15/path/join-mismatch", fmt.Sprintf("no segments but path %q", got), nil)
				}
				return
			}
			want := "/" + strings.Join(segs, "/")
			if err != nil || got != want {
				rec.Violation("C15/path/join-mismatch", fmt.Sprintf("path(split(%q)) = %q,%v want %q", short([]byte(pth)), short([]byte(got)), err, short([]byte(want))), nil)
			}
			sz, err := message.GetPathBufferSize(pth)
			need := 0
			for _, s := range segs {
				need += len(s)
			}
			if err != nil || sz != need {
				rec.Violation("C15/path/buffer-size", fmt.Sprintf("GetPathBufferSize = %d,%v want %d", sz, err, need), nil)
			}
		}()
		rec.Eval("path:" + fmt.Sprint(len(pth), k, ok, len(segs)))
		rec.Count("paths_checked", 1)
	}
	rec.Assume("the reference list (stable sorted multiset of id/value copies) is the intended semantics; a refused edit leaves the list unchanged")
}
