#!/bin/bash
# usage: tools/load_stress.sh <Cxx> [copies=16] [tier=quick]
# Runs <copies> concurrent processes of the already built check binary of one property (seeds 1..copies) on the CURRENT tree,
# i.e. the check under a machine load it never sees when run alone, and lists every violation / inconclusive / race report.
# A check that is only quiet on an idle machine is not quiet.
set -u
P=$1; N=${2:-16}; T=${3:-quick}
p=$(echo $P | tr A-Z a-z)
bin=$(ls /verif/.build/$p.*.test | grep -v alt | head -1)
D=/tmp/ls/$P; rm -rf $D; mkdir -p $D
cd /verif/harness/$p
pids=()
for i in $(seq 1 $N); do
  VERIF_TIER=$T VERIF_SEED=$i VERIF_DIR=/verif VERIF_OUT=$D/$i.json GORACE="halt_on_error=0 exitcode=0 history_size=3 log_path=$D/race.$i" \
    timeout -s QUIT -k 20 ${WD:-1500} $bin -test.run '^TestRun$' -test.timeout 0 -test.v > $D/$i.out 2>&1 &
  pids+=($!)
done
rc=0
for x in "${pids[@]}"; do wait $x || rc=1; done
python3 - $D $N <<'PY'
import json,sys,glob,os
D,N=sys.argv[1],int(sys.argv[2])
bad=0
known=[k["signature"] for k in json.load(open("/verif/known_findings.json")) if k.get("status")=="known"]
def is_known(sig):
    return any((sig.startswith(k[:-1]) if k.endswith("*") else sig==k) for k in known)
for i in range(1,N+1):
    f=os.path.join(D,"%d.json"%i)
    try: d=json.load(open(f))
    except Exception as e:
        print("seed",i,"NO RESULT",e); bad+=1; continue
    if not d.get("complete"): print("seed",i,"incomplete"); bad+=1
    for v in d.get("violations",[]):
        if is_known(v["signature"]): continue
        print("seed",i,"VIOL",v["signature"],"|",str(v.get("detail"))[:int(os.environ.get("W","300"))],"|",str(v.get("case"))[:int(os.environ.get("W","300"))]); bad+=1
    if d.get("inconclusive"): print("seed",i,"inconclusive",d["inconclusive"],d.get("notes",[])[:3])
races=glob.glob(os.path.join(D,"race.*"))
if races: print("race logs:",len(races)); bad+=1
print(os.path.basename(D),"copies",N,"problems",bad)
PY
