#!/usr/bin/env python3
"""Regenerates the seeded-changes table in DESIGN.md (between the SEEDED-TABLE markers) from
seeded/RESULTS.tsv (written by tools/seed_matrix.sh), seeded/HISTORY.json and each meta.json."""
import json, os, re
V = '/verif'
hist = json.load(open(f'{V}/seeded/HISTORY.json'))
res = {}
for l in open(f'{V}/seeded/RESULTS.tsv'):
    p = l.rstrip('\n').split('\t')
    if len(p) >= 3:
        res[p[0]] = (p[1], [s for s in p[2].split(';') if s])
out = ['| seeded change (`seeded/<dir>`) | what it breaks / what it needs | first run of the check | now: signatures reported by `./check Cxx quick` |', '|---|---|---|---|']
for n in sorted(os.listdir(f'{V}/seeded')):
    d = f'{V}/seeded/{n}'
    if not os.path.isdir(d):
        continue
    m = json.load(open(d + '/meta.json'))
    summ = re.sub(r'\s+', ' ', m['summary'])
    summ = summ[:230] + ('…' if len(summ) > 230 else '')
    h = hist.get(n, {'first': '?', 'note': ''})
    nv, sigs = res.get(n, ('?', []))
    shown = ', '.join('`%s`' % s[:70] for s in sigs[:4]) + (' …' if len(sigs) > 4 else '')
    if not sigs:
        shown = '**not caught**'
    first = h['first'] + (': ' + h['note'] if h['note'] else '')
    out.append('| `%s` | %s | %s | %s |' % (n, summ.replace('|', '\\|'), first.replace('|', '\\|'), shown.replace('|', '\\|')))
table = '\n'.join(out)
p = f'{V}/DESIGN.md'
s = open(p).read()
if 'SEEDED_TABLE_PLACEHOLDER' in s:
    s = s.replace('SEEDED_TABLE_PLACEHOLDER', '<!-- SEEDED-TABLE-BEGIN -->\n<!-- SEEDED-TABLE-END -->')
s = re.sub(r'<!-- SEEDED-TABLE-BEGIN -->.*?<!-- SEEDED-TABLE-END -->', lambda _: '<!-- SEEDED-TABLE-BEGIN -->\n' + table + '\n<!-- SEEDED-TABLE-END -->', s, flags=re.S)
open(p, 'w').write(s)
print(len(out) - 2, 'rows')
