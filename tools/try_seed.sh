#!/bin/bash
# usage: tools/try_seed.sh <patch.diff> <Cxx> [more checks...]
# Applies a seeded change to /repo, runs the given checks (quick tier), and restores /repo.
# Never leaves the change applied.
set -u
PATCH=$1; shift
cd /repo || exit 2
if ! git diff --quiet; then echo "/repo has uncommitted changes; refusing"; exit 2; fi
git apply "$PATCH" || { echo "patch does not apply"; exit 2; }
trap 'git -C /repo checkout -- . >/dev/null 2>&1' EXIT
cd /verif
for c in "$@"; do
  out=$(VERIF_EVIDENCE_DIR=/verif/.scratch/evidence-trials VERIF_SEED=${VERIF_SEED:-1} ./check "$c" ${TIER:-quick} 2>&1 | grep -v '^CASE')
  rc=$?
  echo "== $c: $(echo "$out" | grep -c '^VIOLATION') violation line(s)"
  echo "$out" | grep -E "violation signature|^BROKEN" | sort | uniq -c | head -8
done
