#!/bin/bash
# usage: tools/seed_matrix.sh [seed-dir-names...]  — applies every kept seeded change to /repo in turn, runs the check of its
# property (quick tier), records the violation signatures, restores /repo. Writes seeded/RESULTS.tsv.
set -u
cd /verif
names=("$@"); [ ${#names[@]} -eq 0 ] && names=($(ls seeded | grep '^C[0-9]'))
for n in "${names[@]}"; do
  c=${n%%-*}
  out=$(tools/try_seed.sh /verif/seeded/$n/patch.diff $c 2>&1)
  nv=$(echo "$out" | grep -o '[0-9]* violation line' | grep -o '^[0-9]*')
  sigs=$(echo "$out" | grep 'violation signature' | sed 's/.*violation signature: //' | cut -c1-90 | sort -u | tr '\n' ';')
  printf "%s\t%s\t%s\n" "$n" "${nv:-?}" "$sigs"
  rm -rf replays/$c
done | tee seeded/RESULTS.tsv
git -C /repo status --short | head -3
