#!/bin/bash
# usage: tools/confirm_seed.sh <worktree> <demo-pkg-dir-relative> [go test -run regex]
# Confirms a seeded change in its scratch worktree: suite passes with the change, demo fails
# with it and passes without it. Leaves the worktree clean (SEED/ kept).
set -u
WT=$1; PKG=$2; RUN=${3:-.}
export GOFLAGS=-mod=mod GOPROXY=off GOSUMDB=off GOTOOLCHAIN=local
G=/root/go/pkg/mod/golang.org/toolchain@v0.0.1-go1.24.0.linux-amd64/bin/go
cd "$WT" || exit 2
git checkout -q -- . ; git clean -fdq -e SEED
cp SEED/*_test.go "$PKG"/ 2>/dev/null
echo "--- demo WITHOUT change:"; (cd "$PKG" && timeout 600 $G test -vet=off -count=1 -run "$RUN" . 2>&1 | tail -3)
git apply SEED/patch.diff || { echo "PATCH DOES NOT APPLY"; exit 1; }
echo "--- demo WITH change:"; (cd "$PKG" && timeout 600 $G test -vet=off -count=1 -run "$RUN" . 2>&1 | tail -4)
rm -f "$PKG"/$(ls SEED | grep _test.go | head -1)
for f in SEED/*_test.go; do rm -f "$PKG/$(basename $f)"; done
echo "--- suite WITH change:"
timeout 900 $G test -vet=off -count=1 -json $($G list ./... | grep -v /SEED) 2>/dev/null | python3 -c "
import sys,json
p=f=0;fails=[]
for l in sys.stdin:
    try:e=json.loads(l)
    except: continue
    if e.get('Test') and e.get('Action') in('pass','fail'):
        if e['Action']=='pass':p+=1
        else:f+=1;fails.append(e['Package'].split('/v3/')[-1]+'::'+e['Test'])
exp={'net::TestUDPConnWriteToAddr','net::TestUDPConnWriteWithContext'}
print('passed',p,'failed',f,'unexpected',[x for x in fails if x not in exp])"
git checkout -q -- . ; git clean -fdq -e SEED
