#!/bin/bash
# usage: tools/try_seed_alt.sh <patch.diff> <Cxx> [more checks...]
# Like tools/try_seed.sh but on a scratch worktree (/tmp/cleanrepo, created on demand from /repo's HEAD), so that /repo
# stays untouched while something else is using it.
set -u
PATCH=$1; shift
A=${ALT:-/tmp/cleanrepo}
[ -d $A ] || git -C /repo worktree add -q --detach $A HEAD || exit 2
cd $A && git checkout -q -- . && git apply "$PATCH" || { echo "patch does not apply"; exit 2; }
trap "git -C $A checkout -q -- ." EXIT
cd /verif
for c in "$@"; do
  out=$(VERIF_REPO_DIR=$A VERIF_EVIDENCE_DIR=/verif/.scratch/evidence-trials-alt$(basename $A) VERIF_SEED=${VERIF_SEED:-1} ./check "$c" ${TIER:-quick} 2>&1 | grep -v '^CASE')
  echo "== $c: $(echo "$out" | grep -c '^VIOLATION') violation line(s)"
  echo "$out" | grep -E "violation signature|^BROKEN" | sort | uniq -c | head -8
done
