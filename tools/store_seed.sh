#!/bin/bash
# usage: tools/store_seed.sh <worktree> <name>   — copies SEED/ into /verif/seeded/<name>/ (tests as .txt so no tool picks them up)
set -eu
WT=$1; N=$2; D=/verif/seeded/$N
mkdir -p "$D"
cp "$WT/SEED/patch.diff" "$WT/SEED/meta.json" "$D/"
for f in "$WT"/SEED/*_test.go "$WT"/SEED/*.go; do [ -f "$f" ] && cp "$f" "$D/$(basename "$f").txt"; done
ls "$D"
