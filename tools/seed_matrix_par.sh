#!/bin/bash
# usage: tools/seed_matrix_par.sh [workers=4]
# Like tools/seed_matrix.sh, but never touches /repo: every worker owns a scratch worktree of /repo's HEAD under /tmp/mx,
# applies one kept seeded change at a time there and runs the check of its property against that tree
# (VERIF_REPO_DIR). All seeds of one property go to the same worker. Writes seeded/RESULTS.tsv; removes the worktrees.
set -u
W=${1:-4}
cd /verif
rm -rf /tmp/mx; mkdir -p /tmp/mx
git -C /repo worktree prune
for k in $(seq 1 $W); do git -C /repo worktree add -q --detach /tmp/mx/w$k HEAD || exit 2; done
props=($(ls seeded | grep '^C[0-9]' | sed 's/-.*//' | sort -u))
worker() {
  k=$1; shift
  for c in "$@"; do
    for n in $(ls seeded | grep "^$c-\|^$c\$"); do
      ( cd /tmp/mx/w$k && git checkout -q -- . && git apply /verif/seeded/$n/patch.diff ) || { printf "%s\t?\tpatch does not apply\n" "$n" >> /tmp/mx/out.$k; continue; }
      out=$(VERIF_REPO_DIR=/tmp/mx/w$k VERIF_EVIDENCE_DIR=/verif/.scratch/evidence-trials-$k VERIF_SEED=${VERIF_SEED:-1} ./check $c quick 2>&1 | grep -v '^CASE')
      nv=$(echo "$out" | grep -c '^VIOLATION')
      sigs=$(echo "$out" | grep -E 'violation signature|^BROKEN' | sed 's/.*violation signature: //' | cut -c1-90 | sort -u | tr '\n' ';')
      printf "%s\t%s\t%s\n" "$n" "$nv" "$sigs" >> /tmp/mx/out.$k
      ( cd /tmp/mx/w$k && git checkout -q -- . )
    done
    rm -rf replays/$c
  done
}
pids=()
for k in $(seq 1 $W); do
  mine=()
  for i in "${!props[@]}"; do [ $((i % W + 1)) -eq $k ] && mine+=("${props[$i]}"); done
  worker $k "${mine[@]}" &
  pids+=($!)
done
for p in "${pids[@]}"; do wait $p; done
cat /tmp/mx/out.* | sort > seeded/RESULTS.tsv
for k in $(seq 1 $W); do git -C /repo worktree remove --force /tmp/mx/w$k; done
git -C /repo worktree prune; rm -rf /tmp/mx
awk -F'\t' '$2=="0"||$2=="?"' seeded/RESULTS.tsv
echo "rows: $(wc -l < seeded/RESULTS.tsv)"
