#!/usr/bin/env python3
"""Generates /verif/MANIFEST.json from the table below; a property is claimed when its
monitor package exists under harness/<id>/ and it has an entry in CLAIMS."""
import json
import os
import subprocess

VERIF = os.path.dirname(os.path.dirname(os.path.abspath(__file__)))

CLAIMS = {
    "C01": dict(
        cat="exploration", ref="DESIGN.md §4 C01",
        technique="differential runtime monitor: real coders vs independent RFC reference encoder over generated boundary-class messages, canary buffers, checkptr build",
        text="Every generated well-formed message (boundary classes enumerated, rest PRNG) is encoded and decoded by the real datagram and stream coders while a monitor compares: round-trip equality, bytes consumed, Size==bytes written, byte equality with an independent RFC 7252/8323 reference encoder, (size, ErrTooSmall) and untouched canary for every/selected short buffer lengths, refusal of out-of-precondition messages. Held-on-K-inputs evidence, not a proof.",
        note="Trusted: the reference encoder in harness/ref (written from the RFC text), Go's bounds checks + checkptr as the memory monitor. Type 4..255 accepted by the datagram encoder is a recorded known finding."),
    "C02": dict(
        cat="exploration", ref="DESIGN.md §4 C02",
        technique="differential runtime monitor: real decoders vs independent reference parser on exhaustive short strings, mutations and truncations; aliasing canary on pooled messages; child-process crash/hang watchdog",
        text="Arbitrary byte strings (exhaustive over a reduced alphabet up to a small length, every truncation/bit flip/boundary substitution of valid encodings, PRNG tails for every first byte) are fed to both decoders, the stream header pre-parser and the pooled-message API (fresh and recycled messages) and to a live udp Conn.Process; monitors compare accept/reject and all fields with a reference parser, re-encode and re-decode, overwrite the caller buffer and re-read, and a watchdog bounds every batch. Also: frame lengths at the 32-bit limit for every token length, option-length grid over all registries, live connections whose application keeps messages while the receive buffer is overwritten.",
        note="Trusted: reference parser in harness/ref with the three documented leniencies; exhaustive part is over a reduced alphabet; totality = returned within the watchdog."),
    "C03": dict(
        cat="exploration", ref="DESIGN.md §4 C03",
        technique="runtime history monitor: scripted peer records produced responses per (token, request); every returned call checked against it under -race stress",
        text="Real connections (udp in-memory session, tcp scripted net.Conn, dtls/tls loopback) are driven by 1..N concurrent callers while a scripted peer answers piggybacked/separate/delayed/duplicated/permuted; the monitor checks every successful return against the peer's production table (own token, own content, no double delivery) and the equal-token rule. Also: responses of 2-3.5 KiB in one message received through a single re-used receive buffer; callers that hold and re-check responses.",
        note="Real-thread schedules are sampled, not enumerated. Trusted: the scripted peer and its reference codec."),
    "C04": dict(
        cat="fault_enumeration", ref="DESIGN.md §4 C04",
        technique="runtime monitor over a two-party fault-injecting relay: per-block fault scripts (enumerated for short transfers), body identity/multiplicity oracle, -race",
        text="Two real connections exchange block-wise bodies (PRNG bytes with transfer ids) through a relay that delivers/duplicates/drops/reorders/replays blocks by script; all single and double fault scripts are enumerated for short transfers, PRNG scripts beyond; the monitor checks byte-exact bodies, exactly-once delivery under same-MID faults, option preservation and termination by the context deadline. Also: scripted foreign peers with their own block sizes, downloads slower than the block-wise timeout, ETag changes mid-transfer, and interleaved transfers whose tokens differ only in length or in one bit.",
        note="Multiplicity is only required for faults a datagram network produces by itself (same-MID); fresh-MID replays are new requests. Liveness restated as return by deadline+grace."),
    "C05": dict(
        cat="exploration", ref="DESIGN.md §4 C05",
        technique="runtime monitor on handler-invocation log and emitted datagrams for injected duplicate MIDs; virtual-time sweeps for the lifetime boundary; -race",
        text="CON and NON requests are injected repeatedly (sequentially while the first handler is still running, and concurrently) into a real udp connection; the monitor requires one handler run per (MID, lifetime), one equal reply per copy with the duplicate's MID, and fresh handling after a sweep past t0+247s but not before. Also: handlers that take the request over and release it before returning; the same duplicates against a real udp server (wildcard and loopback bind) with Server.NewConn / other peers between the copies.",
        note="Sweep times are bracketed around the wall-clock stamp the library takes (±1 s margin ≫ jitter)."),
    "C06": dict(
        cat="fault_enumeration", ref="DESIGN.md §4 C06",
        technique="runtime monitor over outbox + virtual tick log; loss patterns, tick schedules and cancel points enumerated",
        text="Confirmable requests on a real udp connection with ACK_TIMEOUT=1h are driven only by CheckExpirations(now) with harness-chosen now; all loss patterns over the transmissions and the ACK/response, tick timings around k·ACK_TIMEOUT and cancel positions are enumerated; the monitor checks copy count, earliest time of each copy, byte identity, silence after ACK/RST/cancel/return and the success/failure outcome.",
        note="start stamp bracketed by wall clock; ticks never fall inside the bracket ± 1 min."),
    "C07": dict(
        cat="exploration", ref="DESIGN.md §4 C07",
        technique="runtime monitor: handler log vs sent sequence under enumerated/PRNG segmentations of the byte stream on a scripted net.Conn",
        text="Message sequences are encoded by the reference encoder and fed to a real tcp connection through a net.Conn whose Read returns harness-chosen chunks (all cut sets for short streams, byte-wise, header cuts, PRNG) for several read-buffer sizes; the monitor requires the handler log to equal the sent list, and for oversize frames: nothing delivered from the frame on, connection closed after the header alone.",
        note="Segmentations are exhaustive only for short streams."),
    "C08": dict(
        cat="exploration", ref="DESIGN.md §4 C08",
        technique="runtime monitor: reference RFC 7641 freshness model replayed over injected notification stream vs callback log; exhaustive boundary grid for the predicate",
        text="Notification streams (all permutations of small sets with duplicates, wrap-around windows, PRNG streams) are injected into real udp/tcp connections with 1..16 observations; the callback log must equal what a reference freshness model accepts, per token; registration codes and cancel at every position are covered.",
        note="The 128 s clause is decided only through the exported predicate (wall clock inside the handler)."),
    "C09": dict(
        cat="fault_enumeration", ref="DESIGN.md §4 C09",
        technique="runtime monitor with two-stage watchdog: operations x transports x interruption points x actions enumerated; on-close counters",
        text="Every blocking operation is interrupted (ctx cancel/deadline, local close, peer close, server stop) at enumerated points against silent/garbage/half-open/ack-only peers; the monitor requires return within the bounded-progress watchdog, exactly-once on-close callbacks, Done() closed and idempotent concurrent Close/Stop. Also: a dtls peer that is silent from the first datagram on (handshake never completes), a peer closing this very connection, on-close callbacks that wait for the operation, a parent context ending before Close, Close with a full receive queue.",
        note="Liveness restated as bounded progress; a watchdog firing without the goroutine parked in the library is inconclusive."),
    "C10": dict(
        cat="exploration", ref="DESIGN.md §4 C10",
        technique="runtime monitor over real loopback servers with adversarial peers: per-client response logs, peer-table identity log, liveness probe; -race",
        text="UDP/DTLS/TCP/TLS servers serve well-behaved clients (payload = client id + sequence) while adversaries send garbage, truncated/oversize messages, unsolicited ACK/RST, stalls and abrupt closes; monitors check isolation, per-peer connection identity and order, server survival and a final liveness probe; discovery receivers are checked by token and peer. Also: stall probes, peers announcing an oversized frame and stalling, keep-alive isolation between peers, server-initiated connections, duplicate discovery tokens.",
        note="Multicast is not routable in the sandbox (unicast discovery only)."),
    "C11": dict(
        cat="exploration", ref="DESIGN.md §4 C11",
        technique="runtime exactly-once monitor over injected ids vs processing log; nested-call completion watchdog; ordering in pure-server workloads",
        text="Uniquely tagged messages are injected into real connections with queue sizes 0/1/16 while handlers return, or block in nested requests to depth 4; the monitor checks exactly-once processing at quiescence, nested completion, and arrival order when nothing can reorder. Also: bursts in which the request monitor refuses some messages (delivered with one read on streams).",
        note="Ordering is asserted only without concurrent client calls (a replaced loop may keep dequeuing)."),
    "C12": dict(
        cat="exploration", ref="DESIGN.md §4 C12",
        technique="lifecycle tracker hook in message/pool (state machine, poison-on-release, verify-on-acquire, app-held registry) + race detector attribution, over error-path-weighted workloads",
        text="A verif-tagged tracker records acquire/release per message object, poisons released buffers and checks them at re-acquire; harness registers messages held by application code; workloads weight error paths (write failures, cancels, duplicate tokens, sweeps concurrent with ACKs) on small pools; race reports touching pool/message state count as violations. Also: a ping whose write is slow while the connection gives up on it (the ping must still go out as the ping), and messages the application took over and keeps across the close of their connection.",
        note="Read-after-release without a concurrent write or re-acquire is invisible."),
    "C13": dict(
        cat="exploration", ref="DESIGN.md §4 C13",
        technique="quiescent-point invariant hook: verif-tagged size accessors on every per-exchange table after PRNG exchange histories and virtual-time sweeps",
        text="PRNG histories of exchanges with all outcomes run on real connections; after all calls returned and sweeps at now+1h / +248 s ran, every table size accessor must be 0 (live observations excepted) and repeated histories must not grow any table. Also: connections built without a block-wise layer, small NSTART, failing discoveries, superseded keep-alive pings; a leftover is what survives repeated housekeeping.",
        note="Checked only at quiescent points."),
    "C14": dict(
        cat="exploration", ref="DESIGN.md §4 C14",
        technique="porcupine linearizability checking of recorded call/return histories (unique values, per-key partition) under hook-gated systematic schedules and barrier stress; winner-count and conservation monitors",
        text="pkg/sync.Map and pkg/cache.Cache are driven by 2-8 goroutines; histories are recorded at the API boundary and checked against a sequential map model with porcupine; Range/CheckExpirations are decomposed into per-item sub-operations; a cooperative scheduler enumerates interleavings at hook points, stress covers the rest.",
        note="Porcupine timeouts are inconclusive. Stress schedules are sampled."),
    "C15": dict(
        cat="exploration", ref="DESIGN.md §4 C15",
        technique="step-by-step reference-model monitor (sorted multiset) over exhaustive short and PRNG long operation sequences on message.Options and pool.Message",
        text="Every operation of an exhaustive (short) or PRNG (long) edit sequence is applied to the real option list / pooled message builder and to a reference list; after each step the full list and all queries with short/exact/long result buffers are compared; values are deep-checked at the end; path split/join is compared with a normaliser.",
        note="Trusted: the reference list model."),
    "C16": dict(
        cat="exploration", ref="DESIGN.md §4 C16",
        technique="reference limiter model stepped on the same event sequence: exhaustive {arrive,cancel,finish} orders driven to quiescence via a queue accessor hook; gauge monitor under -race stress",
        text="Every order of arrive/cancel/finish events for up to 4-5 requests over 1-2 paths and limits 1-2 is driven against the real limiter, each event to quiescence; admissions are compared with a reference model; in-flight gauges are checked inside the wrapped do; the limiter must be idle at the end. Also: limits observed on the wire for requests a dtls/udp SERVER issues over connections it accepted, and Observation.Cancel through the limiter.",
        note="Grant-vs-cancel races accept both outcomes."),
    "C17": dict(
        cat="exploration", ref="DESIGN.md §4 C17",
        technique="differential runtime monitor: Router.ServeCOAP with recording handlers vs independent backtracking matcher; concurrent mutation under -race with snapshot brackets",
        text="Route sets from a grammar (literals with regex metacharacters, {v}, {v:re}) and derived/mutated paths are dispatched; the invoked handler must be a longest full match per an independent matcher, default iff none; variables must reconstruct the path; middlewares in order; concurrent Handle/HandleRemove/ServeCOAP is raced.",
        note="Capturing groups in patterns and Use concurrent with dispatch are outside the quantifier."),
    "C18": dict(
        cat="exploration", ref="DESIGN.md §4 C18",
        technique="reference monitor model over exhaustive event strings {recv, pong, stale pong, tick-, tick+} with virtual time, on the monitor objects and on real connections",
        text="All event strings up to a bound over receive/pong/stale-pong/tick events are applied to the real inactivity/keep-alive monitors (directly and through real udp/tcp connections with CheckExpirations(now)); closes and pings are compared with a reference model. Also: completion of injected messages is observed (not timed); groups of connections from one configuration; a real dtls server whose handshake takes longer than the period.",
        note="'More than N pings' read tolerantly (close at failing tick N+1 or N+2)."),
    "C19": dict(
        cat="exploration", ref="DESIGN.md §4 C19",
        technique="exhaustive differential monitor against an RFC 7959 specification function over the whole 24-bit/2^32 domain",
        text="All 2^24 option values (thorough: all 2^32 decoder inputs), all 8x2^20x2 encoder triples and the named out-of-domain arguments are compared with a 6-line specification function; BERT first-block sizing is observed through BlockWise.Do for a grid of max message sizes. Exhaustive on the domain the statement names.",
        note="Trusted: the specification function."),
    "C20": dict(
        cat="exploration", ref="DESIGN.md §4 C20",
        technique="exhaustive differential monitor of the RFC 7967 class rule over 32 values x 256 codes, plus wire observation on real udp/tcp connections",
        text="Every (No-Response value, response code) pair is checked on IsNoResponseCode and ResponseWriter.SetResponse against the class rule, and end-to-end on real udp (CON/NON) and tcp connections where the emitted datagrams/frames are inspected (suppressed => nothing but a bare ACK; not suppressed => response present). Also: retransmitted confirmable requests, handlers that release the request before answering, six option environments, all request methods.",
        note="Trusted: the 1-line class rule."),
}

NOT_BUILT_REASON = "check not built yet in this session (runtime-monitoring design exists in DESIGN.md §4); not claimed"


def main():
    checks, na = [], []
    for i in range(1, 21):
        pid = "C%02d" % i
        c = CLAIMS.get(pid)
        have = os.path.isdir(os.path.join(VERIF, "harness", pid.lower()))
        if not (c and have):
            na.append(dict(property_id=pid, reason=NOT_BUILT_REASON))
            continue
        checks.append(dict(
            property_id=pid,
            quick_cmd="./check %s quick" % pid,
            thorough_cmd="./check %s thorough" % pid,
            evidence_file="/verif/evidence/%s.json" % pid,
            replay_cmd_template="./check %s --replay {path}" % pid,
            engine="check",
            level_claimed=dict(category=c["cat"], text=c["text"], design_ref=c["ref"]),
            level_note=c["note"],
            technique=c["technique"],
        ))
    try:
        commits = subprocess.run(["git", "-C", "/repo", "log", "--format=%H %s"], capture_output=True, text=True).stdout.splitlines()
        hook_commits = [l.split()[0] for l in commits if l.split(" ", 1)[1].startswith("verif hooks:")]
    except Exception:
        hook_commits = []
    m = dict(
        version=1,
        setup_cmd="./check --build-all",
        hooks=dict(
            guard="verif",
            enable="go build tag: checks build /repo with `-tags verif` (through harness/go.mod replace => /repo)",
            baseline_off_cmd="cd /repo && go test -vet=off -count=1 -timeout 25m ./...",
            source_commits=hook_commits,
            add_only=True,
        ),
        engines=[dict(name="check", path="/verif/check", serves_properties=[c["property_id"] for c in checks],
                      kind_free_text="python driver: rebuilds harness/<id> test binary from /repo working tree (-tags verif, -race or checkptr), runs it as a child under a watchdog, parses result + race logs, writes evidence, matches known_findings.json")],
        checks=checks,
        notes="Runtime monitoring and sanitizers only. Known findings: /verif/known_findings.json. See DESIGN.md.",
        not_applicable=na,
    )
    with open(os.path.join(VERIF, "MANIFEST.json"), "w") as f:
        json.dump(m, f, indent=1)
        f.write("\n")
    print("claimed:", [c["property_id"] for c in checks])


if __name__ == "__main__":
    main()
