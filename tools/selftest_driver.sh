#!/bin/bash
# Self-test of the driver's handling of a child that is taken down by a panic inside a dependency: the wrapper makes the
# first start of the child die like that (output copied from a real occurrence), the second start runs the real check.
# Expected: the check prints "run repeated: ..." once and ends like a normal run (exit 0 on the unchanged tree).
W=/verif/.scratch/wrapper.sh; F=/verif/.scratch/wrapper.first; rm -f $F
cat > $W <<'EOW'
#!/bin/bash
if [ ! -e /verif/.scratch/wrapper.first ]; then
  touch /verif/.scratch/wrapper.first
  cat <<'EOP'
=== RUN   TestRun
panic: sync: WaitGroup is reused before previous Wait has returned

goroutine 4764 [running]:
sync.(*WaitGroup).Wait(0xc0003a2b60)
	/root/go/pkg/mod/golang.org/toolchain@v0.0.1-go1.24.0.linux-amd64/src/sync/waitgroup.go:120 +0xe5
github.com/pion/dtls/v3/internal/net/udp.(*ListenConfig).Listen.func1()
	/root/go/pkg/mod/github.com/pion/dtls/v3@v3.1.2/internal/net/udp/packet_conn.go:190 +0x35
created by github.com/pion/dtls/v3/internal/net/udp.(*ListenConfig).Listen in goroutine 24
	/root/go/pkg/mod/github.com/pion/dtls/v3@v3.1.2/internal/net/udp/packet_conn.go:189 +0x4e5
EOP
  exit 2
fi
exec "$@"
EOW
chmod +x $W
cd /verif && VERIF_CHILD_WRAPPER=$W VERIF_EVIDENCE_DIR=/verif/.scratch/evidence-dev ./check ${1:-C08} quick 2>&1 | grep -v '^CASE' | grep -E "evaluations|repeated|VIOLATION|BROKEN"; echo "exit ${PIPESTATUS[0]}"
