#!/bin/bash
# Runs the repository's own test suite with the verif tag OFF (or with extra args, e.g. -tags verif / -race)
# and prints the failing tests. Expected failures (BASELINE.json always_fail): net::TestUDPConnWriteToAddr,
# net::TestUDPConnWriteWithContext (multicast is not routable in this sandbox).
export GOFLAGS=-mod=mod GOPROXY=off GOSUMDB=off GOTOOLCHAIN=local
G=/root/go/pkg/mod/golang.org/toolchain@v0.0.1-go1.24.0.linux-amd64/bin/go
[ -x "$G" ] || G=go1.26
cd /repo || exit 2
PK=${PKGS:-./...}
$G test -json -vet=off -count=1 -timeout 25m "$@" $PK > /tmp/repo_suite.json 2>/tmp/repo_suite.err
python3 - <<'PY'
import json
p=f=0
fails=[]
for l in open('/tmp/repo_suite.json'):
    try: e=json.loads(l)
    except: continue
    if e.get('Test') and e.get('Action') in ('pass','fail'):
        if e['Action']=='pass': p+=1
        else:
            f+=1; fails.append(e['Package'].split('/v3/')[-1]+'::'+e['Test'])
    elif not e.get('Test') and e.get('Action')=='fail':
        fails.append('PKG '+e['Package'])
exp={'net::TestUDPConnWriteToAddr','net::TestUDPConnWriteWithContext','PKG github.com/plgd-dev/go-coap/v3/net'}
unexp=[x for x in fails if x not in exp]
print('passed',p,'failed',f,'unexpected failures:',unexp)
import sys
sys.exit(1 if unexp else 0)
PY
