#!/bin/bash
# usage: tools/sweep.sh <tier> <seed> [checks...]   (exploration aid; honours VERIF_REPO_DIR)
tier=$1; seed=$2; shift 2
checks=${@:-C01 C02 C03 C04 C05 C06 C07 C08 C09 C10 C11 C12 C13 C14 C15 C16 C17 C18 C19 C20}
for c in $checks; do
  t0=$(date +%s)
  out=$(VERIF_SEED=$seed ./check $c $tier 2>&1 | grep -v '^CASE')
  rc=$?
  echo "$c $tier seed=$seed: $(( $(date +%s)-t0 ))s $(echo "$out" | head -1 | cut -c1-110)"
  echo "$out" | grep -E "^VIOLATION|^BROKEN|violation signature|inconclusive: " | head -6
done
