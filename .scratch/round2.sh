#!/bin/bash
# confirm all round-2 seeds (parallel 3), then try each against its check sequentially
cd /verif
conf() { c=$1; d=$(python3 -c "import json;print(json.load(open('/tmp/seed/$c/SEED/meta.json'))['demo_package_dir'].strip('/').lstrip('./'))"); 
  run=$(grep -ho 'func Test[A-Za-z0-9_]*' /tmp/seed/$c/SEED/*_test.go | sed 's/func //' | tr '\n' '|' | sed 's/|$//');
  tools/confirm_seed.sh /tmp/seed/$c "$d" "^($run)\$" > .scratch/confirm2.$c.log 2>&1; }
export -f conf
ls -d /tmp/seed/C??/SEED | sed 's|/tmp/seed/||;s|/SEED||' | xargs -P 3 -I{} bash -c 'conf {}'
for c in $(ls -d /tmp/seed/C??/SEED | sed 's|/tmp/seed/||;s|/SEED||'); do
  echo "=== $c"; tools/try_seed.sh /tmp/seed/$c/SEED/patch.diff $c 2>&1 | tail -9; rm -rf replays/$c
done > .scratch/try2.log 2>&1
echo done >> .scratch/try2.log
